#!/bin/sh
# Builds everything the checks need, offline, from files on disk only.
set -e
export CARGO_NET_OFFLINE=true
cd /verif/harness
cargo build --release --offline
cargo build --profile checked --offline
/verif/tools/build_cli.sh
echo "setup ok"
