//! C17 - registration country for all 2^24 addresses (E1, complete domain).

use super::Prop;
use crate::engine::sweep::{CHUNK, Obs, Vector, run_vectors};
use crate::frames;
use crate::refmodel::country::Lookup;
use crate::report::{Ctx, Level, Partial, Tier};
use crate::run::Cfg;
use serde_json::{Value, json};
use squitterator::{Plane, get_message};

pub static PROP: Prop = Prop { id: "C17", level, run, replay, gate, both_profiles: false, serial: false };

fn level(t: Tier) -> Level {
    Level {
        category: "exploration",
        rule: if t.thorough() { "every address 0..0xFFFFFF through the public constructor Plane::from_message (the one the table uses) AND every address 1..0xFFFFFF through the reader seam (a DF11 line creating the row, 512 reader runs of 32768 rows); an outcome is the (address-block, code) pair; distinct_nontrivial counts distinct codes/blocks observed" } else { "every address 0..0xFFFFFF through the public constructor Plane::from_message (the one the table uses), plus every block boundary +-1 and every 4099th address through the reader seam (DF11 creating the row); an outcome is the (address-block, code) pair; distinct_nontrivial counts distinct codes/blocks observed" },
        assumptions: vec![
            "oracle: the 189 disjoint aligned blocks of DESIGN App. A, transcribed independently of country_icao_mask.rs".into(),
            "row.reg is what the RG column prints (C14 checks the rendering)".into(),
        ],
    }
}

/// frames of every format that may follow the first one, among them identification squitters whose callsign
/// looks like a registration mark of some state, in every category class
fn later_frames(a: u32) -> Vec<frames::Frame> {
    let mut v = vec![
        frames::df4(a, frames::ac13_for_alt(31000)),
        frames::df5(a, frames::id13_for_squawk(4521)),
        frames::df17(5, a, frames::me_ident(4, 3, frames::callsign_codes("REG"))),
        frames::df17(5, a, frames::me_surfpos(7, 1, 0, 0, 0, 0, 93006, 51380)),
        frames::df17(5, a, frames::me_ident(4, 5, frames::callsign_codes("OTHER1"))),
        frames::df17(5, a, frames::me_surfpos(6, 0, 1, 64, 0, 1, 93010, 51390)),
        frames::df17(5, a, frames::me_ident(3, 1, frames::callsign_codes("OTHER2"))),
        frames::df17(0, a, frames::me_tc31(2)),
        frames::df20(a, frames::ac13_for_alt(7000), frames::mb_bds17(0xFFFFFF)),
        frames::df21(a, frames::id13_for_squawk(1000), 0x20_04D3_0C30_C30C),
        frames::df0(a, 100),
        frames::df16(a, 100, 0),
    ];
    for cf in 0..8 {
        v.push(frames::df18(cf, a, frames::me_ident(2, 1, frames::callsign_codes("TIS"))));
        v.push(frames::df18(cf, a, frames::me_airpos(11, 0, 0, frames::ac12_for_alt(5000), 0, (cf & 1) as u32, 93000, 51372)));
        // the same with ME bit 8 set (single-antenna flag in DF17; TIS-B "ICAO/Mode A flag" when CF says so)
        v.push(frames::df18(cf, a, frames::me_airpos(11, 0, 1, frames::ac12_for_alt(5000), 0, (cf & 1) as u32, 93000, 51372)));
        v.push(frames::df18(cf, a, frames::me_airpos(13, 3, 1, frames::ac12_for_alt(9000), 1, 1 - (cf & 1) as u32, 93010, 51380)));
    }
    for (i, cs) in ["GABCD", "DEABC", "EIABC", "N123AB", "FGXYZ", "OKABC", "VHABC", "CFABC", "RA12345", "B1234", "JA123A", "HBABC"].iter().enumerate() {
        let (tc, ca) = [(4u32, 1u32), (4, 7), (3, 1), (3, 4), (2, 1), (1, 0), (4, 3)][i % 7];
        v.push(frames::df17(5, a, frames::me_ident(tc, ca, frames::callsign_codes(cs))));
        v.push(frames::df21(a, frames::id13_for_squawk(1000), frames::mb_bds20(frames::callsign_codes(cs))));
    }
    for (tc, ca) in [(4u32, 1u32), (4, 7), (3, 1), (3, 4)] {
        for cs in ["GABCD", "DEABC", "N123AB"] {
            v.push(frames::df17(5, a, frames::me_ident(tc, ca, frames::callsign_codes(cs))));
        }
    }
    v
}

fn gate(p: &Partial, t: Tier) -> Result<(), String> {
    super::default_gate(p, t)?;
    if p.evals < (1 << 24) {
        return Err(format!("only {} of 16777216 addresses evaluated", p.evals));
    }
    super::need(p, "inside-block", 1 << 20)?;
    super::need(p, "outside-every-block", 1 << 20)?;
    super::need(p, "reader-seam", 1000)?;
    super::need(p, "reg-stable-under-later-frames", 1000)?;
    Ok(())
}

/// look for one predecessor `h` such that resolving h and then `a` on a fresh thread gives `wrong`
fn find_predecessor(history: &[u32], a: u32, wrong: Option<&'static str>, f: fn(u32) -> Option<&'static str>) -> Option<u32> {
    for &h in history.iter().rev() {
        let r = std::thread::Builder::new()
            .name("sqv-fresh".into())
            .spawn(move || {
                let _ = f(h);
                f(a)
            })
            .ok()
            .and_then(|t| t.join().ok())
            .flatten();
        if r == wrong {
            return Some(h);
        }
    }
    None
}

fn ctor_reg(addr: u32) -> Option<&'static str> {
    let f = frames::df11(5, addr, 0);
    let msg = get_message(&f.hex())?;
    Some(Plane::from_message(&msg, 11, addr, false).reg)
}

fn seam_addresses(lk: &Lookup, thorough: bool) -> Vec<u32> {
    if thorough {
        return (1..(1u32 << 24)).collect();
    }
    let mut v: Vec<u32> = (1..(1u32 << 24)).step_by(4099).collect();
    for b in &lk.blocks {
        for a in [b.lo.wrapping_sub(1), b.lo, b.lo + 1, b.hi - 1, b.hi, b.hi + 1] {
            if a >= 1 && a < (1 << 24) {
                v.push(a);
            }
        }
    }
    v.sort();
    v.dedup();
    v
}

fn run(ctx: &mut Ctx) {
    let lk = Lookup::new();
    // (a) complete domain through the constructor; worker k owns addresses == k mod n
    let mut a = ctx.part as u32;
    let mut history: std::collections::VecDeque<u32> = std::collections::VecDeque::new();
    while a < (1 << 24) {
        let want = if a == 0 { lk.code(a) } else { lk.code(a) };
        let got = ctor_reg(a);
        ctx.eval();
        match lk.block_index(a) {
            Some(i) => {
                ctx.count("inside-block");
                ctx.outcome_sample(&(i, got), &format!("{:06X}", a), || json!({"addr": format!("{a:06X}"), "reg": got}));
            }
            None => {
                ctx.count("outside-every-block");
                ctx.outcome(&("??", got));
            }
        }
        if got != Some(want) {
            // is the wrong answer a function of the address alone, or of what was resolved before?
            let alone = std::thread::Builder::new().name("sqv-fresh".into()).spawn(move || ctor_reg(a)).ok().and_then(|t| t.join().ok()).flatten();
            let prev = if alone == got { None } else { find_predecessor(history.make_contiguous(), a, got, ctor_reg) };
            ctx.violation(
                if alone == got { "C17/ctor" } else { "C17/ctor-history" },
                &format!("addr={a:06X}"),
                || format!("address {a:06X}: expected {want}, Plane::from_message gives {got:?}{}", match prev { Some(h) => format!(" when {h:06X} was resolved just before (alone it gives {alone:?})"), None if alone != got => format!(" depending on earlier addresses (alone it gives {alone:?})"), None => String::new() }),
                || json!({"kind": "ctor", "addr": a, "prev": prev}),
            );
        }
        history.push_back(a);
        if history.len() > 300 {
            history.pop_front();
        }
        if a % 1_000_003 == 0 {
            ctx.sample(|| json!({"seam": "ctor", "addr": format!("{a:06X}"), "expected": want, "observed": got}));
        }
        a += ctx.nparts as u32;
    }
    // (b') the registration is decided by the address alone: under -U and -R as well, and whatever
    // frames of whatever format arrive later (DF18 with every CF value included)
    {
        let later = later_frames;
        let mut addrs: Vec<u32> = lk.blocks.iter().flat_map(|b| [b.lo, b.hi]).collect();
        addrs.extend([0x000001u32, 0x00A000, 0x2FFFFF, 0x900500, 0xFFFFFF, 0xD09000]);
        // both ends of every unallocated gap between blocks (their registration is "??" whatever they send)
        let mut sorted: Vec<(u32, u32)> = lk.blocks.iter().map(|b| (b.lo, b.hi)).collect();
        sorted.sort();
        for w in sorted.windows(2) {
            if w[0].1 + 1 < w[1].0 {
                addrs.push(w[0].1 + 1);
                addrs.push(w[1].0 - 1);
            }
        }
        addrs.sort();
        addrs.dedup();
        for (ci, opts) in [&[][..], &["-U"][..], &["-R"][..], &["-U", "-R"][..]].iter().enumerate() {
            let cfgx = Cfg::new(opts);
            for (k, chunk) in addrs.chunks(64).enumerate() {
                if !ctx.mine((ci * 1000 + k) as u64) {
                    continue;
                }
                for first_is_df11 in [true, false] {
                    let vecs: Vec<Vector> = chunk
                        .iter()
                        .map(|&a| {
                            let mut lines: Vec<Vec<u8>> = vec![];
                            if first_is_df11 {
                                lines.push(frames::df11(5, a, 0).hex().into_bytes());
                            }
                            lines.extend(later(a).iter().map(|f| f.hex().into_bytes()));
                            Vector { addr: a, lines }
                        })
                        .collect();
                    // ... and every one of those frames as the FIRST frame of the aircraft (the row is created by it)
                    if !first_is_df11 {
                        let nlater = later(chunk[0]).len();
                        for first in 0..nlater {
                            let fv: Vec<Vector> = chunk.iter().map(|&a| Vector { addr: a, lines: vec![later(a)[first].hex().into_bytes()] }).collect();
                            let obs = run_vectors(&cfgx, &fv);
                            for (a, o) in chunk.iter().zip(obs.iter()) {
                                ctx.eval();
                                ctx.count("reg-of-row-created-by-each-format");
                                let want = lk.code(*a);
                                // formats that do not create a row (filtered, zero address, ...) are not judged here
                                if let Some(got) = o.row().map(|s| s.reg.clone()) {
                                    if got != want {
                                        ctx.violation(
                                            &format!("C17/first-frame/{}", cfgx.label()),
                                            &format!("addr={a:06X}/frame#{first}"),
                                            || format!("address {a:06X} under [{}], row created by {}: expected {want}, row shows {got:?}", cfgx.label(), later(*a)[first].hex()),
                                            || json!({"kind": "first", "addr": a, "cfg": cfgx.opts, "first": first}),
                                        );
                                    }
                                }
                            }
                        }
                    }
                    let obs = run_vectors(&cfgx, &vecs);
                    for (a, o) in chunk.iter().zip(obs.iter()) {
                        ctx.eval();
                        ctx.count("reg-stable-under-later-frames");
                        let want = lk.code(*a);
                        let got = o.row().map(|s| s.reg.clone());
                        if got.as_deref() != Some(want) {
                            ctx.violation(
                                &format!("C17/later-frames/{}", cfgx.label()),
                                &format!("addr={a:06X}/{}", if first_is_df11 { "DF11 first" } else { "DF4 first" }),
                                || format!("address {a:06X} under [{}]: expected {want} after frames of every format, row shows {got:?}", cfgx.label()),
                                || json!({"kind": "later", "addr": a, "cfg": cfgx.opts, "df11": first_is_df11}),
                            );
                        }
                    }
                }
            }
        }
    }
    // (b) reader seam
    let cfg = Cfg::new(&[]);
    let addrs: Vec<u32> = seam_addresses(&lk, ctx.tier.thorough()).into_iter().enumerate().filter(|(i, _)| ctx.mine(*i as u64)).map(|(_, a)| a).collect();
    for chunk in addrs.chunks(CHUNK) {
        let vecs: Vec<Vector> = chunk.iter().map(|&a| Vector { addr: a, lines: vec![frames::df11(5, a, 0).hex().into_bytes()] }).collect();
        let obs = run_vectors(&cfg, &vecs);
        for (a, o) in chunk.iter().zip(obs.iter()) {
            ctx.eval();
            ctx.count("reader-seam");
            let want = lk.code(*a);
            let got = match o {
                Obs::Row(s) => s.reg.clone(),
                other => format!("{other:?}"),
            };
            if got != want {
                let alone = run_vectors(&cfg, &[Vector { addr: *a, lines: vec![frames::df11(5, *a, 0).hex().into_bytes()] }])[0].row().map(|s| s.reg.clone());
                let mut prev = None;
                if alone.as_deref() != Some(got.as_str()) {
                    let idx = chunk.iter().position(|x| x == a).unwrap_or(0);
                    for h in chunk[idx.saturating_sub(300)..idx].iter().rev() {
                        let both = run_vectors(&cfg, &[Vector { addr: *h, lines: vec![frames::df11(5, *h, 0).hex().into_bytes()] }, Vector { addr: *a, lines: vec![frames::df11(5, *a, 0).hex().into_bytes()] }]);
                        if both[1].row().map(|s| s.reg.as_str()) == Some(got.as_str()) {
                            prev = Some(*h);
                            break;
                        }
                    }
                }
                ctx.violation(
                    if prev.is_some() { "C17/reader-history" } else { "C17/reader" },
                    &format!("addr={a:06X}"),
                    || format!("address {a:06X}: expected {want}, row created by DF11 shows {got}{}", prev.map(|h| format!(" when the line before it is the DF11 of {h:06X}")).unwrap_or_default()),
                    || json!({"kind": "reader", "addr": a, "prev": prev}),
                );
            }
        }
    }
    ctx.sample(|| json!({"seam": "reader", "line": frames::df11(5, 0x4CA123, 0).hex(), "expected": lk.code(0x4CA123)}));
    ctx.bound("addresses", if ctx.tier.thorough() { "all 16777216 (constructor seam) and all 16777215 non-zero (reader seam)" } else { "all 16777216 (constructor seam); block boundaries +-1 and stride 4099 (reader seam)" });
    ctx.out.exhaustive = true;
}

fn replay(ctx: &mut Ctx, case: &Value) {
    let lk = Lookup::new();
    let a = case.get("addr").and_then(|x| x.as_u64()).unwrap_or(0) as u32;
    let want = lk.code(a);
    match case.get("kind").and_then(|x| x.as_str()) {
        Some("ctor") => {
            if let Some(h) = case.get("prev").and_then(|x| x.as_u64()) {
                crate::run::say(&format!("resolved just before: {:06X} -> {:?}", h, ctor_reg(h as u32)));
            }
            let got = ctor_reg(a);
            crate::run::say(&format!("address {a:06X}: expected {want}, observed {got:?}"));
            if got != Some(want) {
                ctx.violation("C17/ctor", &format!("addr={a:06X}"), || format!("expected {want}, got {got:?}"), || case.clone());
            }
        }
        Some("reader") => {
            let cfg = Cfg::new(&[]);
            let mut vs = vec![];
            if let Some(h) = case.get("prev").and_then(|x| x.as_u64()) {
                vs.push(Vector { addr: h as u32, lines: vec![frames::df11(5, h as u32, 0).hex().into_bytes()] });
            }
            vs.push(Vector { addr: a, lines: vec![frames::df11(5, a, 0).hex().into_bytes()] });
            let obs = run_vectors(&cfg, &vs);
            let got = obs.last().unwrap().row().map(|s| s.reg.clone());
            crate::run::say(&format!("line {}: expected {want}, observed {got:?}", frames::df11(5, a, 0).hex()));
            if got.as_deref() != Some(want) {
                ctx.violation("C17/reader", &format!("addr={a:06X}"), || format!("expected {want}, got {got:?}"), || case.clone());
            }
        }
        Some("first") => {
            let opts: Vec<String> = case.get("cfg").and_then(|c| c.as_array()).map(|a| a.iter().filter_map(|x| x.as_str().map(String::from)).collect()).unwrap_or_default();
            let o: Vec<&str> = opts.iter().map(|s| s.as_str()).collect();
            let cfg = Cfg::new(&o);
            let first = case.get("first").and_then(|x| x.as_u64()).unwrap_or(0) as usize;
            let fr = later_frames(a);
            let f = &fr[first % fr.len()];
            let obs = run_vectors(&cfg, &[Vector { addr: a, lines: vec![f.hex().into_bytes()] }]);
            let got = obs[0].row().map(|s| s.reg.clone());
            crate::run::say(&format!("address {a:06X} under [{}], row created by {}: expected {want}, observed {got:?}", cfg.label(), f.hex()));
            if got.is_some() && got.as_deref() != Some(want) {
                ctx.violation("C17/first-frame", &format!("addr={a:06X}"), || format!("expected {want}, got {got:?}"), || case.clone());
            }
        }
        Some("later") => {
            let opts: Vec<String> = case.get("cfg").and_then(|c| c.as_array()).map(|a| a.iter().filter_map(|x| x.as_str().map(String::from)).collect()).unwrap_or_default();
            let o: Vec<&str> = opts.iter().map(|s| s.as_str()).collect();
            let cfg = Cfg::new(&o);
            let mut lines: Vec<Vec<u8>> = vec![];
            if case.get("df11").and_then(|x| x.as_bool()).unwrap_or(true) {
                lines.push(frames::df11(5, a, 0).hex().into_bytes());
            }
            lines.extend(later_frames(a).iter().map(|f| f.hex().into_bytes()));
            let obs = run_vectors(&cfg, &[Vector { addr: a, lines }]);
            let got = obs[0].row().map(|s| s.reg.clone());
            crate::run::say(&format!("address {a:06X} under [{}] after frames of every format (DF18 with CF 0..7, registration-like callsigns): expected {want}, observed {got:?}", cfg.label()));
            if got.as_deref() != Some(want) {
                ctx.violation("C17/later-frames", &format!("addr={a:06X}"), || format!("expected {want}, got {got:?}"), || case.clone());
            }
        }
        _ => ctx.machinery("unknown replay case kind"),
    }
}
