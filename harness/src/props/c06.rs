//! C06 - squawk = octal identity code of the latest DF5/DF21 (E1, complete ID13 domain).

use super::Prop;
use crate::engine::sweep::{CFG4, Obs, hexline, single, sweep};
use crate::frames::{self, Frame};
use crate::refmodel::fields;
use crate::report::{Ctx, Level, Partial, Tier};
use crate::run::Cfg;
use serde_json::{Value, json};

pub static PROP: Prop = Prop { id: "C06", level, run, replay, gate, both_profiles: false, serial: false };

const SENTINEL_SQ: u32 = 7421;
const BASE: u32 = 0x480001;

fn level(_t: Tier) -> Level {
    Level {
        category: "exploration",
        rule: "all 2^13 identity fields x {DF5, DF21} x base sets of the remaining bits (FS/DR/UM all-0, all-1; MB zero / all-ones / BDS 2,0 skeleton) x {first frame, update of an existing row with a sentinel squawk} x option sets {default,-U,-R,-U -R}, each vector with its own address through the real reader thread; plus every other supported format applied to a row with squawk 7421; distinct_nontrivial counts distinct (format, decoded squawk) outcomes",
        assumptions: vec!["oracle: A B C D octal digits from bit order C1 A1 C2 A2 C4 A4 X B1 D1 B2 D2 B4 D4, written from the standard".into(), "a DF21 that creates the row may contribute the address only (stated)".into()],
    }
}

fn gate(p: &Partial, t: Tier) -> Result<(), String> {
    super::default_gate(p, t)?;
    super::need(p, "value-checked", 8192 * 8)?;
    super::need(p, "other-format-leaves-squawk", 20)?;
    if p.outcomes.len() < 4096 {
        return Err("fewer than 4096 distinct squawks observed".into());
    }
    Ok(())
}

#[derive(Clone, Copy)]
struct V {
    df: u32,
    id13: u32,
    base: u32, // 0: zeros, 1: all-ones FS/DR/UM (+ MB ones), 2: MB = BDS 2,0 skeleton
    update: bool,
    /// how the row came to exist (update only): 0 = DF11 CA5, 1 = DF11 CA0, 2 = by the sentinel DF5 alone, 3 = by a DF20
    pre: u32,
}

fn frame(v: &V, addr: u32) -> Frame {
    let b6 = match v.base {
        0 => frames::surv_bits(0, 0, 0, v.id13),
        1 | 2 => frames::surv_bits(7, 31, 63, v.id13),
        50 => frames::surv_bits(0, 0, 0, v.id13),
        // 3..=16: exactly one of the 14 FS/DR/UM bits set
        k => (1u32 << (13 + (k - 3))) | v.id13,
    };
    if v.df == 5 {
        frames::short_ap(5, b6, addr)
    } else {
        let mb = match v.base {
            0 => 0,
            1 => 0x00FF_FFFF_FFFF_FFFF,
            2 => frames::mb_bds20(frames::callsign_codes("VERIF17")),
            // an MB field shaped like an emergency / priority status report carrying a Mode A code (7700)
            50 => frames::me_tc28(),
            // one MB bit set per base (walks over the first 14 and every 4th later bit)
            k => 1u64 << (55 - ((k as u64 - 3) * 4)),
        };
        frames::long_ap(21, b6, mb, addr)
    }
}

fn lines(v: &V, addr: u32) -> Vec<Vec<u8>> {
    let mut l = vec![];
    if v.update {
        match v.pre {
            0 => l.push(hexline(&frames::df11(5, addr, 0))),
            1 => l.push(hexline(&frames::df11(0, addr, 0))),
            3 => l.push(hexline(&frames::df20(addr, frames::ac13_for_alt(7000), 0))),
            _ => {}
        }
        if v.pre == 5 {
            // the row shows an altitude whose 13-bit code is the very bit pattern of the identity field under test
            l.push(hexline(&frames::df11(5, addr, 0)));
            l.push(hexline(&frames::df4(addr, v.id13)));
        }
        l.push(hexline(&frames::df5(addr, frames::id13_for_squawk(SENTINEL_SQ))));
    }
    l.push(hexline(&frame(v, addr)));
    l
}

fn judge(ctx: &mut Ctx, cfg: &Cfg, v: &V, addr: u32, o: &Obs) {
    ctx.eval();
    let want = fields::squawk(v.id13);
    let site = format!("C06/DF{}/{}", v.df, if v.update { format!("update-pre{}", v.pre) } else { "first".to_string() });
    let key = format!("id13={:04X}/base{}/{}", v.id13, v.base, cfg.label());
    let case = || json!({"kind": "id13", "df": v.df, "id13": v.id13, "base": v.base, "update": v.update, "pre": v.pre, "cfg": cfg.opts, "addr": addr});
    match o {
        Obs::Row(s) => {
            if v.df == 21 && !v.update {
                // row created by DF21: address only is admissible
                ctx.count("df21-creates-row(unconstrained)");
                if s.squawk.is_some() && s.squawk != Some(want) {
                    ctx.violation(&site, &key, || format!("ID13 {:04X}: expected squawk {want:04} or none, row shows {:?}", v.id13, s.squawk), case);
                }
                return;
            }
            ctx.count("value-checked");
            ctx.outcome_sample(&(v.df, s.squawk), &format!("DF{} {:04X}", v.df, v.id13), || json!({"line": frame(v, addr).hex(), "squawk": s.squawk}));
            if s.squawk != Some(want) {
                ctx.violation(&site, &key, || format!("ID13 {:04X} in {}: expected squawk {want:04}, row shows {:?}", v.id13, frame(v, addr).hex(), s.squawk), case);
            }
        }
        other => {
            ctx.violation(&site, &key, || format!("ID13 {:04X} in {}: no row / crash: {other:?}", v.id13, frame(v, addr).hex()), case);
        }
    }
}

/// frames of every other supported format (must leave the squawk alone)
fn other_formats(addr: u32) -> Vec<(&'static str, Frame)> {
    vec![
        ("DF0", frames::df0(addr, frames::ac13_for_alt(3000))),
        ("DF4", frames::df4(addr, frames::ac13_for_alt(31000))),
        ("DF11", frames::df11(5, addr, 0)),
        ("DF16", frames::df16(addr, frames::ac13_for_alt(3000), 0x30_0000_0000_0000)),
        ("DF17-TC4", frames::df17(5, addr, frames::me_ident(4, 3, frames::callsign_codes("SQK7000")))),
        ("DF17-TC11", frames::df17(5, addr, frames::me_airpos(11, 0, 0, frames::ac12_for_alt(7000), 0, 0, 93000, 51372))),
        ("DF17-TC7", frames::df17(5, addr, frames::me_surfpos(7, 20, 1, 60, 0, 1, 93000, 51372))),
        ("DF17-TC19", frames::df17(5, addr, frames::me_velocity(&frames::Vel { st: 1, vew: 701, vns: 77, vr: 70, ..Default::default() }))),
        ("DF17-TC28", frames::df17(5, addr, frames::me_tc28())),
        ("DF17-TC29", frames::df17(5, addr, frames::me_tc29())),
        ("DF17-TC31", frames::df17(5, addr, frames::me_tc31(2))),
        ("DF18-TC11", frames::df18(2, addr, frames::me_airpos(11, 0, 0, frames::ac12_for_alt(7000), 0, 1, 93000, 51372))),
        ("DF20", frames::df20(addr, frames::ac13_for_alt(7000), frames::mb_bds20(frames::callsign_codes("X7000")))),
        ("DF20-bds17", frames::df20(addr, frames::ac13_for_alt(7000), frames::mb_bds17(frames::CAP_20 | frames::CAP_40 | frames::CAP_50 | frames::CAP_60))),
    ]
}

fn run(ctx: &mut Ctx) {
    let mut items: Vec<V> = vec![];
    let all_bases: Vec<u32> = (0..17).collect();
    let bases: &[u32] = if ctx.tier.thorough() { &all_bases } else { &[0, 1] };
    for df in [5u32, 21] {
        for &base in bases {
            if df == 5 && base == 2 {
                continue;
            }
            for (update, pre) in [(false, 0u32), (true, 0), (true, 1), (true, 2), (true, 3)] {
                if pre > 0 && base > 0 && base < 3 {
                    continue;
                }
                if base >= 3 && pre != 0 && pre != 2 {
                    continue;
                }
                for id13 in 0..8192u32 {
                    items.push(V { df, id13, base, update, pre });
                }
            }
        }
    }
    // diagonal: identity field == altitude code of the row; and an MB field shaped like a TC28 status report
    for df in [5u32, 21] {
        for id13 in 0..8192u32 {
            items.push(V { df, id13, base: 0, update: true, pre: 5 });
        }
    }
    for update in [false, true] {
        for id13 in (0..8192u32).step_by(if ctx.tier.thorough() { 1 } else { 3 }) {
            items.push(V { df: 21, id13, base: 50, update, pre: 0 });
        }
    }
    let mut idx = 0u64;
    for opts in CFG4 {
        let cfg = Cfg::new(opts);
        // partition by blocks of 4096 items
        for block in items.chunks(4096) {
            idx += 1;
            if !ctx.mine(idx) {
                continue;
            }
            let mut res: Vec<(V, u32, Obs)> = vec![];
            sweep(&cfg, block, BASE, lines, |v, a, o| res.push((*v, a, o.clone())));
            for (v, a, o) in &res {
                judge(ctx, &cfg, v, *a, o);
            }
        }
        // other formats leave the squawk alone
        idx += 1;
        if ctx.mine(idx) {
            let addr = 0x3C4DD2;
            for (name, f) in other_formats(addr) {
                // (the row also knows the aircraft's ADS-B version: an operational-status message came first)
                let l = vec![hexline(&frames::df11(5, addr, 0)), hexline(&frames::df17(5, addr, frames::me_tc31(2))), hexline(&frames::df5(addr, frames::id13_for_squawk(SENTINEL_SQ))), hexline(&f)];
                let o = single(&cfg, addr, l);
                ctx.eval();
                ctx.count("other-format-leaves-squawk");
                let got = o.row().and_then(|s| s.squawk);
                if got != Some(SENTINEL_SQ) {
                    ctx.violation(
                        "C06/other-format",
                        &format!("{name}/{}", cfg.label()),
                        || format!("{name} frame {} changed squawk {SENTINEL_SQ} to {got:?}", f.hex()),
                        || json!({"kind": "other", "name": name, "cfg": cfg.opts}),
                    );
                }
                // and on rows that never had a squawk (created by DF11, or by the frame itself): it stays blank
                for with_df11 in [true, false] {
                    let mut l = vec![];
                    if with_df11 {
                        l.push(hexline(&frames::df11(5, addr, 0)));
                    }
                    l.push(hexline(&f));
                    let o = single(&cfg, addr, l);
                    ctx.eval();
                    ctx.count("other-format-leaves-squawk");
                    let got = o.row().and_then(|s| s.squawk);
                    if got.is_some() {
                        ctx.violation(
                            "C06/other-format-blank",
                            &format!("{name}/{}/{}", cfg.label(), if with_df11 { "after DF11" } else { "first frame" }),
                            || format!("{name} frame {} gave the aircraft squawk {got:?} although no DF5/DF21 was ever received", f.hex()),
                            || json!({"kind": "other-blank", "name": name, "cfg": cfg.opts, "with_df11": with_df11}),
                        );
                    }
                }
            }
        }
    }
    ctx.sample(|| json!({"vector": "update", "lines": lines(&V{df:5,id13:0x0ABC,base:0,update:true,pre:0}, BASE).iter().map(|l| String::from_utf8_lossy(l).into_owned()).collect::<Vec<_>>(), "expected_squawk": fields::squawk(0x0ABC)}));
    ctx.bound("id13", "all 8192 values");
    ctx.out.exhaustive = true;
}

fn replay(ctx: &mut Ctx, case: &Value) {
    let opts: Vec<String> = case.get("cfg").and_then(|c| c.as_array()).map(|a| a.iter().filter_map(|x| x.as_str().map(String::from)).collect()).unwrap_or_default();
    let o: Vec<&str> = opts.iter().map(|s| s.as_str()).collect();
    let cfg = Cfg::new(&o);
    let g = |k: &str| case.get(k).and_then(|x| x.as_u64()).unwrap_or(0) as u32;
    match case.get("kind").and_then(|x| x.as_str()) {
        Some("id13") => {
            let v = V { df: g("df"), id13: g("id13"), base: g("base"), update: case.get("update").and_then(|x| x.as_bool()).unwrap_or(false), pre: g("pre") };
            let addr = case.get("addr").and_then(|x| x.as_u64()).map(|a| a as u32).unwrap_or(BASE);
            let ob = single(&cfg, addr, lines(&v, addr));
            crate::run::say(&format!("lines {:?} cfg [{}]: expected squawk {:04}, observed {:?}", lines(&v, addr).iter().map(|l| String::from_utf8_lossy(l).into_owned()).collect::<Vec<_>>(), cfg.label(), fields::squawk(v.id13), ob.row().map(|s| s.squawk)));
            judge(ctx, &cfg, &v, addr, &ob);
        }
        Some("other-blank") => {
            let addr = 0x3C4DD2;
            let name = case.get("name").and_then(|x| x.as_str()).unwrap_or("");
            let with_df11 = case.get("with_df11").and_then(|x| x.as_bool()).unwrap_or(true);
            for (n, f) in other_formats(addr) {
                if n == name {
                    let mut l = vec![];
                    if with_df11 {
                        l.push(hexline(&frames::df11(5, addr, 0)));
                    }
                    l.push(hexline(&f));
                    let got = single(&cfg, addr, l).row().and_then(|s| s.squawk);
                    crate::run::say(&format!("{name} {}: squawk afterwards {got:?} (no DF5/DF21 ever received)", f.hex()));
                    if got.is_some() {
                        ctx.violation("C06/other-format-blank", &format!("{name}/{}", cfg.label()), || format!("{name} set squawk {got:?}"), || case.clone());
                    }
                }
            }
        }
        Some("other") => {
            let addr = 0x3C4DD2;
            let name = case.get("name").and_then(|x| x.as_str()).unwrap_or("");
            for (n, f) in other_formats(addr) {
                if n == name {
                    let l = vec![hexline(&frames::df11(5, addr, 0)), hexline(&frames::df17(5, addr, frames::me_tc31(2))), hexline(&frames::df5(addr, frames::id13_for_squawk(SENTINEL_SQ))), hexline(&f)];
                    let got = single(&cfg, addr, l).row().and_then(|s| s.squawk);
                    crate::run::say(&format!("{name} {}: squawk before {SENTINEL_SQ}, after {got:?}", f.hex()));
                    if got != Some(SENTINEL_SQ) {
                        ctx.violation("C06/other-format", &format!("{name}/{}", cfg.label()), || format!("{name} changed squawk to {got:?}"), || case.clone());
                    }
                }
            }
        }
        _ => ctx.machinery("unknown replay case kind"),
    }
}
