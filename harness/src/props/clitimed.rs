//! The command-line entry under a moving clock: the real binary reads a FIFO that the harness feeds while it
//! moves the program's wall clock (shared clock file read by the LD_PRELOAD shim), and is compared
//! (a) with the in-process reader fed the same timed stream (everything `main` does to the options before
//!     they reach the reader shows up as a difference), and
//! (b) with itself under other -u values: which aircraft are listed at the end, and what is shown for them,
//!     does not depend on the refresh interval.
//! Used by C12 (rows live exactly as long as the aircraft is heard) and C19 (-u is presentation only).

use crate::engine::cli;
use crate::frames;
use crate::report::Ctx;
use crate::run::{Cfg, TimedStep, capture_stdout, join_lines, run_timed};
use serde_json::json;

const A: u32 = 0x40621D;
const B: u32 = 0x4CA86E;
const C: u32 = 0x3C6586;

/// A is heard once; B keeps talking (bursts of 12 force sweeps) while 0.6 s, 1.25 s, 7 s, 0.1 s, 4 s, 7 s pass;
/// C appears late. With -d 1 A is gone after the second burst, with -d 5 after the third.
pub fn stream() -> Vec<TimedStep> {
    let l = |f: frames::Frame| f.hex().into_bytes();
    let burst = |k: i32| -> Vec<u8> { join_lines(&(0..12).map(|i| l(frames::df4(B, frames::ac13_for_alt(10_000 + 100 * (k * 12 + i))))).collect::<Vec<_>>()) };
    vec![
        TimedStep { bytes: join_lines(&[l(frames::df17(5, A, frames::me_ident(4, 3, frames::callsign_codes("ALPHA")))), l(frames::df11(5, B, 0))]), advance_ms: 600 },
        TimedStep { bytes: burst(0), advance_ms: 1_250 },
        TimedStep { bytes: burst(1), advance_ms: 7_000 },
        TimedStep { bytes: { let mut b = burst(2); b.extend(join_lines(&[l(frames::df11(5, C, 0))])); b }, advance_ms: 100 },
        TimedStep { bytes: join_lines(&[l(frames::df4(C, frames::ac13_for_alt(5_000)))]), advance_ms: 4_000 },
        TimedStep { bytes: burst(3), advance_ms: 7_000 },
        TimedStep { bytes: join_lines(&[l(frames::df5(B, frames::id13_for_squawk(4521)))]), advance_ms: 0 },
    ]
}

pub const DS: [&str; 4] = ["1", "5", "60", "0"];
pub const US: [&str; 5] = ["--update=-1", "--update=0", "--update=1", "--update=3", "--update=6"];

pub fn option_set(d: usize, u: usize, upd: bool) -> Vec<&'static str> {
    let mut o = vec!["-i", "", "-c", "-d", DS[d % DS.len()], US[u % US.len()]];
    if upd {
        o.push("-U");
    }
    o
}

fn last_block(out: &[u8]) -> String {
    cli::blocks(out).last().cloned().unwrap_or_default()
}

/// (a) CLI == in-process under the same timed stream, for one option set
pub fn check_cli_vs_inprocess(ctx: &mut Ctx, prop: &str, d: usize, u: usize, upd: bool) {
    let opts = option_set(d, u, upd);
    let steps = stream();
    let key = opts.join(" ");
    let case = || json!({"cli_timed": {"d": d, "u": u, "upd": upd}});
    let c = match cli::run_cli_timed(true, &opts, &steps, "timed") {
        Ok(c) => c,
        Err(e) => {
            ctx.machinery(format!("{prop} timed CLI run [{key}]: {e}"));
            return;
        }
    };
    ctx.eval();
    ctx.count("cli-timed-run");
    ctx.out.traces_validated += 1;
    if c.code != Some(0) {
        ctx.violation(&format!("{prop}/cli-timed/exit"), &key, || format!("the CLI under [{key}] on the timed stream ended with exit {:?} signal {:?}: {}", c.code, c.signal, String::from_utf8_lossy(&c.stderr).lines().last().unwrap_or("")), case);
        return;
    }
    // the in-process twin: as main() does, the observer comes from the options
    let cfg = Cfg::named(&opts, "twin.fifo");
    if let Some(o) = &cfg.args.observer_coord {
        squitterator::set_observer_coords_from_str(o);
    }
    let t = crate::snap::new_table();
    let (rep, out) = capture_stdout(|| run_timed(&cfg, &steps, &t));
    if let Some(m) = rep.machinery {
        ctx.machinery(format!("{prop} timed twin [{key}]: {m}"));
        return;
    }
    ctx.outcome(&(key.as_str(), last_block(&c.stdout)));
    if !rep.outcome.is_ok() || out != c.stdout {
        let (lb_cli, lb_in) = (last_block(&c.stdout), last_block(&out));
        ctx.violation(
            &format!("{prop}/cli-timed/differs-from-reader"),
            &key,
            || format!("options [{key}], timed stream: what the real binary prints differs from what the reader prints when it is given the same options directly ({} vs {} refreshes). Last table of the binary:\n{lb_cli}\nLast table of the reader:\n{lb_in}", cli::blocks(&c.stdout).len().saturating_sub(2), cli::blocks(&out).len().saturating_sub(2)),
            case,
        );
    }
}

/// (b) the last table the CLI prints is the same under every -u (same -d, same path)
pub fn check_u_independence(ctx: &mut Ctx, prop: &str, d: usize, upd: bool) {
    let steps = stream();
    let mut lasts: Vec<(String, String)> = vec![];
    for u in 0..US.len() {
        let opts = option_set(d, u, upd);
        match cli::run_cli_timed(true, &opts, &steps, "timedu") {
            Ok(c) if c.code == Some(0) => lasts.push((opts.join(" "), last_block(&c.stdout))),
            Ok(c) => {
                let key = opts.join(" ");
                ctx.violation(&format!("{prop}/cli-timed/exit"), &key, || format!("the CLI under [{key}] ended with exit {:?}", c.code), || json!({"cli_timed_u": {"d": d, "upd": upd}}));
                return;
            }
            Err(e) => {
                ctx.machinery(format!("{prop} timed CLI run: {e}"));
                return;
            }
        }
        ctx.eval();
        ctx.count("cli-timed-run");
    }
    let key = format!("-d {}{}", DS[d % DS.len()], if upd { " -U" } else { "" });
    if let Some((o, b)) = lasts.iter().find(|(_, b)| *b != lasts[0].1) {
        let (o0, b0) = &lasts[0];
        ctx.violation(
            &format!("{prop}/cli-timed/depends-on-u"),
            &key,
            || format!("the table printed after the last frame of the timed stream depends on the refresh interval:\n[{o0}]\n{b0}\n[{o}]\n{b}"),
            || json!({"cli_timed_u": {"d": d, "upd": upd}}),
        );
    }
}

pub fn run_all(ctx: &mut Ctx, prop: &str, job0: u64) {
    if !crate::run::file_source_streams() {
        ctx.count("cli-timed:not applicable (the file source is not read incrementally)");
        return;
    }
    let mut job = job0;
    for d in 0..DS.len() {
        for upd in [false, true] {
            for u in 0..US.len() {
                job += 1;
                if ctx.mine(job) {
                    check_cli_vs_inprocess(ctx, prop, d, u, upd);
                }
            }
            job += 1;
            if ctx.mine(job) {
                check_u_independence(ctx, prop, d, upd);
            }
        }
    }
}

pub fn replay(ctx: &mut Ctx, prop: &str, case: &serde_json::Value) -> bool {
    if let Some(c) = case.get("cli_timed") {
        let g = |k: &str| c.get(k).and_then(|x| x.as_u64()).unwrap_or(0) as usize;
        let upd = c.get("upd").and_then(|x| x.as_bool()).unwrap_or(false);
        crate::run::say(&format!("timed stream through the real binary and through the reader, options {:?}", option_set(g("d"), g("u"), upd)));
        check_cli_vs_inprocess(ctx, prop, g("d"), g("u"), upd);
        return true;
    }
    if let Some(c) = case.get("cli_timed_u") {
        let d = c.get("d").and_then(|x| x.as_u64()).unwrap_or(0) as usize;
        let upd = c.get("upd").and_then(|x| x.as_bool()).unwrap_or(false);
        crate::run::say(&format!("timed stream through the real binary under every -u, -d {}{}", DS[d % DS.len()], if upd { " -U" } else { "" }));
        check_u_independence(ctx, prop, d, upd);
        return true;
    }
    false
}
