//! Model ROW: the shared alphabet of well-formed frames of every supported format for a
//! few aircraft whose addresses are forced to collide, and the per-step oracle of C11
//! (also used by C03 isolation, C04 at-any-state, C19).

use crate::engine::explore::{Act, Action, Step, apply};
use crate::frames::{self, B50, B60, Frame, Vel};
use crate::refmodel::accept::{Verdict, classify_line};
use crate::refmodel::country::Lookup;
use crate::refmodel::cpr;
use crate::refmodel::sem::{self, Slot, Slots};
use crate::report::Ctx;
use crate::run::Cfg;
use crate::snap::Snap;
use serde_json::json;

pub const ADDR: [u32; 3] = [0x4CA2D6, 0x4CA2D7, 0x3C6586];
pub const OBSERVER: (f64, f64) = (52.66, -8.62);
pub const OBSERVER_STR: &str = "52.66, -8.62";

pub const P1: (f64, f64) = (52.2572, 3.91937);
pub const P2: (f64, f64) = (52.30, 4.05);

pub fn pos_frame(df: u32, addr: u32, tc: u32, alt: i32, p: (f64, f64), odd: bool) -> Frame {
    let (la, lo) = cpr::encode(p.0, p.1, odd);
    let me = frames::me_airpos(tc, 0, 0, frames::ac12_for_alt(alt), 0, odd as u32, la, lo);
    frames::es(df, 5, addr, me)
}

pub fn valid_bds50(left_turn: bool) -> u64 {
    // roll +-10 deg, track 120 deg, GS 440 kt, TAR +-1 deg/s, TAS 430 kt
    let (roll_sign, roll) = if left_turn { (1, 512 - 57) } else { (0, 57) };
    let (tar_sign, tar) = if left_turn { (1, 512 - 32) } else { (0, 32) };
    frames::mb_bds50(&B50 { s_roll: 1, roll_sign, roll, s_trk: 1, trk_sign: 0, trk: 683, s_gs: 1, gs: 220, s_tar: 1, tar_sign, tar, s_tas: 1, tas: 215 })
}

pub fn valid_bds60(descent: bool) -> u64 {
    // heading 250 deg, IAS 280 kt, Mach 0.78, baro rate +-1920 ft/min, inertial +-1856
    let (bs, b) = if descent { (1, 512 - 60) } else { (0, 60) };
    let (is, i) = if descent { (1, 512 - 58) } else { (0, 58) };
    frames::mb_bds60(&B60 { s_hdg: 1, hdg_sign: 1, hdg: 398, s_ias: 1, ias: 280, s_mach: 1, mach: 195, s_baro: 1, baro_sign: bs, baro: b, s_ivv: 1, ivv_sign: is, ivv: i })
}

/// the per-aircraft alphabet (27 frames)
pub fn aircraft_actions(tag: &str, a: u32) -> Vec<Action> {
    let l = |n: &str, f: Frame| Action::line(&format!("{tag}:{n}"), &f);
    vec![
        l("DF11 CA5", frames::df11(5, a, 0)),
        l("DF4 31000ft", frames::df4(a, frames::ac13_for_alt(31000))),
        l("DF4 9000ft", frames::df4(a, frames::ac13_for_alt(9000))),
        l("DF4 no-altitude", frames::df4(a, 0)),
        l("DF5 4521", frames::df5(a, frames::id13_for_squawk(4521))),
        l("DF5 1000", frames::df5(a, frames::id13_for_squawk(1000))),
        l("DF0", frames::df0(a, frames::ac13_for_alt(18000))),
        l("DF16", frames::df16(a, frames::ac13_for_alt(18000), 0x30_0000_0000_0000)),
        l("TC4 EIN45F cat3", frames::df17(5, a, frames::me_ident(4, 3, frames::callsign_codes("EIN45F")))),
        l("TC4 RYR9AB cat5", frames::df17(5, a, frames::me_ident(4, 5, frames::callsign_codes("RYR9AB")))),
        l("TC4 EIN45F cat5", frames::df17(5, a, frames::me_ident(4, 5, frames::callsign_codes("EIN45F")))),
        l("TC11 even p1", pos_frame(17, a, 11, 36000, P1, false)),
        l("TC11 odd p1", pos_frame(17, a, 11, 36000, P1, true)),
        l("TC11 even p2", pos_frame(17, a, 11, 36025, P2, false)),
        l("TC11 odd p2", pos_frame(17, a, 11, 36025, P2, true)),
        l("TC6 surface", frames::df17(5, a, frames::me_surfpos(6, 20, 1, 60, 0, 0, 93006, 51380))),
        l("TC19 v1", frames::df17(5, a, frames::me_velocity(&Vel { st: 1, dew: 1, vew: 9, dns: 1, vns: 160, vrsign: 1, vr: 14, ..Default::default() }))),
        l("TC19 v2", frames::df17(5, a, frames::me_velocity(&Vel { st: 1, dew: 0, vew: 301, dns: 0, vns: 77, vrsign: 0, vr: 31, ..Default::default() }))),
        l("TC19 st2 supersonic", frames::df17(5, a, frames::me_velocity(&Vel { st: 2, dew: 0, vew: 251, dns: 1, vns: 101, vrsign: 0, vr: 9, ..Default::default() }))),
        l("TC19 no-info", frames::df17(5, a, frames::me_velocity(&Vel { st: 1, dew: 0, vew: 0, dns: 0, vns: 0, vrsign: 0, vr: 0, ..Default::default() }))),
        l("TC19 st3", frames::df17(5, a, frames::me_velocity(&Vel { st: 3, dew: 1, vew: 512, dns: 0, vns: 300, vrsign: 0, vr: 5, ..Default::default() }))),
        l("TC29", frames::df17(5, a, frames::me_tc29())),
        l("TC31 v2", frames::df17(5, a, frames::me_tc31(2))),
        l("DF18 TC11 even p2", pos_frame(18, a, 11, 2000, P2, false)),
        l("DF20 7000ft BDS2,0 DLH4XY", frames::df20(a, frames::ac13_for_alt(7000), frames::mb_bds20(frames::callsign_codes("DLH4XY")))),
        l("DF20 BDS5,0", frames::df20(a, frames::ac13_for_alt(7000), valid_bds50(false))),
        l("DF21 2101 BDS6,0", frames::df21(a, frames::id13_for_squawk(2101), valid_bds60(false))),
        l("DF20 BDS1,7 all", frames::df20(a, frames::ac13_for_alt(7000), frames::mb_bds17(frames::CAP_20 | frames::CAP_40 | frames::CAP_50 | frames::CAP_60))),
    ]
}

pub fn row_alphabet(naircraft: usize) -> Vec<Action> {
    let mut v = vec![];
    for (i, a) in ADDR.iter().enumerate().take(naircraft) {
        v.extend(aircraft_actions(&["A", "B", "C"][i].to_string(), *a));
    }
    v.push(Action::tick(4_000));
    v.push(Action::tick(11_000));
    v
}

/// history variable of model ROW: the reference CPR slots
pub fn aux_step(aux: &Slots, _pre: &[Snap], a: &Action, _post: &[Snap]) -> Slots {
    let mut s = aux.clone();
    match &a.act {
        Act::Tick(ms) => s.tick(*ms),
        Act::Line(l) => {
            if let Verdict::Frame { df, addr } = classify_line(l) {
                if addr != 0 {
                    if let Some(f) = a.frame() {
                        let sm = sem::sem(&f);
                        if df == 17 {
                            if let Some((parity, la, lo, airborne)) = sm.pos {
                                if airborne {
                                    s.set(addr, parity, Slot::Known { lat: la, lon: lo, age: 0 });
                                } else {
                                    // a surface squitter: whether it shares the airborne slots is an implementation
                                    // choice the statements leave open - pairs involving this slot are not judged
                                    s.set(addr, parity, Slot::Unknown);
                                }
                            }
                        } else if df == 18 {
                            let tc = frames::me_get(f.get(33, 56), 1, 5);
                            if (5..=18).contains(&tc) {
                                let parity = frames::me_get(f.get(33, 56), 22, 1) as usize;
                                s.set(addr, parity, Slot::Unknown);
                            }
                        }
                    }
                }
            }
        }
        Act::Burst(_) => {}
    }
    s
}

pub struct RowOracle {
    pub lookup: Lookup,
    pub relaxed: bool,
    pub probe_idempotence: bool,
    pub prop: &'static str,
}

impl RowOracle {
    /// The per-step oracle of C11/C03: returns the (site-suffix, message) complaints.
    pub fn judge(&self, ctx: &mut Ctx, cfg: &Cfg, st: &Step<Slots>) -> Vec<(String, String)> {
        let mut out = vec![];
        let d_ms = cfg.args.delete_after.saturating_mul(1000);
        if let Act::Burst(lines) = &st.action.act {
            // a burst of frames of bystanders (it forces the sweep): every row of another aircraft that was
            // heard fewer than delete_after seconds ago must come out bit-identical; older rows may be swept
            if !st.outcome.is_ok() {
                out.push(("crash".into(), format!("reader ended with {}", st.outcome.label())));
                return out;
            }
            let senders: Vec<u32> = lines.iter().filter_map(|l| match classify_line(l) { Verdict::Frame { addr, .. } if addr != 0 => Some(addr), _ => None }).collect();
            ctx.count("step:burst");
            for r in st.pre.iter().filter(|r| !senders.contains(&r.key)) {
                match st.post.iter().find(|x| x.key == r.key) {
                    Some(a) if a == r => {}
                    Some(a) => out.push(("cross-talk".into(), format!("a burst of frames of {:06X?} changed the row of {:06X}: {}", senders.first(), r.key, crate::snap::diff_fields(r, a).join("; ")))),
                    None if r.age >= d_ms => ctx.count("step:burst:swept-old-row"),
                    None => out.push(("key-set".into(), format!("a burst of frames of other aircraft removed {:06X}, heard {} ms ago (delete_after {} s)", r.key, r.age, cfg.args.delete_after))),
                }
            }
            return out;
        }
        let Act::Line(line) = &st.action.act else {
            return out;
        };
        if !st.outcome.is_ok() {
            out.push(("crash".into(), format!("reader ended with {}", st.outcome.label())));
            return out;
        }
        let verdict = classify_line(line);
        let (df, addr) = match verdict {
            Verdict::Frame { df, addr } if addr != 0 => (df, addr),
            _ => {
                ctx.count("step:not-an-accepted-frame");
                if st.pre != st.post {
                    out.push(("rejected-changes-table".into(), "a line that is not an accepted frame changed the table".into()));
                }
                return out;
            }
        };
        let _ = df;
        let f = st.action.frame().expect("accepted frame parses");
        let sm = sem::sem(&f);
        // key set and isolation
        // rows heard delete_after or more seconds ago may be swept by any frame; nothing else may vanish or appear
        let got_keys: Vec<u32> = st.post.iter().map(|r| r.key).collect();
        let required = st.pre.iter().filter(|r| r.age < d_ms).map(|r| r.key).chain([addr]);
        let allowed = |k: u32| k == addr || st.pre.iter().any(|r| r.key == k);
        if !required.clone().all(|k| got_keys.contains(&k)) || !got_keys.iter().all(|k| allowed(*k)) {
            out.push(("key-set".into(), format!("rows before {:X?}, after {got_keys:X?}, frame is for {addr:06X}", st.pre.iter().map(|r| r.key).collect::<Vec<_>>())));
            return out;
        }
        for r in st.pre {
            if r.key != addr {
                let after = st.post.iter().find(|x| x.key == r.key);
                if after.is_none() && r.age >= d_ms {
                    continue;
                }
                if after != Some(r) {
                    let d = after.map(|a| crate::snap::diff_fields(r, a).join("; ")).unwrap_or_default();
                    out.push(("cross-talk".into(), format!("a frame for {addr:06X} changed the row of {:06X}: {d}", r.key)));
                }
            }
        }
        let pre_row = st.pre.iter().find(|r| r.key == addr);
        if pre_row.is_some_and(|r| r.age >= d_ms) {
            // the aircraft was silent for delete_after or more: its row may have been swept and started afresh
            ctx.count("step:own-row-expirable (not judged)");
            return out;
        }
        let post_row = st.post.iter().find(|r| r.key == addr).expect("key set checked");
        let blank = sem::blank_row(addr, self.lookup.code(addr));
        let chk = sem::check_row(&sm, self.relaxed, Some(OBSERVER), pre_row, &blank, post_row, st.post_aux.get(addr));
        for b in &chk.branches {
            ctx.count(&format!("oracle:{b}"));
        }
        // a distinct non-trivial outcome = (frame, row existed, oracle branches taken)
        ctx.outcome(&(st.action.name.as_str(), pre_row.is_some(), &chk.branches));
        if pre_row.is_some() {
            ctx.count("step:update-existing-row");
        } else {
            ctx.count("step:creates-row");
        }
        if st.pre.len() > 1 || (st.pre.len() == 1 && pre_row.is_none()) {
            ctx.count("step:other-rows-present");
        }
        out.extend(chk.complaints);
        // idempotence probe (not an action: costs time but no states)
        if self.probe_idempotence && pre_row.is_some() && out.is_empty() {
            let (o2, again) = apply(cfg, st.post, st.action);
            ctx.count("probe:idempotence");
            if !o2.is_ok() || again != st.post {
                let d = again
                    .iter()
                    .zip(st.post.iter())
                    .filter(|(a, b)| a != b)
                    .map(|(a, b)| crate::snap::diff_fields(b, a).join("; "))
                    .collect::<Vec<_>>()
                    .join(" | ");
                out.push(("idempotence".into(), format!("re-feeding the frame just applied changed the table: {d}")));
            }
        }
        out
    }
}

pub fn report(ctx: &mut Ctx, prop: &str, model: &str, cfg: &Cfg, actions: &[Action], st: &Step<Slots>, complaints: Vec<(String, String)>, extra: serde_json::Value) {
    for (suffix, msg) in complaints {
        let names = crate::engine::explore::path_names(actions, st.path);
        let path: Vec<usize> = st.path.to_vec();
        let line = st.action.frame().map(|f| f.hex()).unwrap_or_default();
        ctx.violation(
            &format!("{prop}/{model}/{suffix}/{}", cfg.label()),
            &names.join(" > "),
            || format!("after [{}] (line {line}): {msg}", names.join(" > ")),
            || json!({"model": model, "cfg": cfg.opts, "path": path, "extra": extra}),
        );
    }
}
