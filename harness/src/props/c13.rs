//! C13 - unusable lines affect nothing but themselves (E3: junk-line insertion).

use super::Prop;
use crate::engine::faults::{Step, run_script};
use crate::frames::{self, Frame};
use crate::report::{Ctx, Level, Partial, Tier};
use crate::run::{Cfg, Outcome, run_file};
use crate::snap::{Snap, new_table, snapshot};
use serde_json::{Value, json};

pub static PROP: Prop = Prop { id: "C13", level, run, replay, gate, both_profiles: false, serial: false };

const A: u32 = 0x4CA2D6;
const B: u32 = 0x3C6586;
const Z: u32 = 0xA1B2C3;

fn level(t: Tier) -> Level {
    Level {
        category: "fault_enumeration",
        rule: if t.thorough() { "valid streams = all sequences of length <= 4 over 8 frames (2 aircraft x {DF11, DF4, TC11 even, TC11 odd}) + 3 recorded excerpts; deviations = inserted junk lines from a 16-symbol alphabet (empty, CR, 13/15/27 digits, truncated frame, text, NUL, 0x80, 0xFF 0xFE, valid 2-byte UTF-8, overlong form, lone 0xC3, 70 KiB of 'A', 70 KiB of 0xFF, bad-parity frame) at every combination of positions: d = 0, 1 (all), 2 (all 256 pairs), 3 (6-symbol sub-alphabet); file source for all, TCP source for streams <= 2 with d <= 1; distinct_nontrivial = distinct (stream, junk placement class) outcomes" } else { "valid streams = all sequences of length <= 3 over 8 frames (2 aircraft x {DF11, DF4, TC11 even, TC11 odd}) + 3 recorded excerpts; deviations = inserted junk lines from a 16-symbol alphabet (empty, CR, 13/15/27 digits, truncated frame, text, NUL, 0x80, 0xFF 0xFE, valid 2-byte UTF-8, overlong form, lone 0xC3, 70 KiB of 'A', 70 KiB of 0xFF, bad-parity frame) at every combination of positions: d = 0, 1 (all), 2 (6-symbol sub-alphabet); file source for all, TCP source for streams <= 2 with d <= 1; distinct_nontrivial = distinct (stream, junk placement class) outcomes" },
        assumptions: vec!["oracle: table after the junk-laden stream == table after the clean stream, bit-identically (frozen clock), and the reader ends Ok".into(), "TCP source: a scripted loopback peer delivers the stream on one connection; the table is read when the reader is parked in its (gated) reconnect pause".into()],
    }
}

fn gate(p: &Partial, t: Tier) -> Result<(), String> {
    super::default_gate(p, t)?;
    super::need(p, "file:d=1", 10_000)?;
    super::need(p, "file:d=2", 10_000)?;
    super::need(p, "tcp:d<=1", 500)?;
    super::need(p, "junk:non-utf8", 1000)?;
    super::need(p, "recording-excerpt", 100)?;
    super::need(p, "sweep-cadence", 100)?;
    super::need(p, "buffer-boundary-junk", 500)?;
    super::need(p, "overlong-line-with-embedded-frame", 100)?;
    Ok(())
}

fn valid_frames() -> Vec<Frame> {
    let mut v = vec![];
    for (a, p) in [(A, super::rowmodel::P1), (B, super::rowmodel::P2)] {
        v.push(frames::df11(5, a, 0));
        v.push(frames::df4(a, frames::ac13_for_alt(31000)));
        v.push(super::rowmodel::pos_frame(17, a, 11, 36000, p, false));
        v.push(super::rowmodel::pos_frame(17, a, 11, 36000, p, true));
    }
    v
}

pub fn junk_alphabet() -> Vec<(&'static str, Vec<u8>)> {
    let good = frames::df17(5, A, frames::me_ident(4, 3, frames::callsign_codes("JUNK"))).hex();
    let mut bad = frames::df17(5, A, frames::me_ident(4, 3, frames::callsign_codes("JUNK")));
    bad.flip(60);
    let mut trailing = b"abc".to_vec();
    trailing.push(0xC3);
    vec![
        ("empty", vec![]),
        ("CR", b"\r".to_vec()),
        ("13 digits", good[..13].as_bytes().to_vec()),
        ("15 digits", good[..15].as_bytes().to_vec()),
        ("27 digits", b"123456789012345678901234567".to_vec()),
        ("truncated frame", good[..27].as_bytes().to_vec()),
        ("text", b"hello".to_vec()),
        ("NUL bytes", vec![0, 0, 0]),
        ("0x80", vec![0x80]),
        ("0xFF 0xFE", vec![0xFF, 0xFE]),
        ("valid 2-byte UTF-8", "\u{e9}".as_bytes().to_vec()),
        ("overlong UTF-8", vec![0xC0, 0xAF]),
        ("lone 0xC3 at end", trailing),
        ("70 KiB of A", vec![b'A'; 70 * 1024]),
        ("70 KiB of 0xFF", vec![0xFF; 70 * 1024]),
        ("bad-parity frame", bad.hex().into_bytes()),
        // pieces of wrapped records ('*hex;' / '@timestamp hex;'): a head without its ';', a tail, lone markers
        ("*head of a frame", format!("*{}", &good[..14]).into_bytes()),
        ("tail of a frame;", format!("{};", &good[14..]).into_bytes()),
        ("@13 digits", b"@05DCF1CC15C35".to_vec()),
        ("lone *", b"*".to_vec()),
        ("lone @", b"@".to_vec()),
        ("*6 digits", b"*8D4062".to_vec()),
        // a marker, a ';' and a multi-byte character right before it
        ("*digits 0xFF 0xFE;", { let mut v = format!("*{}", &good[..24]).into_bytes(); v.extend_from_slice(&[0xFF, 0xFE, b';']); v }),
        ("@0x80;", vec![b'@', 0x80, b';']),
        ("*cafe-acute;", "*caf\u{e9};".as_bytes().to_vec()),
        ("keep-alive *0000;", b"*0000;".to_vec()),
        ("keep-alive *;", b"*;".to_vec()),
        ("*27 digits e-acute ;", format!("*{}\u{e9}x;", &good[..27]).into_bytes()),
        // lines of a plausible length whose pieces are each consistent (a short reply written twice; a short
        // reply's head and parity around filler; the first half of a long frame)
        ("DF11 reply twice", { let f = frames::df11(5, A, 0).hex(); format!("{f}{f}").into_bytes() }),
        ("DF11 head, filler, parity", { let f = frames::df11(7, A, 0).hex(); format!("{}AAAAAAAAAAAAAA{}", &f[..8], &f[8..]).into_bytes() }),
        ("DF4 reply twice", { let f = frames::df4(A, frames::ac13_for_alt(9000)).hex(); format!("{f}{f}").into_bytes() }),
        ("first half of a long frame", good[..14].as_bytes().to_vec()),
    ]
}
const NON_UTF8: [usize; 7] = [8, 9, 11, 12, 14, 22, 23];
const SUB: [usize; 8] = [0, 3, 6, 8, 12, 15, 16, 17];

fn build(stream: &[Vec<u8>], ins: &[(usize, usize)], junk: &[(&'static str, Vec<u8>)]) -> Vec<u8> {
    // ins: (position 0..=len, junk index), sorted by position
    let mut out = vec![];
    for pos in 0..=stream.len() {
        for (p, j) in ins {
            if *p == pos {
                out.extend_from_slice(&junk[*j].1);
                out.push(b'\n');
            }
        }
        if pos < stream.len() {
            out.extend_from_slice(&stream[pos]);
            out.push(b'\n');
        }
    }
    out
}

fn run_clean(cfg: &Cfg, stream: &[Vec<u8>]) -> (Outcome, Vec<Snap>) {
    let t = new_table();
    let o = run_file(cfg, &build(stream, &[], &[]), &t);
    (o, snapshot(&t))
}

fn check_file(ctx: &mut Ctx, cfg: &Cfg, sname: &str, stream: &[Vec<u8>], clean: &[Snap], ins: &[(usize, usize)], junk: &[(&'static str, Vec<u8>)]) {
    let t = new_table();
    let content = build(stream, ins, junk);
    crate::run::describe_current(&format!("C13 stream {sname} with junk {ins:?}"));
    let o = run_file(cfg, &content, &t);
    let got = snapshot(&t);
    ctx.eval();
    ctx.count(&format!("file:d={}", ins.len()));
    if ins.iter().any(|(_, j)| NON_UTF8.contains(j)) {
        ctx.count("junk:non-utf8");
    }
    ctx.outcome(&(sname.len(), clean.len(), ins.iter().map(|(p, j)| (*p == 0, *p == stream.len(), *j)).collect::<Vec<_>>()));
    if !o.is_ok() || got != clean {
        let desc: Vec<String> = ins.iter().map(|(p, j)| format!("'{}' before line {}", junk[*j].0, p + 1)).collect();
        ctx.violation(
            &format!("C13/file/{}", cfg.label()),
            &format!("{sname} + {}", desc.join(", ")),
            || format!("stream {sname} with junk line(s) {}: reader {}, table has {} row(s) {:X?}, clean stream gives {} row(s) {:X?}", desc.join(", "), o.label(), got.len(), got.iter().map(|r| r.key).collect::<Vec<_>>(), clean.len(), clean.iter().map(|r| r.key).collect::<Vec<_>>()),
            || json!({"kind": "file", "stream": stream.iter().map(|l| String::from_utf8_lossy(l).into_owned()).collect::<Vec<_>>(), "ins": ins, "cfg": cfg.opts,
                "custom_junk": if junk.len() == 1 { Some(json!({"fill": junk[0].1.first(), "len": junk[0].1.len(), "crlf": junk[0].1.last() == Some(&b'\r'),
                    "tail": if junk[0].0.starts_with("digits") { Some(String::from_utf8_lossy(&junk[0].1[junk[0].1.len() - 28..]).into_owned()) } else { None }})) } else { None }}),
        );
    }
}

fn positions(len: usize, d: usize, alphabet: &[usize]) -> Vec<Vec<(usize, usize)>> {
    // all multisets of d insertions (position non-decreasing) x junk symbols
    let mut out: Vec<Vec<(usize, usize)>> = vec![vec![]];
    for _ in 0..d {
        let mut next = vec![];
        for partial in &out {
            let minp = partial.last().map(|x: &(usize, usize)| x.0).unwrap_or(0);
            for p in minp..=len {
                for &j in alphabet {
                    let mut n = partial.clone();
                    n.push((p, j));
                    next.push(n);
                }
            }
        }
        out = next;
    }
    out
}

fn check_tcp(ctx: &mut Ctx, sname: &str, stream: &[Vec<u8>], clean: &[Snap], ins: &[(usize, usize)], junk: &[(&'static str, Vec<u8>)]) {
    let content = build(stream, ins, junk);
    let sentinel = frames::df11(5, Z, 0).hex() + "\n";
    let rep = run_script(&[], &[Step::AcceptSend(content)], sentinel.as_bytes(), |rows| rows.iter().any(|r| r.key == Z));
    ctx.eval();
    ctx.count("tcp:d<=1");
    if let Some(m) = rep.machinery {
        ctx.machinery(format!("C13 tcp: {m}"));
        return;
    }
    let got = rep.tables.first().cloned().unwrap_or_default();
    if got != clean || !rep.alive {
        let desc: Vec<String> = ins.iter().map(|(p, j)| format!("'{}' before line {}", junk[*j].0, p + 1)).collect();
        ctx.violation(
            "C13/tcp",
            &format!("{sname} + {}", desc.join(", ")),
            || format!("TCP stream {sname} with junk {}: reader alive {}, result {:?}, table {} row(s) vs clean {} row(s)", desc.join(", "), rep.alive, rep.reader_result, got.len(), clean.len()),
            || json!({"kind": "tcp", "stream": stream.iter().map(|l| String::from_utf8_lossy(l).into_owned()).collect::<Vec<_>>(), "ins": ins}),
        );
    }
}

fn excerpts() -> Vec<(String, Vec<Vec<u8>>)> {
    let mut v = vec![];
    for rec in ["raw2.txt", "sbs1.txt", "df0-df16.txt"] {
        if let Ok(b) = std::fs::read(format!("/repo/rec/{rec}")) {
            let lines: Vec<Vec<u8>> = b.split(|c| *c == b'\n').take(20).map(|l| l.to_vec()).collect();
            v.push((rec.to_string(), lines));
        }
    }
    v
}

fn run(ctx: &mut Ctx) {
    let thorough = ctx.tier.thorough();
    let vf: Vec<Vec<u8>> = valid_frames().iter().map(|f| f.hex().into_bytes()).collect();
    let junk = junk_alphabet();
    let all: Vec<usize> = (0..junk.len()).collect();
    let maxlen = if thorough { 4 } else { 3 };
    let cfg = Cfg::new(&[]);
    let cfgu = Cfg::new(&["-U"]);
    let mut job = 0u64;
    for len in 0..=maxlen {
        for idx in 0..8usize.pow(len as u32) {
            job += 1;
            if !ctx.mine(job) {
                continue;
            }
            let mut seq = vec![];
            let mut x = idx;
            for _ in 0..len {
                seq.push(x % 8);
                x /= 8;
            }
            let sname = format!("{seq:?}");
            let stream: Vec<Vec<u8>> = seq.iter().map(|&i| vf[i].clone()).collect();
            for c in [&cfg, &cfgu] {
                if len == maxlen && std::ptr::eq(c, &cfgu) {
                    continue;
                }
                let (o, clean) = run_clean(c, &stream);
                if !o.is_ok() {
                    ctx.machinery(format!("clean stream {sname} failed: {}", o.label()));
                    continue;
                }
                ctx.count("file:d=0");
                for ins in positions(len, 1, &all) {
                    check_file(ctx, c, &sname, &stream, &clean, &ins, &junk);
                }
                let d2: &[usize] = if thorough && len <= 3 { &all } else { &SUB };
                for ins in positions(len, 2, d2) {
                    check_file(ctx, c, &sname, &stream, &clean, &ins, &junk);
                }
                if thorough && len <= 3 {
                    for ins in positions(len, 3, &SUB) {
                        check_file(ctx, c, &sname, &stream, &clean, &ins, &junk);
                    }
                }
            }
            if len <= 2 {
                let (_, clean) = run_clean(&cfg, &stream);
                check_tcp(ctx, &sname, &stream, &clean, &[], &junk);
                for ins in positions(len, 1, &all) {
                    check_tcp(ctx, &sname, &stream, &clean, &ins, &junk);
                }
            }
        }
    }
    // sweep cadence: with -d 0 every sweep empties the table, so the final table shows exactly when the
    // sweeps happened; junk lines must not shift them (streams of 26 frames of 6 aircraft, 1..3 junk
    // lines at every position)
    {
        let cfg0 = Cfg::new(&["-d", "0"]);
        let mut long: Vec<Vec<u8>> = vec![];
        for k in 0..26u32 {
            let a = 0x400100 + (k % 6);
            long.push(if k % 2 == 0 { frames::df11(5, a, 0) } else { frames::df4(a, frames::ac13_for_alt(1000 * (1 + k as i32))) }.hex().into_bytes());
        }
        let (o, clean) = run_clean(&cfg0, &long);
        if !o.is_ok() {
            ctx.machinery(format!("cadence stream failed: {}", o.label()));
        }
        for pos in 0..=long.len() {
            job += 1;
            if !ctx.mine(job) {
                continue;
            }
            let mut plan: Vec<(usize, usize)> = vec![(6usize, 1usize), (6, 2), (6, 3), (0, 1), (8, 2), (15, 1)];
            for j in 0..junk.len() {
                if junk[j].1.len() < 1000 && ![6usize, 0, 15].contains(&j) {
                    plan.push((j, 1));
                }
            }
            for (j, reps) in plan {
                let ins: Vec<(usize, usize)> = (0..reps).map(|_| (pos, j)).collect();
                ctx.count("sweep-cadence");
                check_file(ctx, &cfg0, "cadence26", &long, &clean, &ins, &junk);
            }
        }
    }
    // junk lines whose length sits exactly on, just below and just above typical buffer sizes
    // (with LF and with CR LF), followed by accepted lines
    {
        let stream: Vec<Vec<u8>> = vec![vf[0].clone(), vf[5].clone(), vf[2].clone()];
        let (_, clean) = run_clean(&cfg, &stream);
        let mut sizes: Vec<usize> = vec![];
        for p in [4096usize, 8192, 16384, 32768, 65536, 131072, 262144, 524288, 1048576, 2097152] {
            for d in [-3i64, -2, -1, 0, 1, 2] {
                sizes.push((p as i64 + d) as usize);
            }
        }
        for (k, n) in sizes.iter().enumerate() {
            job += 1;
            if !ctx.mine(job) {
                continue;
            }
            for fill in [b'A', b'z', 0xFFu8] {
                if *n > 200_000 && fill != b'z' {
                    continue;
                }
                for crlf in [false, true] {
                    let mut j = vec![fill; *n];
                    if crlf {
                        j.push(b'\r');
                    }
                    let custom = vec![("buffer-size junk", j)];
                    for pos in 0..=stream.len() {
                        ctx.count("buffer-boundary-junk");
                        check_file(ctx, &cfg, &format!("len{n}#{k}"), &stream, &clean, &[(pos, 0)], &custom);
                    }
                }
            }
        }
    }
    // a run of hex digits as long as a buffer (so the line as a whole is no frame) immediately followed by a
    // complete valid frame on the same line: no piece of an over-long line may be taken as a frame
    {
        let stream: Vec<Vec<u8>> = vec![vf[0].clone(), vf[5].clone()];
        let (_, clean) = run_clean(&cfg, &stream);
        let phantom = frames::df17(5, 0x3C6DD1, frames::me_ident(4, 3, frames::callsign_codes("PHANTOM"))).hex().into_bytes();
        let mut k = 0usize;
        for p in [1024usize, 4096, 8192, 16384, 32768, 65536, 131072, 262144, 1048576] {
            for d in [-29i64, -28, -14, -1, 0, 1, 12] {
                for mult in [1usize, 2] {
                    k += 1;
                    job += 1;
                    if !ctx.mine(job) {
                        continue;
                    }
                    if p * mult > 1_100_000 && mult == 2 {
                        continue;
                    }
                    let n = (p as i64 * mult as i64 + d) as usize;
                    for fill in [b'0', b'F'] {
                        let mut j = vec![fill; n];
                        j.extend_from_slice(&phantom);
                        let custom = vec![("digits + frame on one line", j)];
                        ctx.count("overlong-line-with-embedded-frame");
                        check_file(ctx, &cfg, &format!("embed{n}#{k}"), &stream, &clean, &[(1, 0)], &custom);
                    }
                }
            }
        }
    }
    // the same frames in the wrapped / decorated line forms a feed may use (trailing blank, tab, CR, markers):
    // same table, alone and with every junk symbol after every line
    {
        let plain: Vec<Vec<u8>> = vec![vf[0].clone(), vf[5].clone(), vf[2].clone(), vf[3].clone()];
        let (_, clean) = run_clean(&cfg, &plain);
        let forms: Vec<(&str, Box<dyn Fn(&[u8]) -> Vec<u8>>)> = vec![
            ("*hex;", Box::new(|h: &[u8]| [b"*", h, b";"].concat())),
            ("@ts hex;", Box::new(|h: &[u8]| [b"@0123456789AB", h, b";"].concat())),
            ("*hex; + blank", Box::new(|h: &[u8]| [b"*", h, b"; "].concat())),
            ("*hex; + tab", Box::new(|h: &[u8]| [b"*", h, b";\t"].concat())),
            ("*hex (no ;)", Box::new(|h: &[u8]| [b"*", h].concat())),
            ("@ts hex (no ;)", Box::new(|h: &[u8]| [b"@0123456789AB", h].concat())),
            ("hex CR", Box::new(|h: &[u8]| [h, b"\r"].concat())),
            ("blank hex blank", Box::new(|h: &[u8]| [b" ", h, b" "].concat())),
        ];
        for (fi, (fname, form)) in forms.iter().enumerate() {
            job += 1;
            if !ctx.mine(job) {
                continue;
            }
            let dec: Vec<Vec<u8>> = plain.iter().map(|l| form(l)).collect();
            ctx.count("decorated-stream");
            check_file(ctx, &cfg, &format!("decorated#{fi} {fname}"), &dec, &clean, &[], &junk);
            for ins in positions(dec.len(), 1, &all) {
                check_file(ctx, &cfg, &format!("decorated#{fi} {fname}"), &dec, &clean, &ins, &junk);
            }
        }
    }
    // the input ends without a final line feed: the last line - a frame or junk - is a line like any other
    {
        job += 1;
        if ctx.mine(job) {
            let stream: Vec<Vec<u8>> = vec![vf[0].clone(), vf[5].clone(), vf[2].clone()];
            let (_, clean) = run_clean(&cfg, &stream);
            let mut cases: Vec<Vec<(usize, usize)>> = vec![vec![]];
            cases.extend(positions(stream.len(), 1, &all));
            for ins in cases {
                let mut content = build(&stream, &ins, &junk);
                content.pop();
                let t = new_table();
                let o = run_file(&cfg, &content, &t);
                ctx.eval();
                ctx.count("no-final-line-feed");
                if !o.is_ok() || snapshot(&t) != clean {
                    let desc: Vec<String> = ins.iter().map(|(p, j)| format!("'{}' before line {}", junk[*j].0, p + 1)).collect();
                    ctx.violation(
                        &format!("C13/no-final-line-feed/{}", cfg.label()),
                        &format!("[{}]", desc.join(", ")),
                        || format!("three frames with junk [{}], the input ending without a line feed: reader {}, {} row(s); with a final line feed {} row(s)", desc.join(", "), o.label(), snapshot(&t).len(), clean.len()),
                        || json!({"kind": "nolf", "ins": ins, "cfg": cfg.opts}),
                    );
                }
            }
        }
    }
    // long runs of one kind of unusable line between accepted frames (noise limits, streak counters)
    for (ji, (jn, jb)) in junk.iter().enumerate() {
        if jb.len() > 200 {
            continue;
        }
        for n in junk_run_lengths(thorough) {
            job += 1;
            if !ctx.mine(job) {
                continue;
            }
            ctx.count("junk-run");
            junk_run(ctx, &cfg, ji, jn, jb, n);
        }
    }
    for (name, stream) in excerpts() {
        job += 1;
        if !ctx.mine(job) {
            continue;
        }
        let (o, clean) = run_clean(&cfg, &stream);
        if !o.is_ok() {
            ctx.machinery(format!("excerpt {name}: {}", o.label()));
            continue;
        }
        for ins in positions(stream.len(), 1, &all) {
            ctx.count("recording-excerpt");
            check_file(ctx, &cfg, &name, &stream, &clean, &ins, &junk);
        }
    }
    ctx.sample(|| json!({"stream": [String::from_utf8_lossy(&vf[0]), String::from_utf8_lossy(&vf[2])], "junk": "0x80 before line 1", "expected": "same table as without the junk line"}));
    ctx.sample(|| json!({"junk alphabet": junk.iter().map(|(n, b)| json!([n, b.len()])).collect::<Vec<_>>()}));
    ctx.bound("deviations completed", if thorough { "d = 0,1,2 (full alphabet), 3 (sub-alphabet)" } else { "d = 0,1 (full alphabet), 2 (6-symbol sub-alphabet)" });
    ctx.out.exhaustive = true;
}

fn junk_run_lengths(thorough: bool) -> Vec<usize> {
    let mut v = vec![12usize, 255, 256, 257, 1000, 10_001, 65_537];
    if thorough {
        v.push(300_000);
    }
    v
}

/// frame, n x the same unusable line, two more frames: the table must be that of the three frames
fn junk_run(ctx: &mut Ctx, cfg: &Cfg, ji: usize, jn: &str, jb: &[u8], n: usize) {
    let vf: Vec<Vec<u8>> = valid_frames().iter().map(|f| f.hex().into_bytes()).collect();
    let stream: Vec<Vec<u8>> = vec![vf[0].clone(), vf[5].clone(), vf[2].clone()];
    let (_, clean) = run_clean(cfg, &stream);
    let mut content = vec![];
    content.extend_from_slice(&stream[0]);
    content.push(b'\n');
    for _ in 0..n {
        content.extend_from_slice(jb);
        content.push(b'\n');
    }
    for l in &stream[1..] {
        content.extend_from_slice(l);
        content.push(b'\n');
    }
    let t = new_table();
    let o = run_file(cfg, &content, &t);
    let got = snapshot(&t);
    ctx.eval();
    if !o.is_ok() || got != clean {
        ctx.violation(
            &format!("C13/junk-run/{}", cfg.label()),
            &format!("{n} x '{jn}'"),
            || format!("a frame, {n} x '{jn}', two more frames: reader {}, table has {} row(s), the three frames alone give {} row(s)", o.label(), got.len(), clean.len()),
            || json!({"kind": "junk_run", "junk": ji, "n": n, "cfg": cfg.opts}),
        );
    }
}

fn replay(ctx: &mut Ctx, case: &Value) {
    if case.get("kind").and_then(|x| x.as_str()) == Some("nolf") {
        let opts: Vec<String> = case.get("cfg").and_then(|c| c.as_array()).map(|a| a.iter().filter_map(|x| x.as_str().map(String::from)).collect()).unwrap_or_default();
        let o: Vec<&str> = opts.iter().map(|s| s.as_str()).collect();
        let cfg = Cfg::new(&o);
        let junk = junk_alphabet();
        let vf: Vec<Vec<u8>> = valid_frames().iter().map(|f| f.hex().into_bytes()).collect();
        let stream: Vec<Vec<u8>> = vec![vf[0].clone(), vf[5].clone(), vf[2].clone()];
        let ins: Vec<(usize, usize)> = case.get("ins").and_then(|s| s.as_array()).map(|a| a.iter().filter_map(|x| Some((x.get(0)?.as_u64()? as usize, x.get(1)?.as_u64()? as usize))).collect()).unwrap_or_default();
        let (_, clean) = run_clean(&cfg, &stream);
        let mut content = build(&stream, &ins, &junk);
        content.pop();
        let t = new_table();
        let oc = run_file(&cfg, &content, &t);
        let same = snapshot(&t) == clean;
        crate::run::say(&format!("three frames, junk {ins:?}, no final line feed: reader {}, same table as with a final line feed: {same}", oc.label()));
        if !oc.is_ok() || !same {
            ctx.violation("C13/no-final-line-feed", "replay", || "table differs".into(), || case.clone());
        }
        return;
    }
    if case.get("kind").and_then(|x| x.as_str()) == Some("junk_run") {
        let opts: Vec<String> = case.get("cfg").and_then(|c| c.as_array()).map(|a| a.iter().filter_map(|x| x.as_str().map(String::from)).collect()).unwrap_or_default();
        let o: Vec<&str> = opts.iter().map(|s| s.as_str()).collect();
        let cfg = Cfg::new(&o);
        let junk = junk_alphabet();
        let ji = case.get("junk").and_then(|x| x.as_u64()).unwrap_or(0) as usize % junk.len();
        let n = case.get("n").and_then(|x| x.as_u64()).unwrap_or(12) as usize;
        crate::run::say(&format!("a frame, {n} x '{}', two more frames", junk[ji].0));
        junk_run(ctx, &cfg, ji, junk[ji].0, &junk[ji].1, n);
        return;
    }
    let mut junk = junk_alphabet();
    if let Some(c) = case.get("custom_junk").filter(|c| !c.is_null()) {
        let len = c.get("len").and_then(|x| x.as_u64()).unwrap_or(0) as usize;
        let fill = c.get("fill").and_then(|x| x.as_u64()).unwrap_or(65) as u8;
        let crlf = c.get("crlf").and_then(|x| x.as_bool()).unwrap_or(false);
        let tail = c.get("tail").and_then(|x| x.as_str()).map(|s| s.as_bytes().to_vec());
        let mut j = vec![fill; if crlf { len - 1 } else { len } - tail.as_ref().map(|t| t.len()).unwrap_or(0)];
        if crlf {
            j.push(b'\r');
        }
        if let Some(t) = tail {
            j.extend_from_slice(&t);
        }
        junk = vec![("buffer-size junk", j)];
    }
    let stream: Vec<Vec<u8>> = case.get("stream").and_then(|s| s.as_array()).map(|a| a.iter().filter_map(|x| x.as_str().map(|s| s.as_bytes().to_vec())).collect()).unwrap_or_default();
    let ins: Vec<(usize, usize)> = case.get("ins").and_then(|s| s.as_array()).map(|a| a.iter().filter_map(|x| Some((x.get(0)?.as_u64()? as usize, x.get(1)?.as_u64()? as usize))).collect()).unwrap_or_default();
    let opts: Vec<String> = case.get("cfg").and_then(|c| c.as_array()).map(|a| a.iter().filter_map(|x| x.as_str().map(String::from)).collect()).unwrap_or_default();
    let o: Vec<&str> = opts.iter().map(|s| s.as_str()).collect();
    let cfg = Cfg::new(&o);
    let (_, clean) = run_clean(&cfg, &stream);
    crate::run::say(&format!("clean stream of {} line(s) gives {} row(s); junk insertions {:?}", stream.len(), clean.len(), ins.iter().map(|(p, j)| (p, junk[*j].0)).collect::<Vec<_>>()));
    if case.get("kind").and_then(|x| x.as_str()) == Some("tcp") {
        check_tcp(ctx, "replay", &stream, &clean, &ins, &junk);
    } else {
        check_file(ctx, &cfg, "replay", &stream, &clean, &ins, &junk);
    }
}
