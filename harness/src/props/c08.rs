//! C08 - airborne position is the correct global CPR decode or is left unchanged.
//! E1 lattice (true positions hitting every NL transition, both orders, delays around 10 s)
//! + E2 pairing machine (model PAIR).

use super::Prop;
use super::rowmodel::{self, RowOracle};
use crate::engine::explore::{Action, Model, explore, replay_path};
use crate::frames::{self, Frame, Vel};
use crate::refmodel::country::Lookup;
use crate::refmodel::cpr;
use crate::refmodel::sem::{PosExpect, Slot, Slots, pos_expect};
use crate::report::{Ctx, Level, Partial, Tier};
use crate::run::{Cfg, join_lines, run_file};
use crate::snap::{Snap, new_table, restore, snapshot, tick_all};
use serde_json::{Value, json};
use std::collections::HashMap;

pub static PROP: Prop = Prop { id: "C08", level, run, replay, gate, both_profiles: false, serial: false };

const BASE: u32 = 0x600001;
const A: u32 = 0x4CA2D6;
const B: u32 = 0x3C6586;

fn level(t: Tier) -> Level {
    Level {
        category: "model_checking",
        rule: if t.thorough() { "lattice of true positions (every NL transition +-{2e-5,1e-3,3e-2} deg, zone midpoints, equator, +-86.9, x 9 longitudes incl. antimeridian) x 4 displacements x both parities first x delays {0,1,9,9.999,10,10.001,11,60} s x {default,-U}, plus a dense sweep every 0.01 deg of latitude x 16 longitudes; interleaved foreign frames and 5 observer spellings on the midpoint sub-lattice; model PAIR to depth 7" } else { "lattice of true positions (every NL transition +-{2e-5,1e-3,3e-2} deg, zone midpoints, equator, +-86.9, x 9 longitudes incl. antimeridian) x 4 displacements x both parities first x delays {0,1,9,9.999,10,10.001,11,60} s x {default,-U}; interleaved foreign frames and 5 observer spellings on the midpoint sub-lattice; model PAIR (13 actions) to depth 5" },
        assumptions: vec![
            "frames of known true position come from a DO-260B CPR encoder (NL by closed formula) validated by decode(encode(p)) round trip".into(),
            "oracle: reference pairing machine (two slots with ages; valid iff both received, no field 0, |dt| < 10 000 ms) + reference global decode anchored on the newer frame; decoded => row position equals the reference decode (1e-9 deg), lies within 20 m (haversine, R=6371 km) of the true position of the newer frame, distance = haversine to the observer (rel. 1e-9); otherwise lat/lon/distance/position stamp bit-identical to the pre-state".into(),
            "reconstructed latitudes within 1e-6 deg of an NL transition are skipped and counted (table constant vs closed formula)".into(),
            "E2 part: state = table snapshot + reference slots; every transition is a run of the real reader thread (traces_validated_against_impl)".into(),
        ],
    }
}

fn gate(p: &Partial, _t: Tier) -> Result<(), String> {
    super::need(p, "lattice:decoded", 50_000)?;
    super::need(p, "lattice:unchanged:frames 10 s or more apart", 10_000)?;
    super::need(p, "lattice:unchanged:zone-straddling pair", 10)?;
    super::need(p, "lattice:within-20m", 50_000)?;
    super::need(p, "lattice:distance-checked", 50_000)?;
    super::need(p, "lattice:altitude-code-variants", 1000)?;
    super::need(p, "oracle:position:decoded", 100)?;
    super::need(p, "oracle:position:unchanged", 100)?;
    if p.states.len() < 500 {
        return Err(format!("only {} PAIR states", p.states.len()));
    }
    Ok(())
}

fn lattice_lats() -> Vec<f64> {
    let mut v = vec![];
    let mut trans: Vec<f64> = (2..=59).map(cpr::nl_transition).collect();
    trans.push(87.0);
    trans.sort_by(|a, b| a.partial_cmp(b).unwrap());
    for &t in &trans {
        for off in [2e-5, 1e-3, 3e-2] {
            for s in [-1.0, 1.0] {
                for h in [-1.0, 1.0] {
                    v.push(h * (t + s * off));
                }
            }
        }
    }
    v.extend(midpoint_lats());
    v.extend([1e-4, -1e-4, 86.9, -86.9, 45.0, -45.0]);
    v.retain(|x| x.abs() < 86.98);
    v
}

fn midpoint_lats() -> Vec<f64> {
    let mut trans: Vec<f64> = (2..=59).map(cpr::nl_transition).collect();
    trans.push(0.0);
    trans.sort_by(|a, b| a.partial_cmp(b).unwrap());
    let mut v = vec![];
    for w in trans.windows(2) {
        let m = (w[0] + w[1]) / 2.0;
        v.push(m);
        v.push(-m);
    }
    v
}

const LONS: [f64; 9] = [-180.0, -179.9999, -120.3, -90.0, -0.0001, 0.0001, 10.5, 90.0, 179.9999];
const DELAYS_MS: [i64; 8] = [0, 1000, 9000, 9999, 10_000, 10_001, 11_000, 60_000];

/// displacement of the second frame in degrees (about 120 m)
fn displace(lat: f64, lon: f64, k: usize) -> (f64, f64) {
    let dlat = 120.0 / 111_320.0;
    let dlon = dlat / lat.to_radians().cos().max(0.05);
    let (a, b) = match k {
        0 => (lat, lon),
        1 => (lat + dlat, lon),
        2 => (lat, lon + dlon),
        _ => (lat - dlat * 0.7, lon - dlon * 0.7),
    };
    let mut b = b;
    if b >= 180.0 {
        b -= 360.0;
    }
    if b < -180.0 {
        b += 360.0;
    }
    (a.clamp(-86.99, 86.99), b)
}

#[derive(Clone, Copy, Debug)]
struct Pair {
    p1: (f64, f64),
    p2: (f64, f64),
    first_odd: bool,
    delay_ms: i64,
    foreign: usize, // 0 none, 1 DF4, 2 TC19, 3 TC4, 4 DF11
    /// AC12 code carried by both position squitters (None = 36000 ft)
    ac12: Option<u32>,
}

fn pframe(addr: u32, p: (f64, f64), odd: bool) -> Frame {
    rowmodel::pos_frame(17, addr, 11, 36000, p, odd)
}

fn pframe_ac(addr: u32, p: (f64, f64), odd: bool, ac12: Option<u32>) -> Frame {
    match ac12 {
        None => pframe(addr, p, odd),
        Some(code) => {
            let (la, lo) = cpr::encode(p.0, p.1, odd);
            frames::df17(5, addr, frames::me_airpos(11, 0, 0, code, 0, odd as u32, la, lo))
        }
    }
}

fn foreign_frame(addr: u32, k: usize) -> Option<Frame> {
    match k {
        1 => Some(frames::df4(addr, frames::ac13_for_alt(31000))),
        2 => Some(frames::df17(5, addr, frames::me_velocity(&Vel { st: 1, vew: 301, vns: 77, vr: 31, ..Default::default() }))),
        3 => Some(frames::df17(5, addr, frames::me_ident(4, 3, frames::callsign_codes("EIN45F")))),
        4 => Some(frames::df11(5, addr, 0)),
        // 100 + s: an identity reply with the s-th of the 4096 Mode A codes (all-octal digit patterns)
        k if (100..100 + 4096).contains(&k) => {
            let s = (k - 100) as u32;
            let sq = (s >> 9 & 7) * 1000 + (s >> 6 & 7) * 100 + (s >> 3 & 7) * 10 + (s & 7);
            Some(frames::df5(addr, frames::id13_for_squawk(sq)))
        }
        _ => None,
    }
}

/// run a chunk of pairs: first frames (one run), tick, foreign frames, second frames (one run)
fn run_pairs(cfg: &Cfg, pairs: &[Pair]) -> Result<HashMap<u32, Snap>, String> {
    let delay = pairs[0].delay_ms;
    let t = new_table();
    let first: Vec<Vec<u8>> = pairs.iter().enumerate().map(|(i, p)| pframe_ac(BASE + i as u32, p.p1, p.first_odd, p.ac12).hex().into_bytes()).collect();
    crate::run::describe_current("C08 lattice chunk, first frames");
    let o = run_file(cfg, &join_lines(&first), &t);
    if !o.is_ok() {
        return Err(o.label());
    }
    let mut rows = snapshot(&t);
    tick_all(&mut rows, delay);
    let t2 = restore(&rows);
    let mut second: Vec<Vec<u8>> = vec![];
    for (i, p) in pairs.iter().enumerate() {
        if let Some(f) = foreign_frame(BASE + i as u32, p.foreign) {
            second.push(f.hex().into_bytes());
        }
        second.push(pframe_ac(BASE + i as u32, p.p2, !p.first_odd, p.ac12).hex().into_bytes());
    }
    crate::run::describe_current("C08 lattice chunk, second frames");
    let o = run_file(cfg, &join_lines(&second), &t2);
    if !o.is_ok() {
        return Err(o.label());
    }
    Ok(snapshot(&t2).into_iter().map(|s| (s.key, s)).collect())
}

fn judge_pair(ctx: &mut Ctx, cfg: &Cfg, observer: (f64, f64), obs_label: &str, p: &Pair, row: Option<&Snap>) {
    ctx.eval();
    let key = format!("p1=({:.6},{:.6}) p2=({:.6},{:.6}) first={} delay={}ms foreign={}", p.p1.0, p.p1.1, p.p2.0, p.p2.1, if p.first_odd { "odd" } else { "even" }, p.delay_ms, p.foreign);
    let case = || json!({"kind": "pair", "p1": [p.p1.0, p.p1.1], "p2": [p.p2.0, p.p2.1], "first_odd": p.first_odd, "delay_ms": p.delay_ms, "foreign": p.foreign, "cfg": cfg.opts, "observer": obs_label, "ac12": p.ac12});
    let Some(row) = row else {
        ctx.violation(&format!("C08/lattice/no-row/{}", cfg.label()), &key, || format!("{key}: no row"), case);
        return;
    };
    let e1 = cpr::encode(p.p1.0, p.p1.1, p.first_odd);
    let e2 = cpr::encode(p.p2.0, p.p2.1, !p.first_odd);
    let s1 = Slot::Known { lat: e1.0, lon: e1.1, age: p.delay_ms };
    let s2 = Slot::Known { lat: e2.0, lon: e2.1, age: 0 };
    let newer_parity = if p.first_odd { 0 } else { 1 };
    let slots = if p.first_odd { [s2, s1] } else { [s1, s2] };
    match pos_expect(slots, newer_parity, true) {
        PosExpect::Skip(why) => ctx.count(&format!("lattice:skipped:{why}")),
        PosExpect::Unchanged(why) => {
            ctx.count(&format!("lattice:unchanged:{why}"));
            ctx.outcome(&("unchanged", why));
            if row.latf() != 0.0 || row.lonf() != 0.0 || row.dist.is_some() || row.pos_age.is_some() {
                ctx.violation(&format!("C08/lattice/unsupported-position/{}", cfg.label()), &key, || format!("{key}: no valid pair ({why}) but the row shows ({}, {}), distance {:?}", row.latf(), row.lonf(), row.distf()), case);
            }
        }
        PosExpect::Decoded { lat, lon } => {
            ctx.count("lattice:decoded");
            ctx.outcome(&(lat.to_bits() >> 30, lon.to_bits() >> 30));
            let ok = (row.latf() - lat).abs() <= 1e-9 && (row.lonf() - lon).abs() <= 1e-9;
            if !ok {
                ctx.violation(&format!("C08/lattice/decode/{}", cfg.label()), &key, || format!("{key}: reference decode ({lat:.7},{lon:.7}), row shows ({:.7},{:.7})", row.latf(), row.lonf()), case);
                return;
            }
            let d_true = cpr::haversine_km(p.p2.0, p.p2.1, row.latf(), row.lonf());
            if d_true > 0.020 {
                ctx.violation(&format!("C08/lattice/20m/{}", cfg.label()), &key, || format!("{key}: displayed position ({:.7},{:.7}) is {:.1} m from the encoded position", row.latf(), row.lonf(), d_true * 1000.0), case);
                return;
            }
            ctx.count("lattice:within-20m");
            if !(-90.0..=90.0).contains(&row.latf()) || !(-180.0..=180.0).contains(&row.lonf()) {
                ctx.violation(&format!("C08/lattice/range/{}", cfg.label()), &key, || format!("{key}: out of range ({},{})", row.latf(), row.lonf()), case);
                return;
            }
            let want = cpr::haversine_km(row.latf(), row.lonf(), observer.0, observer.1);
            ctx.count("lattice:distance-checked");
            if !row.distf().is_some_and(|d| (d - want).abs() <= 1e-9 * want.max(1.0)) {
                ctx.violation(&format!("C08/lattice/distance/{}", cfg.label()), &key, || format!("{key}: distance to observer {obs_label:?} expected {want:.6} km, row shows {:?}", row.distf()), case);
            }
        }
    }
}

fn run_lattice(ctx: &mut Ctx, cfg: &Cfg, observer: (f64, f64), obs_label: &str, pairs: &[Pair]) {
    for chunk in pairs.chunks(16384) {
        match run_pairs(cfg, chunk) {
            Ok(rows) => {
                for (i, p) in chunk.iter().enumerate() {
                    judge_pair(ctx, cfg, observer, obs_label, p, rows.get(&(BASE + i as u32)));
                }
            }
            Err(e) => {
                // isolate the crashing pair
                if chunk.len() == 1 {
                    let p = &chunk[0];
                    ctx.violation(&format!("C08/lattice/crash/{}", cfg.label()), &format!("{p:?}"), || format!("{p:?}: {e}"), || json!({"kind": "pair", "p1": [p.p1.0, p.p1.1], "p2": [p.p2.0, p.p2.1], "first_odd": p.first_odd, "delay_ms": p.delay_ms, "foreign": p.foreign, "cfg": cfg.opts, "observer": obs_label}));
                } else {
                    let mid = chunk.len() / 2;
                    run_lattice(ctx, cfg, observer, obs_label, &chunk[..mid]);
                    run_lattice(ctx, cfg, observer, obs_label, &chunk[mid..]);
                }
            }
        }
    }
}

const OBSERVERS: [(&str, (f64, f64)); 5] = [("52.66,-8.62", (52.66, -8.62)), ("52.66, -8.62", (52.66, -8.62)), (" 52.66 ,-8.62 ", (52.66, -8.62)), ("-33.9,151.2", (-33.9, 151.2)), ("0,0", (0.0, 0.0))];

fn pair_actions() -> Vec<Action> {
    let p1 = (52.2572, 3.91937);
    let p2 = (52.2572 + 0.0009, 3.91937 + 0.0015);
    let p3 = (53.5, 3.9); // other NL zone (transition at 53.095)
    let zero_lat = |odd: bool| {
        let (_, lo) = cpr::encode(p1.0, p1.1, odd);
        let me = frames::me_airpos(11, 0, 0, frames::ac12_for_alt(36000), 0, odd as u32, 0, lo);
        frames::df17(5, A, me)
    };
    vec![
        Action::line("even p1", &pframe(A, p1, false)),
        Action::line("odd p1", &pframe(A, p1, true)),
        Action::line("even p2", &pframe(A, p2, false)),
        Action::line("odd p2", &pframe(A, p2, true)),
        Action::line("even p3", &pframe(A, p3, false)),
        Action::line("odd p3", &pframe(A, p3, true)),
        Action::line("even lat=0", &zero_lat(false)),
        Action::line("odd lat=0", &zero_lat(true)),
        Action::tick(4_000),
        Action::tick(6_000),
        Action::tick(11_000),
        Action::line("DF4(A)", &frames::df4(A, frames::ac13_for_alt(31000))),
        // "no position available" squitters (type code 0) of either parity bit: they carry no position
        Action::line("TC0 f=0 (A)", &frames::df17(5, A, frames::me_airpos(0, 0, 0, frames::ac12_for_alt(36000), 0, 0, 0, 0))),
        Action::line("TC0 f=1 (A)", &frames::df17(5, A, frames::me_airpos(0, 0, 0, frames::ac12_for_alt(36000), 0, 1, 0, 0))),
        Action::line("even p1 (B)", &pframe(B, p1, false)),
    ]
}

fn run_pair_model(ctx: &mut Ctx, opts: &[&str], depth: usize) {
    let cfg = Cfg::new(opts);
    let actions = pair_actions();
    let oracle = RowOracle { lookup: Lookup::new(), relaxed: false, probe_idempotence: false, prop: "C08" };
    let model = Model { cfg: &cfg, actions: &actions, depth, init: vec![], aux0: Slots::default() };
    explore(ctx, &model, rowmodel::aux_step, |ctx, st| {
        let complaints: Vec<(String, String)> = oracle.judge(ctx, &cfg, st);
        ctx.out.traces_validated += 1;
        rowmodel::report(ctx, "C08", "PAIR", &cfg, &actions, st, complaints, json!({"depth": depth}));
        crate::engine::explore::leaf_conformance(ctx, "C08/PAIR", "PAIR", &cfg, &[], &actions, st, depth, json!({"depth": depth}));
    });
    ctx.bound(&format!("PAIR [{}]", cfg.label()), format!("depth {depth}, {} actions", actions.len()));
}

fn run(ctx: &mut Ctx) {
    let thorough = ctx.tier.thorough();
    // ---- E1 lattice
    let lats = lattice_lats();
    let mids = midpoint_lats();
    let mut job = 0u64;
    for opts in [&[][..], &["-U"][..]] {
        let cfg = Cfg::new(opts);
        squitterator::set_observer_coords_from_str(OBSERVERS[0].0);
        for &delay in &DELAYS_MS {
            for first_odd in [false, true] {
                for k in 0..4usize {
                    job += 1;
                    if !ctx.mine(job) {
                        continue;
                    }
                    let mut pairs = vec![];
                    for &lat in &lats {
                        for &lon in &LONS {
                            pairs.push(Pair { p1: (lat, lon), p2: displace(lat, lon, k), first_odd, delay_ms: delay, foreign: 0, ac12: None });
                        }
                    }
                    run_lattice(ctx, &cfg, OBSERVERS[0].1, OBSERVERS[0].0, &pairs);
                }
            }
        }
        // interleaved foreign frames and observer spellings on the midpoint sub-lattice
        for (oi, (ostr, ocoord)) in OBSERVERS.iter().enumerate() {
            for foreign in 0..5usize {
                if oi > 0 && foreign > 0 {
                    continue;
                }
                for &delay in &[0i64, 9_999, 10_000, 159_000, 160_000, 165_000, 169_999, 320_000, 325_500, 1_605_000, 3_600_000, 86_400_000] {
                    if delay > 10_000 && (oi > 0 || foreign > 0) {
                        continue;
                    }
                    job += 1;
                    if !ctx.mine(job) {
                        continue;
                    }
                    squitterator::set_observer_coords_from_str(ostr);
                    let mut pairs = vec![];
                    for &lat in &mids {
                        for &lon in &LONS {
                            for first_odd in [false, true] {
                                pairs.push(Pair { p1: (lat, lon), p2: displace(lat, lon, 1), first_odd, delay_ms: delay, foreign, ac12: None });
                            }
                        }
                    }
                    run_lattice(ctx, &cfg, *ocoord, ostr, &pairs);
                    ctx.count(&format!("observer:{ostr}"));
                }
            }
        }
        // the position does not depend on the Mode A code the row holds: every one of the 4096 codes arrives between
        // the two frames of a decodable pair
        squitterator::set_observer_coords_from_str(OBSERVERS[0].0);
        for block in 0..16usize {
            job += 1;
            if !ctx.mine(job) {
                continue;
            }
            let mut pairs = vec![];
            for s in (block * 256)..((block + 1) * 256) {
                let (lat, lon) = (mids[s % mids.len()], LONS[2 + s % 5]);
                pairs.push(Pair { p1: (lat, lon), p2: displace(lat, lon, 1), first_odd: s % 2 == 1, delay_ms: 3000, foreign: 100 + s, ac12: None });
            }
            ctx.count_n("lattice:every-squawk-between-the-pair", pairs.len() as u64);
            run_lattice(ctx, &cfg, OBSERVERS[0].1, OBSERVERS[0].0, &pairs);
        }
        // points within a few hundred metres of 0N 0E, in all four quadrants
        job += 1;
        if ctx.mine(job) {
            let mut pairs = vec![];
            for la in [0.0005f64, 0.00005, 0.002, 0.0009] {
                for lo in [0.0005f64, 0.00008, 0.003, 0.0009] {
                    for (sa, so) in [(1.0, 1.0), (1.0, -1.0), (-1.0, 1.0), (-1.0, -1.0)] {
                        for first_odd in [false, true] {
                            let p1 = (sa * la, so * lo);
                            pairs.push(Pair { p1, p2: (p1.0 + sa * 0.0002, p1.1 + so * 0.0002), first_odd, delay_ms: 2000, foreign: 0, ac12: None });
                        }
                    }
                }
            }
            ctx.count_n("lattice:near-0N-0E", pairs.len() as u64);
            run_lattice(ctx, &cfg, OBSERVERS[0].1, OBSERVERS[0].0, &pairs);
        }
        // the position does not depend on what the altitude field says: codes without an altitude
        // (all zero, below 0 ft), 0 ft, a Gillham code, the highest code
        squitterator::set_observer_coords_from_str(OBSERVERS[0].0);
        for code in [0u32, frames::ac12_q1(0), frames::ac12_q1(39), frames::ac12_q1(40), 0x0A2, 0xFFF] {
            job += 1;
            if !ctx.mine(job) {
                continue;
            }
            let mut pairs = vec![];
            for &lat in &mids {
                for &lon in &LONS[2..7] {
                    for first_odd in [false, true] {
                        pairs.push(Pair { p1: (lat, lon), p2: displace(lat, lon, 2), first_odd, delay_ms: 3000, foreign: 0, ac12: Some(code) });
                    }
                }
            }
            ctx.count_n("lattice:altitude-code-variants", pairs.len() as u64);
            run_lattice(ctx, &cfg, OBSERVERS[0].1, OBSERVERS[0].0, &pairs);
        }
        if thorough {
            squitterator::set_observer_coords_from_str(OBSERVERS[0].0);
            // dense sweep every 0.01 deg of latitude x 16 longitudes x both orders
            for band in 0..174 {
                job += 1;
                if !ctx.mine(job) {
                    continue;
                }
                let mut pairs = vec![];
                for step in 0..100 {
                    let lat = -86.95 + band as f64 + step as f64 * 0.01;
                    if lat > 86.95 {
                        break;
                    }
                    for li in 0..16 {
                        let lon = -180.0 + li as f64 * 22.5 + 0.013;
                        for first_odd in [false, true] {
                            pairs.push(Pair { p1: (lat, lon), p2: displace(lat, lon, 3), first_odd, delay_ms: 2000, foreign: 0, ac12: None });
                        }
                    }
                }
                run_lattice(ctx, &cfg, OBSERVERS[0].1, OBSERVERS[0].0, &pairs);
            }
        }
    }
    // ---- E2 pairing machine
    squitterator::set_observer_coords_from_str(rowmodel::OBSERVER_STR);
    for opts in [&[][..], &["-U"][..]] {
        run_pair_model(ctx, opts, if thorough { 7 } else { 5 });
    }
    // ---- other epochs (see shim::EPOCH_VARIANTS): the first frame of a pair lies on the other side of
    // midnight / the year / the 32-bit time_t wrap, or the two stamps differ in their sub-second parts
    for (es, ens, ename) in crate::shim::EPOCH_VARIANTS {
        crate::shim::set_epoch(es, ens);
        squitterator::set_observer_coords_from_str(OBSERVERS[0].0);
        for opts in [&[][..], &["-U"][..]] {
            let cfg = Cfg::new(opts);
            for &delay in &[0i64, 1, 999, 1_000, 3_000, 3_251, 5_500, 9_000, 9_999, 10_000, 10_001, 12_500, 13_000] {
                job += 1;
                if !ctx.mine(job) {
                    continue;
                }
                let mut pairs = vec![];
                for &lat in &mids {
                    for &lon in &LONS[2..7] {
                        for first_odd in [false, true] {
                            pairs.push(Pair { p1: (lat, lon), p2: displace(lat, lon, 1), first_odd, delay_ms: delay, foreign: 0, ac12: None });
                        }
                    }
                }
                ctx.count_n(&format!("lattice:epoch {ename}"), pairs.len() as u64);
                run_lattice(ctx, &cfg, OBSERVERS[0].1, OBSERVERS[0].0, &pairs);
            }
        }
        squitterator::set_observer_coords_from_str(rowmodel::OBSERVER_STR);
        for opts in [&[][..], &["-U"][..]] {
            run_pair_model(ctx, opts, if thorough { 5 } else { 4 });
        }
        crate::shim::reset_epoch();
    }
    ctx.sample(|| json!({"pair": {"even": pframe(A, (52.2572, 3.91937), false).hex(), "odd": pframe(A, (52.2572, 3.91937), true).hex(), "delay_ms": 9999}, "expected": "position (52.2572, 3.9194) within 20 m"}));
    ctx.sample(|| json!({"PAIR history": ["even p1", "tick 11000 ms", "odd p1", "tick 4000 ms", "even p2"], "expected": "no position after step 3; decode anchored on even p2 after step 5"}));
    ctx.bound("lattice latitudes", lats.len());
    ctx.out.exhaustive = true;
}

fn replay(ctx: &mut Ctx, case: &Value) {
    let opts: Vec<String> = case.get("cfg").and_then(|c| c.as_array()).map(|a| a.iter().filter_map(|x| x.as_str().map(String::from)).collect()).unwrap_or_default();
    let o: Vec<&str> = opts.iter().map(|s| s.as_str()).collect();
    let cfg = Cfg::new(&o);
    if case.get("kind").and_then(|x| x.as_str()) == Some("pair") {
        let f2 = |k: &str| -> (f64, f64) {
            let a = case.get(k).and_then(|x| x.as_array()).cloned().unwrap_or_default();
            (a.first().and_then(|x| x.as_f64()).unwrap_or(0.0), a.get(1).and_then(|x| x.as_f64()).unwrap_or(0.0))
        };
        let p = Pair {
            p1: f2("p1"),
            p2: f2("p2"),
            first_odd: case.get("first_odd").and_then(|x| x.as_bool()).unwrap_or(false),
            delay_ms: case.get("delay_ms").and_then(|x| x.as_i64()).unwrap_or(0),
            foreign: case.get("foreign").and_then(|x| x.as_u64()).unwrap_or(0) as usize,
            ac12: case.get("ac12").and_then(|x| x.as_u64()).map(|x| x as u32),
        };
        let ostr = case.get("observer").and_then(|x| x.as_str()).unwrap_or(OBSERVERS[0].0).to_string();
        let oc = OBSERVERS.iter().find(|(s, _)| *s == ostr).map(|(_, c)| *c).unwrap_or(OBSERVERS[0].1);
        squitterator::set_observer_coords_from_str(&ostr);
        crate::run::say(&format!("first frame {} ; {} ms later second frame {} ; cfg [{}]", pframe(BASE, p.p1, p.first_odd).hex(), p.delay_ms, pframe(BASE, p.p2, !p.first_odd).hex(), cfg.label()));
        match run_pairs(&cfg, &[p]) {
            Ok(rows) => {
                let row = rows.get(&BASE);
                crate::run::say(&format!("row position: {:?}", row.map(|r| (r.latf(), r.lonf(), r.distf(), r.pos_age))));
                judge_pair(ctx, &cfg, oc, &ostr, &p, row);
            }
            Err(e) => ctx.violation("C08/lattice/crash", "replay", || e.clone(), || case.clone()),
        }
        return;
    }
    squitterator::set_observer_coords_from_str(rowmodel::OBSERVER_STR);
    let depth = case.pointer("/extra/depth").and_then(|x| x.as_u64()).unwrap_or(5) as usize;
    let path: Vec<usize> = case.get("path").and_then(|p| p.as_array()).map(|a| a.iter().filter_map(|x| x.as_u64().map(|v| v as usize)).collect()).unwrap_or_default();
    let actions = pair_actions();
    let oracle = RowOracle { lookup: Lookup::new(), relaxed: false, probe_idempotence: false, prop: "C08" };
    let model = Model { cfg: &cfg, actions: &actions, depth, init: vec![], aux0: Slots::default() };
    replay_path(ctx, &model, &path, rowmodel::aux_step, |ctx, st| {
        if crate::engine::explore::replay_leaf_conformance(ctx, case, "C08/PAIR", &cfg, &[], &actions, st) {
            return;
        }
        let complaints = oracle.judge(ctx, &cfg, st);
        for (s, m) in &complaints {
            crate::run::say(&format!("  oracle [{s}]: {m}"));
        }
        rowmodel::report(ctx, "C08", "PAIR", &cfg, &actions, st, complaints, json!({"depth": depth}));
    });
}
