//! C04 - squitters with failing parity never change the table.

use super::Prop;
use crate::frames::{self, Frame};
use crate::report::{Ctx, Level, Partial, Tier};
use crate::run::{Cfg, join_lines, run_file};
use crate::snap::{Snap, new_table, restore, snapshot};
use serde_json::{Value, json};
use squitterator::get_message;

pub static PROP: Prop = Prop { id: "C04", level, run, replay, gate, both_profiles: false, serial: false };

const A: u32 = 0x4CA2D6;
const B: u32 = 0x3C6586;

fn level(t: Tier) -> Level {
    Level {
        category: "exploration",
        rule: if t.thorough() {
            "base squitters (DF17 x 5 type codes, DF18, DF11 IC=0, DF11 IC=37) x error patterns confined to bits 6..112 (6..56 for DF11): all 1-bit, all 2-bit, all bursts of length <= 24 with every interior pattern (DF17 TC11 and DF11 IC=0 bases; <= 16 for the others), expected verdict computed from an independent CRC-24; acceptance observed through public get_message, and for all 1-/2-bit errors and bursts <= 10 through the reader thread into an empty table and into a populated table (table must stay bit-identical); distinct_nontrivial = distinct (base, verdict, remainder class) outcomes"
        } else {
            "base squitters (DF17 x 5 type codes, DF18, DF11 IC=0, DF11 IC=37) x error patterns confined to bits 6..112 (6..56 for DF11): all 1-bit, all 2-bit, all bursts of length <= 12 with every interior pattern, expected verdict computed from an independent CRC-24; acceptance observed through public get_message, and for all 1-/2-bit errors and bursts <= 8 through the reader thread into an empty table and into a populated table (table must stay bit-identical); distinct_nontrivial = distinct (base, verdict, remainder class) outcomes"
        },
        assumptions: vec![
            "reference remainder: plain MSB-first bit-serial division by 0x1FFF409 (validated against the frames pinned in the repository's tests and CRC linearity)".into(),
            "DF11 accept iff the upper 17 bits of the remainder are 0 (stated); patterns that only change the interrogator code are therefore expected to be accepted and are counted separately".into(),
        ],
    }
}

fn gate(p: &Partial, t: Tier) -> Result<(), String> {
    super::default_gate(p, t)?;
    super::need(p, "expected-reject", 100_000)?;
    super::need(p, "expected-accept", 100)?;
    super::need(p, "table-unchanged-checked", 10_000)?;
    super::need(p, "table-after-valid-frame", 10_000)?;
    super::need(p, "after-valid-frame", 10_000)?;
    Ok(())
}

fn bases() -> Vec<(&'static str, Frame)> {
    vec![
        ("DF17-TC11", frames::df17(5, A, frames::me_airpos(11, 0, 0, frames::ac12_for_alt(36000), 0, 0, 93000, 51372))),
        ("DF11-IC0", frames::df11(5, A, 0)),
        ("DF17-TC4", frames::df17(5, A, frames::me_ident(4, 3, frames::callsign_codes("EIN45F")))),
        ("DF17-TC19", frames::df17(5, A, frames::me_velocity(&frames::Vel { st: 1, vew: 301, dns: 1, vns: 77, vr: 20, ..Default::default() }))),
        ("DF17-TC29", frames::df17(5, A, frames::me_tc29())),
        ("DF17-TC31", frames::df17(5, A, frames::me_tc31(2))),
        ("DF18-TC11", frames::df18(2, A, frames::me_airpos(11, 0, 0, frames::ac12_for_alt(36000), 0, 1, 93000, 51372))),
        ("DF11-IC37", frames::df11(5, A, 37)),
        // more all-call bases: the low bits of the CRC differ, which matters for anything that treats
        // the interrogator-code bits of the parity field arithmetically
        ("DF11-b", frames::df11(5, 0x3C6586, 0)),
        ("DF11-c", frames::df11(4, 0xA1B2C3, 0)),
        ("DF11-d", frames::df11(7, 0x4CA2D7, 5)),
        ("DF11-e", frames::df11(0, 0x71BC00, 0)),
        ("DF11-f", frames::df11(5, 0xE48F01, 127)),
        ("DF11-g", frames::df11(6, 0x06A0C5, 64)),
    ]
}

/// expected acceptance of a DF11/17/18 frame per the statement
fn expect_accept(f: &Frame) -> bool {
    match f.df() {
        17 | 18 => f.remainder() == 0,
        11 => f.remainder() & 0xFFFF80 == 0,
        _ => true,
    }
}

/// error patterns as XOR masks over the frame, confined to bits 6..nbits
fn patterns(nbits: u32, max_burst: u32, mut f: impl FnMut(u128, &'static str)) {
    let bit = |n: u32| 1u128 << (nbits - n);
    for i in 6..=nbits {
        f(bit(i), "1-bit");
    }
    for i in 6..=nbits {
        for j in (i + 1)..=nbits {
            f(bit(i) | bit(j), "2-bit");
        }
    }
    for l in 3..=max_burst {
        // burst of length l: first and last bit set, every interior pattern
        for s in 6..=(nbits + 1 - l) {
            let interior_bits = l - 2;
            for m in 0..(1u128 << interior_bits) {
                // l=2 bursts are the adjacent 2-bit errors already covered; skip interior==0 && l==2
                let mask = bit(s) | bit(s + l - 1) | (m << (nbits - (s + l - 2)));
                f(mask, "burst");
            }
        }
    }
}

fn check_get_message(ctx: &mut Ctx, name: &str, base: &Frame, mask: u128, kind: &str, after_base: bool) {
    let f = Frame { v: base.v ^ mask, nbits: base.nbits };
    let want = expect_accept(&f);
    if after_base {
        // the corrupted copy arrives directly after the valid frame
        let _ = get_message(&base.hex());
        ctx.count("after-valid-frame");
    }
    let got = get_message(&f.hex()).is_some();
    ctx.eval();
    ctx.count(if want { "expected-accept" } else { "expected-reject" });
    ctx.outcome(&(name, want, got, kind));
    if want != got && !after_base {
        // alone on a fresh thread?
        let hx = f.hex();
        let alone = std::thread::Builder::new().name("sqv-fresh".into()).spawn(move || get_message(&hx).is_some()).ok().and_then(|t| t.join().ok()).unwrap_or(got);
        if alone == want {
            // the verdict depends on what was decoded before: look for a replayable history -
            // the same frame repeated n times (counters), on a fresh thread
            let hx = f.hex();
            let repeat = std::thread::Builder::new()
                .name("sqv-fresh".into())
                .spawn(move || (1..=2048usize).find(|_| get_message(&hx).is_some() != want))
                .ok()
                .and_then(|t| t.join().ok())
                .flatten();
            let hex = f.hex();
            ctx.violation(
                &format!("C04/get_message-history/{name}"),
                &hex,
                || format!("{name} with {kind} error ({hex}, remainder {:06X}): rejected when decoded alone, but accepted after earlier frames{}", f.remainder(), repeat.map(|n| format!(" - e.g. as the {n}th consecutive presentation of the same corrupted frame")).unwrap_or_default()),
                || json!({"kind": "gm", "hex": hex, "repeat": repeat}),
            );
            return;
        }
    }
    if want != got {
        let hex = f.hex();
        ctx.violation(
            &format!("C04/get_message{}/{name}", if after_base { "-after-valid" } else { "" }),
            &format!("{hex}"),
            || format!("{name} with {kind} error: reference remainder {:06X} => {} ; get_message {}", f.remainder(), if want { "accept" } else { "reject" }, if got { "accepts" } else { "rejects" }),
            || json!({"kind": "gm", "hex": hex, "after": if after_base { Some(base.hex()) } else { None }}),
        );
    }
}

fn prestates() -> Vec<(&'static str, Vec<Snap>)> {
    // populated table: aircraft A (ident + altitude + position pair) and a bystander B
    let cfg = Cfg::new(&[]);
    let t = new_table();
    let lines: Vec<Vec<u8>> = [
        frames::df11(5, A, 0),
        frames::df17(5, A, frames::me_ident(4, 3, frames::callsign_codes("EIN45F"))),
        frames::df4(A, frames::ac13_for_alt(31000)),
        frames::df5(A, frames::id13_for_squawk(4521)),
        frames::df11(5, B, 0),
        frames::df4(B, frames::ac13_for_alt(9000)),
    ]
    .iter()
    .map(|f| f.hex().into_bytes())
    .collect();
    let o = run_file(&cfg, &join_lines(&lines), &t);
    assert!(o.is_ok(), "prestate build: {o:?}");
    vec![("empty", vec![]), ("populated", snapshot(&t))]
}

/// feed many corrupted lines (all expected to be rejected) into a pre-state; the table must not change.
/// On a difference the batch is bisected to single lines.
fn table_batch(ctx: &mut Ctx, cfg: &Cfg, pname: &str, pre: &[Snap], name: &str, lines: &[(String, &'static str)]) {
    if lines.is_empty() {
        return;
    }
    let t = restore(pre);
    let content = join_lines(&lines.iter().map(|(h, _)| h.as_bytes().to_vec()).collect::<Vec<_>>());
    let o = run_file(cfg, &content, &t);
    let after = snapshot(&t);
    if o.is_ok() && after == pre {
        ctx.evals(lines.len() as u64);
        ctx.count_n("table-unchanged-checked", lines.len() as u64);
        return;
    }
    if lines.len() == 1 {
        ctx.eval();
        ctx.count("table-unchanged-checked");
        let (hex, kind) = &lines[0];
        let detail = if !o.is_ok() {
            o.label()
        } else {
            let keys_before: Vec<u32> = pre.iter().map(|s| s.key).collect();
            let keys_after: Vec<u32> = after.iter().map(|s| s.key).collect();
            format!("rows before {keys_before:X?}, after {keys_after:X?}")
        };
        ctx.violation(
            &format!("C04/table/{pname}/{name}/{}", cfg.label()),
            hex,
            || format!("{name} with {kind} error ({hex}) fails parity but changed the {pname} table: {detail}"),
            || json!({"kind": "table", "hex": hex, "pre": pname, "cfg": cfg.opts}),
        );
        return;
    }
    let mid = lines.len() / 2;
    let before = ctx.out.viol_by_site.values().sum::<u64>() + ctx.out.known_hits.values().sum::<u64>();
    table_batch(ctx, cfg, pname, pre, name, &lines[..mid]);
    table_batch(ctx, cfg, pname, pre, name, &lines[mid..]);
    let after_n = ctx.out.viol_by_site.values().sum::<u64>() + ctx.out.known_hits.values().sum::<u64>();
    if after_n == before {
        // the batch changes the table although neither half does: the effect needs a longer run of
        // lines (state carried across lines); report the batch itself, shrunk from the front
        let mut lo = 0usize;
        let mut step = lines.len() / 2;
        while step > 0 {
            if lo + step < lines.len() {
                let t = restore(pre);
                let c = join_lines(&lines[lo + step..].iter().map(|(h, _)| h.as_bytes().to_vec()).collect::<Vec<_>>());
                let o = run_file(cfg, &c, &t);
                if !o.is_ok() || snapshot(&t) != pre {
                    lo += step;
                    continue;
                }
            }
            step /= 2;
        }
        let window: Vec<String> = lines[lo..].iter().map(|(h, _)| h.clone()).collect();
        ctx.violation(
            &format!("C04/table-history/{pname}/{name}/{}", cfg.label()),
            &format!("{} lines ending with {}", window.len(), window.last().cloned().unwrap_or_default()),
            || format!("a run of {} consecutive {name} frames that all fail parity changed the {pname} table, although no shorter tail of it does (first {}, last {})", window.len(), window.first().cloned().unwrap_or_default(), window.last().cloned().unwrap_or_default()),
            || json!({"kind": "table-run", "lines": window, "pre": pname, "cfg": cfg.opts}),
        );
    }
}

/// lines alternate valid base / corrupted copy; the table must stay what it is after the valid frame
fn table_batch_interleaved(ctx: &mut Ctx, cfg: &Cfg, pname: &str, pre: &[Snap], name: &str, base_hex: &str, lines: &[(String, &'static str)]) {
    if lines.is_empty() {
        return;
    }
    let t = restore(pre);
    let content = join_lines(&lines.iter().map(|(h, _)| h.as_bytes().to_vec()).collect::<Vec<_>>());
    let o = run_file(cfg, &content, &t);
    let after = snapshot(&t);
    let ncorr = lines.iter().filter(|(_, k)| *k != "valid").count() as u64;
    if o.is_ok() && after == pre {
        ctx.evals(ncorr);
        ctx.count_n("table-unchanged-checked", ncorr);
        ctx.count_n("table-after-valid-frame", ncorr);
        return;
    }
    if ncorr <= 1 {
        let (hex, kind) = lines.iter().find(|(_, k)| *k != "valid").cloned().unwrap_or_default();
        ctx.eval();
        ctx.violation(
            &format!("C04/table-after-valid/{pname}/{name}/{}", cfg.label()),
            &hex,
            || format!("{name} with {kind} error ({hex}) arriving directly after the valid frame {base_hex} changed the {pname} table ({})", o.label()),
            || json!({"kind": "table-after-valid", "hex": hex, "base": base_hex, "pre": pname, "cfg": cfg.opts}),
        );
        return;
    }
    // split on a pair boundary
    let mid = (lines.len() / 4).max(1) * 2;
    table_batch_interleaved(ctx, cfg, pname, pre, name, base_hex, &lines[..mid]);
    table_batch_interleaved(ctx, cfg, pname, pre, name, base_hex, &lines[mid..]);
}

fn run(ctx: &mut Ctx) {
    let bs = bases();
    let thorough = ctx.tier.thorough();
    let mut job = 0u64;
    // (a) acceptance verdict through get_message
    for (bi, (name, base)) in bs.iter().enumerate() {
        let nbits = if base.df() == 11 { 56 } else { 112 };
        let max_burst = match (thorough, bi) {
            (true, 0) | (true, 1) => 24,
            (true, _) => 16,
            (false, _) => 12,
        };
        let mut n = 0u64;
        let mut todo: Vec<(u128, &'static str)> = vec![];
        patterns(nbits, max_burst, |m, k| {
            n += 1;
            // partition by blocks of 65536 patterns
            if (job + (n >> 16)) % ctx.nparts == ctx.part {
                todo.push((m, k));
                if todo.len() >= 1 << 16 {
                    for (m, k) in todo.drain(..) {
                        check_get_message(ctx, name, base, m, k, false);
                    }
                }
            }
        });
        for (m, k) in todo.drain(..) {
            check_get_message(ctx, name, base, m, k, false);
        }
        job += (n >> 16) + 1;
        // the same 1-/2-bit errors and bursts <= 10, each directly after the valid frame
        let mut n2 = 0u64;
        let mut todo2: Vec<(u128, &'static str)> = vec![];
        patterns(nbits, 10, |m, k| {
            n2 += 1;
            if (job + (n2 >> 14)) % ctx.nparts == ctx.part {
                todo2.push((m, k));
            }
        });
        for (m, k) in todo2.drain(..) {
            check_get_message(ctx, name, base, m, k, true);
        }
        job += (n2 >> 14) + 1;
        ctx.bound(&format!("bursts {name}"), format!("<= {max_burst} bits, {n} patterns"));
    }
    // (a') every first byte of the three parity-checked formats (DF11/17/18 x CA/CF 0..7): 1-/2-bit errors and
    // bursts up to 8 (12) bits; and frames with algebraic structure (a prefix that is itself a multiple of the
    // generator, zero / one / 0x5A fill), as they stand and sealed
    for df in [11u32, 17, 18] {
        for ca in 0..8u32 {
            job += 1;
            if !ctx.mine(job) {
                continue;
            }
            let base = match df {
                11 => frames::df11(ca, 0x4CA2D6, 0),
                _ => frames::es(df, ca, 0x4CA2D6, frames::me_airpos(11, 0, 0, frames::ac12_for_alt(2800), 0, (ca & 1) as u32, 93000 + ca as u32, 51372)),
            };
            let nbits = base.nbits;
            let name: &'static str = Box::leak(format!("DF{df}-CA{ca}").into_boxed_str());
            ctx.count("first-byte-bases");
            check_get_message(ctx, name, &base, 0, "none", false);
            patterns(nbits, if thorough { 12 } else { 8 }, |m, k| check_get_message(ctx, name, &base, m, k, false));
            let first = ((df << 3) | ca) as u8;
            for lead in [[first, 0x4C, 0xA2, 0xD6, 0x58, 0x0F, 0x82, 0xDD, 0xDE, 0xCF, 0x5C], [first, 0xF8, 0xBA, 0x93, 0x00, 0x12, 0x34, 0x56, 0x78, 0x9A, 0xBC], [first, 0, 0, 1, 0, 0, 0, 0, 0, 0, 0]] {
                for f in frames::crc_structured(&lead, nbits, 0) {
                    ctx.count("crc-structured");
                    check_get_message(ctx, name, &f, 0, "structured", false);
                }
            }
        }
    }
    // (a'') a damaged squitter stays damaged whatever 12-digit receiver time stamp stands in front of it: all
    // zeros, all ones, and the constant a well-known multilateration client puts there ("\xff\0MLAT")
    job += 1;
    if ctx.mine(job) {
        for (name, base) in bs.iter() {
            let nbits = if base.df() == 11 { 56 } else { 112 };
            patterns(nbits, 3, |m, _k| {
                let f = Frame { v: base.v ^ m, nbits };
                if expect_accept(&f) {
                    return;
                }
                for ts in ["000000000000", "FFFFFFFFFFFF", "FF004D4C4154", "00004D4C4154"] {
                    for line in [format!("@{ts}{};", f.hex()), format!("{ts}{}", f.hex())] {
                        ctx.eval();
                        ctx.count("timestamped-damaged-frame");
                        if get_message(&line).is_some() {
                            let hex = f.hex();
                            ctx.violation(&format!("C04/get_message-timestamped/{name}"), &line, || format!("{name}: the damaged frame {hex} (remainder {:06X}) is accepted on the line {line}", f.remainder()), || json!({"kind": "gmline", "line": line}));
                        }
                    }
                }
            });
        }
    }
    // the unmodified bases must be accepted (the check is not vacuous "rejects everything")
    for (name, base) in &bs {
        ctx.eval();
        if get_message(&base.hex()).is_none() {
            ctx.violation(&format!("C04/get_message/{name}"), &base.hex(), || format!("valid {name} is rejected"), || json!({"kind": "gm", "hex": base.hex()}));
        }
    }
    // (b) table level
    let pres = prestates();
    let tb = if thorough { 10 } else { 8 };
    // default and -U, and the options that are meant to change nothing about acceptance: message logging for
    // the formats under test, counting, the downlink log, relaxed capabilities, a filter that lets them through
    let dl = crate::run::scratch_dir().join("c04-downlink.log").to_string_lossy().into_owned();
    let option_sets: Vec<Vec<&str>> = vec![vec![], vec!["-U"], vec!["-M", "17", "-M", "11", "-M", "18"], vec!["-U", "-M", "17", "-M", "11", "-M", "18", "-c"], vec!["-D", &dl, "-R"], vec!["-f", "18", "-f", "11", "-f", "17", "-c"], vec!["-l", "/dev/null", "-M", "17", "-M", "11", "-M", "18"], vec!["-F", "hex"], vec!["-F", "raw", "-U"], vec!["-F", "avr"], vec!["-F", "beast"]];
    for opts in option_sets.iter().map(|o| &o[..]) {
        let cfg = Cfg::new(opts);
        for (pname, pre) in &pres {
            for (name, base) in bs.iter().take(if thorough { 8 } else { 3 }) {
                job += 1;
                if !ctx.mine(job) {
                    continue;
                }
                let nbits = if base.df() == 11 { 56 } else { 112 };
                let mut lines: Vec<(String, &'static str)> = vec![];
                patterns(nbits, tb, |m, k| {
                    let f = Frame { v: base.v ^ m, nbits };
                    if !expect_accept(&f) {
                        lines.push((f.hex(), k));
                    }
                });
                for chunk in lines.chunks(8192) {
                    table_batch(ctx, &cfg, pname, pre, name, chunk);
                }
                // "arriving at any point of a history": each corrupted copy directly after the valid frame
                // (pre-state = the table after the valid frame; it is re-fed before every corrupted line)
                let t = restore(pre);
                // the reference state is the table after the valid frame has been applied to its own row
                // (twice: the first application may create the row, later ones update it)
                let ob = run_file(&cfg, &join_lines(&[base.hex().into_bytes(), base.hex().into_bytes()]), &t);
                if ob.is_ok() {
                    let after_base = snapshot(&t);
                    let inter: Vec<(String, &'static str)> = lines.iter().flat_map(|(h, k)| [(base.hex(), "valid"), (h.clone(), *k)]).collect();
                    for chunk in inter.chunks(8192) {
                        table_batch_interleaved(ctx, &cfg, pname, &after_base, name, &base.hex(), chunk);
                    }
                }
            }
        }
    }
    ctx.sample(|| json!({"base": bs[0].1.hex(), "corrupted(bit 40)": Frame{v: bs[0].1.v ^ (1u128 << 72), nbits:112}.hex(), "expected": "rejected, table unchanged"}));
    ctx.sample(|| json!({"base": bs[1].1.hex(), "corrupted(IC bits only)": Frame{v: bs[1].1.v ^ 0x25, nbits:56}.hex(), "expected": "accepted (interrogator code differs)"}));
    ctx.out.exhaustive = true;
}

fn replay(ctx: &mut Ctx, case: &Value) {
    if case.get("kind").and_then(|x| x.as_str()) == Some("table-run") {
            let opts: Vec<String> = case.get("cfg").and_then(|c| c.as_array()).map(|a| a.iter().filter_map(|x| x.as_str().map(String::from)).collect()).unwrap_or_default();
            let o: Vec<&str> = opts.iter().map(|s| s.as_str()).collect();
            let cfg = Cfg::new(&o);
            let pname = case.get("pre").and_then(|x| x.as_str()).unwrap_or("empty");
            let lines: Vec<Vec<u8>> = case.get("lines").and_then(|x| x.as_array()).map(|a| a.iter().filter_map(|x| x.as_str().map(|s| s.as_bytes().to_vec())).collect()).unwrap_or_default();
            for (n, pre) in prestates() {
                if n == pname {
                    let t = restore(&pre);
                    let oc = run_file(&cfg, &join_lines(&lines), &t);
                    let same = snapshot(&t) == pre;
                    crate::run::say(&format!("{} consecutive frames failing parity into the {pname} table: outcome {}, table unchanged: {same}", lines.len(), oc.label()));
                    if !oc.is_ok() || !same {
                        ctx.violation("C04/table-history", "replay", || "frames failing parity changed the table".into(), || case.clone());
                    }
                }
            }
            return;
        }
    if case.get("kind").and_then(|x| x.as_str()) == Some("gmline") {
        let line = case.get("line").and_then(|x| x.as_str()).unwrap_or("").to_string();
        let got = get_message(&line).is_some();
        crate::run::say(&format!("line {line}: get_message accepts: {got}"));
        if got {
            ctx.violation("C04/get_message-timestamped", &line, || "a damaged frame behind a time stamp is accepted".into(), || case.clone());
        }
        return;
    }
    let hex = case.get("hex").and_then(|x| x.as_str()).unwrap_or("").to_string();
    let Some(f) = Frame::from_hex(&hex) else {
        ctx.machinery("bad hex in replay");
        return;
    };
    match case.get("kind").and_then(|x| x.as_str()) {
        Some("gm") => {
            let want = expect_accept(&f);
            if let Some(b) = case.get("after").and_then(|x| x.as_str()) {
                crate::run::say(&format!("first the valid frame {b} (accepted: {})", get_message(b).is_some()));
            }
            if let Some(n) = case.get("repeat").and_then(|x| x.as_u64()) {
                for _ in 1..n {
                    let _ = get_message(&hex);
                }
                crate::run::say(&format!("the same corrupted frame was presented {} times before", n - 1));
            }
            let got = get_message(&hex).is_some();
            crate::run::say(&format!("{hex}: reference remainder {:06X} => expected {}, get_message {}", f.remainder(), if want { "accept" } else { "reject" }, if got { "accepts" } else { "rejects" }));
            if want != got {
                ctx.violation("C04/get_message", &hex, || "acceptance differs from the parity rule".into(), || case.clone());
            }
        }
        Some("table-after-valid") => {
            let opts: Vec<String> = case.get("cfg").and_then(|c| c.as_array()).map(|a| a.iter().filter_map(|x| x.as_str().map(String::from)).collect()).unwrap_or_default();
            let o: Vec<&str> = opts.iter().map(|s| s.as_str()).collect();
            let cfg = Cfg::new(&o);
            let pname = case.get("pre").and_then(|x| x.as_str()).unwrap_or("empty");
            let base = case.get("base").and_then(|x| x.as_str()).unwrap_or("").to_string();
            for (n, pre) in prestates() {
                if n == pname {
                    let t = restore(&pre);
                    let _ = run_file(&cfg, &join_lines(&[base.as_bytes().to_vec(), base.as_bytes().to_vec()]), &t);
                    let after_base = snapshot(&t);
                    let t2 = restore(&after_base);
                    let oc = run_file(&cfg, &join_lines(&[base.as_bytes().to_vec(), hex.as_bytes().to_vec()]), &t2);
                    let after = snapshot(&t2);
                    crate::run::say(&format!("valid {base} then corrupted {hex} (remainder {:06X}) into the {pname} table, cfg [{}]: outcome {}, table identical to the table after the valid frame: {}", f.remainder(), cfg.label(), oc.label(), after == after_base));
                    if !expect_accept(&f) && (!oc.is_ok() || after != after_base) {
                        ctx.violation("C04/table-after-valid", &hex, || "frame failing parity changed the table".into(), || case.clone());
                    }
                }
            }
        }
        Some("table") => {
            let opts: Vec<String> = case.get("cfg").and_then(|c| c.as_array()).map(|a| a.iter().filter_map(|x| x.as_str().map(String::from)).collect()).unwrap_or_default();
            let o: Vec<&str> = opts.iter().map(|s| s.as_str()).collect();
            let cfg = Cfg::new(&o);
            let pname = case.get("pre").and_then(|x| x.as_str()).unwrap_or("empty");
            for (n, pre) in prestates() {
                if n == pname {
                    let t = restore(&pre);
                    let oc = run_file(&cfg, &join_lines(&[hex.as_bytes().to_vec()]), &t);
                    let after = snapshot(&t);
                    crate::run::say(&format!("{hex} (remainder {:06X}) into {pname} table, cfg [{}]: outcome {}, rows before {}, after {}, identical: {}", f.remainder(), cfg.label(), oc.label(), pre.len(), after.len(), after == pre));
                    if !expect_accept(&f) && (!oc.is_ok() || after != pre) {
                        ctx.violation("C04/table", &hex, || "frame failing parity changed the table".into(), || case.clone());
                    }
                }
            }
        }
        _ => ctx.machinery("unknown replay case kind"),
    }
}
