//! C15 - every refresh lists each aircraft once, ordered by the requested key (E4).

use super::Prop;
use crate::report::{Ctx, Level, Partial, Tier};
use crate::run::capture_stdout;
use crate::snap::{Snap, restore};
use clap::Parser;
use serde_json::{Value, json};
use squitterator::{Args, DisplayFlags, Planes};

pub static PROP: Prop = Prop { id: "C15", level, run, replay, gate, both_profiles: false, serial: false };

const KEYS: [char; 12] = ['s', 'a', 'A', 'v', 'V', 'N', 'S', 'W', 'E', 'd', 'D', 'c'];
const ADDRS: [u32; 5] = [0x3C6586, 0x4CA2D6, 0x4CA2D7, 0xA1B2C3, 0xE48F01];

fn level(t: Tier) -> Level {
    Level {
        category: "exploration",
        rule: if t.thorough() { "tables of 1..5 rows whose key field takes every combination of {blank, low, mid, mid (tie), high, a value inside the same integer as mid (10.2 / 10.9)} x every -o string of length <= 3 over {s,a,A,v,V,N,S,W,E,d,D,c} plus '', 'x', 'sx', given as one -o and as repeated -o (plus all three-letter strings x y x); printed through Planes::print with stdout captured, consecutive tables using different address sets; plus three 40-frame streams drawn after every frame whose every refresh must list exactly the table of that moment; distinct_nontrivial = distinct (key, printed order) outcomes" } else { "tables of 1..4 rows whose key field takes every combination of {blank, low, mid, mid (tie), high, a value inside the same integer as mid (10.2 / 10.9)} x every -o string of length <= 2 over {s,a,A,v,V,N,S,W,E,d,D,c} plus '', 'x', 'sx', given as one -o and as repeated -o (plus all three-letter strings x y x); printed through Planes::print with stdout captured, consecutive tables using different address sets; plus three 40-frame streams drawn after every frame whose every refresh must list exactly the table of that moment; distinct_nontrivial = distinct (key, printed order) outcomes" },
        assumptions: vec![
            "oracle: the printed address column is a permutation of the key set; the last recognised key letter is monotone down the table over the rows where it is known (s, a ascending and A descending as stated; v/V, N/S, W/E, d/D, c in either direction, as the direction is not stated); no recognised key => ascending address".into(),
            "'C' is not in the statement's key list and is not used".into(),
        ],
    }
}

fn gate(p: &Partial, t: Tier) -> Result<(), String> {
    super::default_gate(p, t)?;
    super::need(p, "table-printed", 100_000)?;
    super::need(p, "monotone-checked", 50_000)?;
    super::need(p, "address-order-checked", 1000)?;
    super::need(p, "refresh-lists-table", 100)?;
    Ok(())
}

#[derive(Clone, Copy, Debug, PartialEq, PartialOrd)]
enum K {
    Blank,
    Val(f64),
}

fn base_row(addr: u32) -> Snap {
    let mut s = Snap::of(addr, &squitterator::Plane::new());
    s.icao = addr;
    s.key = addr;
    s.reg = "??".into();
    s
}

/// DENSE tables: n rows whose key values form a chain of close neighbours (spacing well below what is
/// displayed, and duplicates), assigned to the addresses in a scrambled order. A comparison that treats near
/// values as equal is not a total order; sorting such a table must still terminate, list every aircraft once
/// and be monotone in the exact key.
pub fn dense_table(letter: char, n: usize, variant: usize) -> Vec<Snap> {
    let f = field_of(letter);
    let step = [7usize, 11, 13, 17, 19, 23, 29, 31][variant % 8];
    let delta = [0.03f64, 0.0001, 0.4, 1e-9][(variant / 8) % 4];
    (0..n)
        .map(|i| {
            let mut r = base_row(0x400000 + i as u32 * 0x101);
            let rank = (i * step + variant) % n; // position of this row in the chain
            let dup = rank / 2 * 2; // every value twice when the variant is odd
            let x = if variant % 2 == 1 { dup } else { rank } as f64;
            match f {
                "squawk" => r.squawk = Some(1000 + (x as u32) % 7000),
                "altitude" => r.altitude = Some(10_000 + 25 * x as u32),
                "vrate" => r.vrate = Some(-640 + 64 * x as i32),
                "lat" => {
                    r.lat = (10.2 + delta * x).to_bits();
                    r.lon = 7.5f64.to_bits();
                }
                "lon" => {
                    r.lon = (10.2 + delta * x).to_bits();
                    r.lat = 47.5f64.to_bits();
                }
                "dist" => r.dist = Some((10.2 + delta * x).to_bits()),
                "category" => r.category = (1 + (x as u32 / 8) % 4, x as u32 % 8),
                _ => {}
            }
            r
        })
        .collect()
}

/// print a dense table; Err(message) when printing panics
pub fn print_dense(letter: char, n: usize, variant: usize) -> Result<(Vec<Snap>, Vec<u32>), String> {
    let rows = dense_table(letter, n, variant);
    let argv: Vec<String> = vec!["squitterator".into(), "-i".into(), "".into(), "-o".into(), letter.to_string()];
    let args = Args::try_parse_from(&argv).expect("args");
    let flags = DisplayFlags::from_arg_str("");
    let planes = Planes { aircrafts: restore(&rows) };
    let (r, out) = capture_stdout(|| std::panic::catch_unwind(std::panic::AssertUnwindSafe(|| planes.print(&args, &flags))));
    if r.is_err() {
        return Err("printing the table panicked".into());
    }
    let txt = String::from_utf8_lossy(&out);
    Ok((rows, txt.lines().filter_map(|l| u32::from_str_radix(l.get(0..6)?, 16).ok()).collect()))
}

pub const DENSE_NS: [usize; 5] = [21, 24, 32, 50, 64];

fn check_dense(ctx: &mut Ctx, letter: char, n: usize, variant: usize) {
    ctx.eval();
    ctx.count("dense-table");
    let key = format!("-o {letter} dense n={n} variant={variant}");
    let case = || json!({"dense": {"letter": letter.to_string(), "n": n, "variant": variant}});
    match print_dense(letter, n, variant) {
        Err(e) => ctx.violation("C15/print-panicked", &key, || format!("{key}: {e}"), case),
        Ok((rows, printed)) => {
            let mut sorted = printed.clone();
            sorted.sort();
            let mut want: Vec<u32> = rows.iter().map(|r| r.key).collect();
            want.sort();
            if sorted != want {
                ctx.violation("C15/permutation", &key, || format!("{key}: {} rows printed for a table of {}", printed.len(), rows.len()), case);
                return;
            }
            let f = field_of(letter);
            let vals: Vec<f64> = printed.iter().filter_map(|a| rows.iter().find(|r| r.key == *a)).filter_map(|r| match key_of(r, f) { K::Val(v) => Some(v), K::Blank => None }).collect();
            let asc = vals.windows(2).all(|w| w[0] <= w[1]);
            let desc = vals.windows(2).all(|w| w[0] >= w[1]);
            let ok = match letter {
                's' | 'a' => asc,
                'A' => desc,
                _ => asc || desc,
            };
            if !ok {
                ctx.violation(&format!("C15/order/{letter}"), &key, || format!("{key}: key '{letter}' ({f}) is not monotone down the table: {:?} ...", &vals[..vals.len().min(8)]), case);
            }
        }
    }
}

fn field_of(letter: char) -> &'static str {
    match letter {
        's' => "squawk",
        'a' | 'A' => "altitude",
        'v' | 'V' => "vrate",
        'N' | 'S' => "lat",
        'W' | 'E' => "lon",
        'd' | 'D' => "dist",
        'c' => "category",
        _ => "",
    }
}

/// set the key field of a row to value class `class` (0 blank, 1 lo, 2 mid, 3 mid (tie), 4 same-integer, 5 hi)
/// combos at or above this value use the fine-scale value classes 6..11 of the real-valued keys: neighbours
/// that share a displayed tenth (10.22 / 10.28), differ in the seventh decimal, or sit on either side of an
/// integer
const FINE_BASE: usize = 1_000_000;
const FINE: [f64; 6] = [10.2, 10.22, 10.28, 10.2000001, 10.97, 11.04];

fn set_field(s: &mut Snap, field: &str, class: usize) {
    if class >= 6 {
        let v = FINE[(class - 6) % 6];
        match field {
            "lat" => {
                s.lat = f64::to_bits(v);
                s.lon = 7.5f64.to_bits();
            }
            "lon" => {
                s.lon = f64::to_bits(v);
                s.lat = 47.5f64.to_bits();
            }
            "dist" => s.dist = Some(v.to_bits()),
            _ => set_field(s, field, class % 6),
        }
        return;
    }
    match field {
        "squawk" => s.squawk = [None, Some(1000), Some(4521), Some(4521), Some(7600), Some(7700)][class],
        "altitude" => s.altitude = [None, Some(0), Some(12000), Some(12000), Some(12025), Some(40000)][class],
        "vrate" => s.vrate = [None, Some(-1920), Some(64), Some(64), Some(128), Some(3000)][class],
        "lat" => {
            let v = [0.0, -33.5, 10.2, 10.2, 10.9, 52.7][class];
            s.lat = f64::to_bits(v);
            s.lon = if class == 0 { 0f64.to_bits() } else { 7.5f64.to_bits() };
        }
        "lon" => {
            let v = [0.0, -120.5, 10.2, 10.2, 10.9, 151.2][class];
            s.lon = f64::to_bits(v);
            s.lat = if class == 0 { 0f64.to_bits() } else { 47.5f64.to_bits() };
        }
        "dist" => s.dist = [None, Some(5.0f64), Some(10.2), Some(10.2), Some(10.9), Some(300.0)][class].map(f64::to_bits),
        "category" => s.category = [(0, 0), (1, 6), (2, 7), (2, 7), (3, 0), (4, 1)][class],
        _ => {}
    }
}

fn key_of(s: &Snap, field: &str) -> K {
    match field {
        "squawk" => s.squawk.map(|v| K::Val(v as f64)).unwrap_or(K::Blank),
        "altitude" => s.altitude.map(|v| K::Val(v as f64)).unwrap_or(K::Blank),
        "vrate" => s.vrate.map(|v| K::Val(v as f64)).unwrap_or(K::Blank),
        "lat" => {
            if s.latf() == 0.0 && s.lonf() == 0.0 {
                K::Blank
            } else {
                K::Val(s.latf())
            }
        }
        "lon" => {
            if s.latf() == 0.0 && s.lonf() == 0.0 {
                K::Blank
            } else {
                K::Val(s.lonf())
            }
        }
        "dist" => s.distf().map(K::Val).unwrap_or(K::Blank),
        "category" => {
            if s.category == (0, 0) {
                K::Blank
            } else {
                K::Val((s.category.0 * 16 + s.category.1) as f64)
            }
        }
        _ => K::Blank,
    }
}

fn o_strings(maxlen: usize) -> Vec<String> {
    let mut v = vec!["".to_string(), "x".to_string(), "sx".to_string()];
    let mut cur: Vec<String> = vec![String::new()];
    for _ in 0..maxlen {
        let mut next = vec![];
        for p in &cur {
            for k in KEYS {
                let mut s = p.clone();
                s.push(k);
                next.push(s);
            }
        }
        v.extend(next.iter().cloned());
        cur = next;
    }
    v
}

fn build_table(ostr: &str, n: usize, combo: usize) -> Vec<Snap> {
    let letters: Vec<char> = ostr.chars().filter(|c| KEYS.contains(c)).collect();
    let last = letters.last().copied();
    // consecutive tables use different address sets of the same size (anything remembered from the
    // previous refresh must not leak into this one)
    let shift = if combo % 2 == 1 { 0x000100 } else { 0 };
    let mut rows: Vec<Snap> = ADDRS.iter().take(n).map(|a| base_row(*a + shift)).collect();
    // earlier letters get a fixed pattern in their own fields
    for (li, l) in letters.iter().enumerate() {
        if Some(*l) == last && li + 1 == letters.len() {
            continue;
        }
        let f = field_of(*l);
        if last.is_some_and(|x| field_of(x) == f) {
            continue;
        }
        for (ri, r) in rows.iter_mut().enumerate() {
            set_field(r, f, [2, 5, 1, 0, 4][(ri + li) % 5]);
        }
    }
    let f = last.map(field_of).unwrap_or("squawk");
    // fields that are no sort key at all take "interesting" values (alert status, a stopped surface target, an
    // obstruction category): nothing but the requested key decides order or presence
    for (ri, r) in rows.iter_mut().enumerate() {
        r.surveillance_status = ['P', 'P', 'P', ' ', 'S'][ri % 5];
        r.ground_movement = [Some(0.0f64), None, Some(15.0), Some(0.0), None][ri % 5].map(f64::to_bits);
        if f != "category" && !letters.contains(&'c') {
            r.category = [(2, 4), (2, 7), (4, 3), (2, 5), (0, 0)][ri % 5];
        }
    }
    // special squawks in rows that are not first by any key: nothing but the requested key may decide the order
    if f != "squawk" && !letters.contains(&'s') {
        for (ri, r) in rows.iter_mut().enumerate() {
            r.squawk = [Some(1200), Some(7700), Some(7500), None, Some(7600)][ri % 5];
        }
    }
    let fine = combo >= FINE_BASE;
    let mut c = combo % FINE_BASE;
    for r in rows.iter_mut() {
        set_field(r, f, if fine { 6 + c % 6 } else { c % 6 });
        c /= 6;
    }
    rows
}

thread_local! {
    /// the table printed just before on this thread (ostr, repeated, n, combo)
    static LAST: std::cell::RefCell<Option<(String, bool, usize, usize)>> = const { std::cell::RefCell::new(None) };
}

fn print_addresses(ostr: &str, repeated: bool, n: usize, combo: usize) -> (Vec<u32>, usize) {
    let rows = build_table(ostr, n, combo);
    let mut argv: Vec<String> = vec!["squitterator".into(), "-i".into(), "".into()];
    if repeated && ostr.chars().count() > 1 {
        for c in ostr.chars() {
            argv.push("-o".into());
            argv.push(c.to_string());
        }
    } else {
        argv.push("-o".into());
        argv.push(ostr.to_string());
    }
    let args = Args::try_parse_from(&argv).expect("args");
    let flags = DisplayFlags::from_arg_str("");
    let planes = Planes { aircrafts: restore(&rows) };
    let ((), out) = capture_stdout(|| planes.print(&args, &flags));
    let txt = String::from_utf8_lossy(&out);
    (txt.lines().filter_map(|l| u32::from_str_radix(l.get(0..6)?, 16).ok()).collect(), txt.lines().count())
}

fn check_table(ctx: &mut Ctx, ostr: &str, repeated: bool, n: usize, combo: usize) {
    let prev = LAST.with(|l| l.replace(Some((ostr.to_string(), repeated, n, combo))));
    let rows = build_table(ostr, n, combo);
    let mut argv: Vec<String> = vec!["squitterator".into(), "-i".into(), "".into()];
    if repeated && ostr.chars().count() > 1 {
        for c in ostr.chars() {
            argv.push("-o".into());
            argv.push(c.to_string());
        }
    } else {
        argv.push("-o".into());
        argv.push(ostr.to_string());
    }
    let args = Args::try_parse_from(&argv).expect("args");
    let flags = DisplayFlags::from_arg_str("");
    let planes = Planes { aircrafts: restore(&rows) };
    let ((), out) = capture_stdout(|| planes.print(&args, &flags));
    ctx.eval();
    ctx.count("table-printed");
    let txt = String::from_utf8_lossy(&out);
    let printed: Vec<u32> = txt.lines().filter_map(|l| u32::from_str_radix(l.get(0..6)?, 16).ok()).collect();
    let key = format!("-o {ostr:?}{} n={n} combo={combo}", if repeated { " (repeated)" } else { "" });
    let case = || json!({"o": ostr, "repeated": repeated, "n": n, "combo": combo, "prev": prev.as_ref().map(|p| json!({"o": p.0, "repeated": p.1, "n": p.2, "combo": p.3}))});
    // permutation
    let mut sorted = printed.clone();
    sorted.sort();
    let mut want: Vec<u32> = rows.iter().map(|r| r.key).collect();
    want.sort();
    if sorted != want || txt.lines().count() != rows.len() {
        ctx.violation("C15/permutation", &key, || format!("{key}: printed {printed:X?} for the table {want:X?}"), case);
        return;
    }
    let letters: Vec<char> = ostr.chars().filter(|c| KEYS.contains(c)).collect();
    match letters.last() {
        None => {
            ctx.count("address-order-checked");
            if printed != want {
                ctx.violation("C15/address-order", &key, || format!("{key}: no recognised key, rows must be in ascending address order, printed {printed:X?}"), case);
            }
        }
        Some(&l) => {
            let f = field_of(l);
            let vals: Vec<f64> = printed.iter().filter_map(|a| rows.iter().find(|r| r.key == *a)).filter_map(|r| match key_of(r, f) { K::Val(v) => Some(v), K::Blank => None }).collect();
            ctx.count("monotone-checked");
            ctx.outcome(&(l, vals.iter().map(|v| v.to_bits()).collect::<Vec<_>>()));
            let asc = vals.windows(2).all(|w| w[0] <= w[1]);
            let desc = vals.windows(2).all(|w| w[0] >= w[1]);
            let ok = match l {
                's' | 'a' => asc,
                'A' => desc,
                _ => asc || desc,
            };
            if !ok {
                ctx.violation(&format!("C15/order/{l}"), &key, || format!("{key}: key '{l}' ({f}) down the table is {vals:?} - not monotone{}", match l { 's' | 'a' => " ascending", 'A' => " descending", _ => "" }), case);
            }
        }
    }
}

/// every refresh of a continuous run lists exactly the aircraft that are in the table at that moment:
/// a 40-frame stream of 9 aircraft with -d 0 (each sweep empties the table) drawn after every frame
fn refresh_by_refresh(ctx: &mut Ctx, opts: &[&str]) {
    use crate::frames;
    use crate::run::{Cfg, join_lines, run_file};
    let mut lines: Vec<Vec<u8>> = vec![];
    for k in 0..40u32 {
        let a = 0x4CA200 + ((k * 7) % 9) * 0x101;
        lines.push(if k % 3 == 0 { frames::df11(5, a, 0) } else if k % 3 == 1 { frames::df5(a, frames::id13_for_squawk(1000 + (k % 7) * 111)) } else { frames::df4(a, frames::ac13_for_alt(1000 * (k as i32 % 30))) }.hex().into_bytes());
    }
    let mut draw: Vec<&str> = opts.to_vec();
    draw.extend(["-i", "", "--update=-1"]);
    let cfg_draw = Cfg::new(&draw);
    let cfg_quiet = Cfg::new(opts);
    let t = crate::snap::new_table();
    let (o, out) = capture_stdout(|| run_file(&cfg_draw, &join_lines(&lines), &t));
    let blocks = crate::engine::cli::blocks(&out);
    let refreshes: Vec<&String> = blocks.iter().skip(2).collect();
    ctx.eval();
    let key = format!("opts {opts:?}");
    let case = || json!({"refresh": true, "opts": opts});
    if !o.is_ok() || refreshes.len() != lines.len() {
        ctx.violation("C15/refresh-count", &key, || format!("{key}: {} refreshes for {} frames ({})", refreshes.len(), lines.len(), o.label()), case);
        return;
    }
    for k in 1..=lines.len() {
        let tq = crate::snap::new_table();
        let _ = run_file(&cfg_quiet, &join_lines(&lines[..k]), &tq);
        let mut want: Vec<u32> = crate::snap::snapshot(&tq).iter().map(|r| r.key).collect();
        want.sort();
        let mut got: Vec<u32> = refreshes[k - 1].lines().filter_map(|l| u32::from_str_radix(l.get(0..6)?, 16).ok()).collect();
        got.sort();
        ctx.count("refresh-lists-table");
        ctx.outcome(&("refresh", want.len()));
        if got != want {
            ctx.violation("C15/refresh-vs-table", &format!("{key} frame {k}"), || format!("{key}: refresh {k} lists {got:X?}, the table holds {want:X?}"), case);
            return;
        }
    }
}

fn run(ctx: &mut Ctx) {
    let thorough = ctx.tier.thorough();
    let maxn = if thorough { 5 } else { 4 };
    let mut os = o_strings(if thorough { 3 } else { 2 });
    if !thorough {
        // three-letter strings that repeat their first letter (x y x): the last letter still decides
        for x in KEYS {
            for y in KEYS {
                os.push([x, y, x].iter().collect());
            }
        }
    }
    if ctx.part == 0 {
        for opts in [&["-d", "0", "-o", "s"][..], &["-d", "0", "-o", "A", "-U"][..], &["-d", "60", "-o", "sA"][..]] {
            refresh_by_refresh(ctx, opts);
        }
    }
    let mut job = 0u64;
    for ostr in &os {
        for repeated in [false, true] {
            if repeated && ostr.chars().count() < 2 {
                continue;
            }
            job += 1;
            if !ctx.mine(job) {
                continue;
            }
            // three-letter strings: tables up to 3 rows
            let nmax = if ostr.chars().count() >= 3 { 3 } else { maxn };
            for n in 1..=nmax {
                for combo in 0..6usize.pow(n as u32) {
                    check_table(ctx, ostr, repeated, n, combo);
                }
            }
            // fine-scale neighbours of the real-valued keys (tables of 2 and 3 rows)
            if !repeated && ostr.chars().filter(|c| KEYS.contains(c)).last().is_some_and(|l| matches!(l, 'N' | 'S' | 'W' | 'E' | 'd' | 'D')) && ostr.chars().count() <= 2 {
                for n in 2..=3usize {
                    for combo in 0..6usize.pow(n as u32) {
                        ctx.count("fine-scale-table");
                        check_table(ctx, ostr, repeated, n, FINE_BASE + combo);
                    }
                }
            }
        }
    }
    // dense tables (chains of close neighbours and duplicates, 21..64 rows, scrambled address order)
    for letter in KEYS {
        for n in DENSE_NS {
            job += 1;
            if !ctx.mine(job) {
                continue;
            }
            for variant in 0..32usize {
                check_dense(ctx, letter, n, variant);
            }
        }
    }
    ctx.sample(|| json!({"o": "d", "distances": [10.9, 10.2, null], "expected": "10.2 and 10.9 in monotone order, the blank row anywhere"}));
    ctx.sample(|| json!({"o strings": os.iter().take(20).collect::<Vec<_>>()}));
    ctx.bound("-o strings", os.len());
    ctx.bound("rows", format!("1..{maxn}"));
    ctx.out.exhaustive = true;
}

fn replay(ctx: &mut Ctx, case: &Value) {
    if let Some(d) = case.get("dense") {
        let letter = d.get("letter").and_then(|x| x.as_str()).and_then(|s| s.chars().next()).unwrap_or('d');
        let n = d.get("n").and_then(|x| x.as_u64()).unwrap_or(24) as usize;
        let variant = d.get("variant").and_then(|x| x.as_u64()).unwrap_or(0) as usize;
        crate::run::say(&format!("dense table: {n} rows, key '{letter}', variant {variant}"));
        check_dense(ctx, letter, n, variant);
        return;
    }
    if case.get("refresh").is_some() {
        let opts: Vec<String> = case.get("opts").and_then(|c| c.as_array()).map(|a| a.iter().filter_map(|x| x.as_str().map(String::from)).collect()).unwrap_or_default();
        let o: Vec<&str> = opts.iter().map(|s| s.as_str()).collect();
        refresh_by_refresh(ctx, &o);
        return;
    }
    if let Some(p) = case.get("prev").filter(|p| !p.is_null()) {
        // the table that was printed just before on the same thread
        let po = p.get("o").and_then(|x| x.as_str()).unwrap_or("").to_string();
        let (a, _) = print_addresses(&po, p.get("repeated").and_then(|x| x.as_bool()).unwrap_or(false), p.get("n").and_then(|x| x.as_u64()).unwrap_or(1) as usize, p.get("combo").and_then(|x| x.as_u64()).unwrap_or(0) as usize);
        crate::run::say(&format!("printed just before on the same thread: -o {po:?} -> {a:X?}"));
    }
    let o = case.get("o").and_then(|x| x.as_str()).unwrap_or("").to_string();
    let rep = case.get("repeated").and_then(|x| x.as_bool()).unwrap_or(false);
    let n = case.get("n").and_then(|x| x.as_u64()).unwrap_or(1) as usize;
    let combo = case.get("combo").and_then(|x| x.as_u64()).unwrap_or(0) as usize;
    let rows = build_table(&o, n, combo);
    let f = o.chars().filter(|c| KEYS.contains(c)).last().map(field_of).unwrap_or("");
    crate::run::say(&format!("-o {o:?}: table {:?}", rows.iter().map(|r| (format!("{:06X}", r.key), key_of(r, f))).collect::<Vec<_>>()));
    check_table(ctx, &o, rep, n, combo);
}
