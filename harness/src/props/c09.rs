//! C09 - ground speed, track and vertical rate follow the TC19 velocity encoding (E1).

use super::Prop;
use crate::engine::sweep::{CFG4, Obs, hexline, single, sweep};
use crate::frames::{self, Frame, Vel};
use crate::refmodel::fields;
use crate::report::{Ctx, Level, Partial, Tier};
use crate::run::Cfg;
use serde_json::{Value, json};

pub static PROP: Prop = Prop { id: "C09", level, run, replay, gate, both_profiles: false, serial: false };

const BASE: u32 = 0x440001;
// sentinel previous values (3-4-5 triangle): gs 5 kt, track 36 deg, vrate +576
const S_VEW: u32 = 4;
const S_VNS: u32 = 5;
const S_VR: u32 = 10;
const S_GS: u32 = 5;
const S_TRK: u32 = 36;
const S_VRATE: i32 = 576;

fn level(t: Tier) -> Level {
    Level {
        category: "exploration",
        rule: if t.thorough() {
            "all 2x1024x2x1024 east/north sign+magnitude combinations x subtype 1,2 and all 2x512 vertical-rate codes, each as first frame and as n-th frame (row holding sentinel values) under {default,-U,-R,-U -R}; every vector has its own address and runs through the real reader thread; the eight observations of a code must agree with the reference and with each other; distinct_nontrivial = distinct (subtype, ground speed, track) / vertical-rate outcomes"
        } else {
            "cross {all 2x1024 E/W values x 20 N/S values} u {20 E/W values x all 2x1024 N/S values} x subtype 1,2 and all 2x512 vertical-rate codes, each as first frame and as n-th frame (row holding sentinel values) under {default,-U,-R,-U -R}; every vector has its own address and runs through the real reader thread; the eight observations of a code must agree with the reference and with each other; distinct_nontrivial = distinct (subtype, ground speed, track) / vertical-rate outcomes"
        },
        assumptions: vec![
            "oracle: V = +-(field-1); a component field 0 => no ground speed and no track; gs = floor(sqrt(Vew^2+Vns^2)) (subtype 2: within 4 kt of 4x); track t admissible iff the exact atan2 angle lies in [t,t+1) widened by 1e-9 deg; vrate = +-64(field-1), field 0 => none".into(),
            "on an update 'no value' admits {blank, previous value}".into(),
        ],
    }
}

fn gate(p: &Partial, t: Tier) -> Result<(), String> {
    super::default_gate(p, t)?;
    super::need(p, "velocity-value", 100_000)?;
    super::need(p, "velocity-no-information", 1000)?;
    super::need(p, "vrate-value", 4000)?;
    super::need(p, "vrate-no-information", 8)?;
    super::need(p, "eight-way-agreement", 10_000)?;
    super::need(p, "context-codes", 1000)?;
    Ok(())
}

#[derive(Clone, Copy, Debug, PartialEq, Eq, Hash)]
struct Code {
    st: u32,
    dew: u32,
    vew: u32,
    dns: u32,
    vns: u32,
    vrsign: u32,
    vr: u32,
    /// CA field of the DF17 squitter
    ca: u32,
    /// GNSS/baro difference sign and magnitude
    diffsign: u32,
    diff: u32,
    /// the row already holds this barometric altitude + 1 (0 = none)
    pre_alt: i32,
}

#[derive(Clone, Copy)]
struct V {
    c: Code,
    update: bool,
}

fn frame(c: &Code, addr: u32) -> Frame {
    frames::df17(c.ca, addr, frames::me_velocity(&Vel { st: c.st, dew: c.dew, vew: c.vew, dns: c.dns, vns: c.vns, vrsign: c.vrsign, vr: c.vr, diffsign: c.diffsign, diff: c.diff, ..Default::default() }))
}

fn lines(v: &V, addr: u32) -> Vec<Vec<u8>> {
    let mut l = vec![];
    if v.update {
        l.push(hexline(&frames::df11(5, addr, 0)));
        l.push(hexline(&frame(&Code { st: 1, dew: 0, vew: S_VEW, dns: 0, vns: S_VNS, vrsign: 0, vr: S_VR, ca: 5, diffsign: 0, diff: 0, pre_alt: 0 }, addr)));
    }
    if v.c.pre_alt > 0 {
        // the row holds a (low) barometric altitude before the velocity squitter arrives
        l.push(hexline(&frames::df4(addr, frames::ac13_for_alt(v.c.pre_alt - 1))));
    }
    if v.c.pre_alt < 0 {
        // the row holds Comm-B values before the velocity squitter arrives: capability 5, every register
        // advertised, then (-1) a BDS 6,0 with a barometric rate of +640, (-2) a BDS 6,0 whose barometric
        // rate field is "-0" so that the inertial rate (+640 / +672) is what the row shows, (-3) a BDS 5,0
        let alt = frames::ac13_for_alt(7000);
        l.push(hexline(&frames::df11(5, addr, 0)));
        l.push(hexline(&frames::df20(addr, alt, frames::mb_bds17(0xFFFFFF))));
        let b60 = |s_baro: u32, baro_sign: u32, baro: u32, ivv: u32| frames::B60 { s_hdg: 1, hdg_sign: 1, hdg: 398, s_ias: 1, ias: 280, s_mach: 1, mach: 195, s_baro, baro_sign, baro, s_ivv: 1, ivv_sign: 0, ivv };
        match v.c.pre_alt {
            -1 => l.push(hexline(&frames::df20(addr, alt, frames::mb_bds60(&b60(1, 0, 20, 20))))),
            -2 => l.push(hexline(&frames::df20(addr, alt, frames::mb_bds60(&b60(1, 1, 0, 20))))),
            -4 => l.push(hexline(&frames::df20(addr, alt, frames::mb_bds60(&b60(1, 1, 0, 21))))),
            _ => l.push(hexline(&frames::df20(addr, alt, crate::props::rowmodel::valid_bds50(false)))),
        }
    }
    l.push(hexline(&frame(&v.c, addr)));
    l
}

type O3 = (Option<u32>, Option<u32>, Option<i32>);

fn judge(ctx: &mut Ctx, cfg: &Cfg, v: &V, addr: u32, o: &Obs, vel_mode: bool) -> Option<O3> {
    ctx.eval();
    let c = &v.c;
    let path = if v.update { "update" } else { "first" };
    let case = || json!({"st": c.st, "dew": c.dew, "vew": c.vew, "dns": c.dns, "vns": c.vns, "vrsign": c.vrsign, "vr": c.vr, "update": v.update, "cfg": cfg.opts, "addr": addr, "vel_mode": vel_mode, "ca": c.ca, "diffsign": c.diffsign, "diff": c.diff, "pre_alt": c.pre_alt});
    let Obs::Row(s) = o else {
        ctx.violation(&format!("C09/run/{path}/{}", cfg.label()), &format!("{c:?}"), || format!("{}: no row / crash: {o:?}", frame(c, addr).hex()), case);
        return None;
    };
    let got: O3 = (s.grspeed, s.track, s.vrate);
    if vel_mode && (c.ca != 5 || c.diff != 0 || c.pre_alt != 0) {
        // context family: the vertical rate is judged as well
        match fields::vrate(c.vrsign, c.vr) {
            Some(want) if s.vrate != Some(want) => {
                ctx.violation(&format!("C09/vrate/{path}/{}", cfg.label()), &format!("{c:?}"), || format!("{} ({c:?}): expected {want} ft/min, row shows {:?}", frame(c, addr).hex(), s.vrate), case);
            }
            None if !(s.vrate.is_none() || (v.update && s.vrate == Some(S_VRATE))) => {
                ctx.violation(&format!("C09/vrate-noinfo/{path}/{}", cfg.label()), &format!("{c:?}"), || format!("{} ({c:?}): rate field 0; row shows {:?}", frame(c, addr).hex(), s.vrate), case);
            }
            _ => {}
        }
    }
    if vel_mode {
        let r = fields::velocity(c.dew, c.vew, c.dns, c.vns, c.st == 2);
        let key = format!("st{} ew={}{} ns={}{}", c.st, if c.dew == 1 { '-' } else { '+' }, c.vew, if c.dns == 1 { '-' } else { '+' }, c.vns);
        match (r.gs_exact, r.track_exact) {
            (Some(gs), Some(trk)) => {
                ctx.count("velocity-value");
                ctx.outcome(&(c.st, s.grspeed, s.track));
                let ok = s.grspeed.is_some_and(|g| fields::gs_ok(gs, g, c.st == 2)) && s.track.is_some_and(|t| fields::track_ok(trk, t));
                if !ok {
                    ctx.violation(
                        &format!("C09/velocity/{path}/{}", cfg.label()),
                        &key,
                        || format!("{} ({key}): expected ground speed {:.3} kt, track {:.3} deg; row shows gs {:?}, track {:?}", frame(c, addr).hex(), gs, trk, s.grspeed, s.track),
                        case,
                    );
                }
            }
            _ => {
                ctx.count("velocity-no-information");
                let ok = (s.grspeed.is_none() && s.track.is_none()) || (v.update && s.grspeed == Some(S_GS) && s.track == Some(S_TRK));
                if s.grspeed.is_some() {
                    ctx.count("lenient:kept-previous");
                }
                if !ok {
                    ctx.violation(
                        &format!("C09/velocity-noinfo/{path}/{}", cfg.label()),
                        &key,
                        || format!("{} ({key}): a component field is 0 (no information); row shows gs {:?}, track {:?}", frame(c, addr).hex(), s.grspeed, s.track),
                        case,
                    );
                }
            }
        }
    } else {
        let key = format!("vr={}{}", if c.vrsign == 1 { '-' } else { '+' }, c.vr);
        match fields::vrate(c.vrsign, c.vr) {
            Some(want) => {
                ctx.count("vrate-value");
                ctx.outcome(&("vr", s.vrate));
                if s.vrate != Some(want) {
                    ctx.violation(&format!("C09/vrate/{path}/{}", cfg.label()), &key, || format!("{} ({key}): expected {want} ft/min, row shows {:?}", frame(c, addr).hex(), s.vrate), case);
                }
            }
            None => {
                ctx.count("vrate-no-information");
                let ok = s.vrate.is_none() || (v.update && s.vrate == Some(S_VRATE));
                if !ok {
                    ctx.violation(&format!("C09/vrate-noinfo/{path}/{}", cfg.label()), &key, || format!("{} ({key}): rate field 0 (no information); row shows {:?}", frame(c, addr).hex(), s.vrate), case);
                }
            }
        }
    }
    Some(got)
}

fn ns_values() -> Vec<u32> {
    vec![0, 1, 2, 3, 4, 160, 511, 512, 1000, 1023]
}

fn velocity_codes(thorough: bool, mut f: impl FnMut(Code)) {
    for st in [1u32, 2] {
        if thorough {
            for dew in 0..2 {
                for vew in 0..1024 {
                    for dns in 0..2 {
                        for vns in 0..1024 {
                            f(Code { st, dew, vew, dns, vns, vrsign: 0, vr: 10, ca: 5, diffsign: 0, diff: 0, pre_alt: 0 });
                        }
                    }
                }
            }
        } else {
            // out of the full product: every pair whose track or ground speed lies within 5e-5 of a whole number
            // (where single precision, round-vs-floor or a different formula would change the displayed value)
            for dew in 0..2u32 {
                for vew in 1..1024u32 {
                    for dns in 0..2u32 {
                        for vns in 1..1024u32 {
                            let ew = (vew as f64 - 1.0) * if dew == 1 { -1.0 } else { 1.0 };
                            let ns = (vns as f64 - 1.0) * if dns == 1 { -1.0 } else { 1.0 };
                            let mut ang = ew.atan2(ns).to_degrees();
                            if ang < 0.0 {
                                ang += 360.0;
                            }
                            let gs = (ew * ew + ns * ns).sqrt();
                            let near = |x: f64| (x - x.round()).abs() < 5e-5 && (x - x.round()).abs() > 1e-9;
                            if near(ang) || near(gs) {
                                f(Code { st, dew, vew, dns, vns, vrsign: 0, vr: 10, ca: 5, diffsign: 0, diff: 0, pre_alt: 0 });
                            }
                        }
                    }
                }
            }
            let small = ns_values();
            for dew in 0..2 {
                for vew in 0..1024 {
                    for dns in 0..2 {
                        for &vns in &small {
                            f(Code { st, dew, vew, dns, vns, vrsign: 0, vr: 10, ca: 5, diffsign: 0, diff: 0, pre_alt: 0 });
                            f(Code { st, dew: dns, vew: vns, dns: dew, vns: vew, vrsign: 0, vr: 10, ca: 5, diffsign: 0, diff: 0, pre_alt: 0 });
                        }
                    }
                }
            }
        }
    }
}

fn run_block(ctx: &mut Ctx, cfgs: &[Cfg], codes: &[Code], vel_mode: bool) {
    // all eight (cfg, path) observations of every code
    let mut all: Vec<Vec<Option<O3>>> = vec![vec![]; codes.len()];
    for cfg in cfgs {
        for update in [false, true] {
            let items: Vec<V> = codes.iter().map(|c| V { c: *c, update }).collect();
            let mut res: Vec<(u32, Obs)> = vec![];
            sweep(cfg, &items, BASE, lines, |_, a, o| res.push((a, o.clone())));
            for (i, (a, o)) in res.iter().enumerate() {
                let g = judge(ctx, cfg, &items[i], *a, o, vel_mode);
                all[i].push(g);
            }
        }
    }
    for (i, obs) in all.iter().enumerate() {
        ctx.count("eight-way-agreement");
        let c = &codes[i];
        // compare only the quantity under test; 'no information' may legitimately differ between first (blank) and update (previous)
        let proj: Vec<Option<(Option<u32>, Option<u32>, Option<i32>)>> = obs.iter().map(|o| o.map(|(g, t, v)| if vel_mode { (g, t, None) } else { (None, None, v) })).collect();
        let noinfo = if vel_mode { c.vew == 0 || c.vns == 0 } else { c.vr == 0 };
        // observations are ordered (cfg, [first, update]): for a 'no information' code the first-frame
        // and the n-th-frame result may differ (blank vs previous value), but each must be the same
        // under every option set
        let disagree = if noinfo {
            let firsts: Vec<_> = proj.iter().step_by(2).collect();
            let updates: Vec<_> = proj.iter().skip(1).step_by(2).collect();
            firsts.windows(2).any(|w| w[0] != w[1]) || updates.windows(2).any(|w| w[0] != w[1])
        } else {
            proj.windows(2).any(|w| w[0] != w[1])
        };
        if disagree {
            ctx.violation(
                "C09/paths-disagree",
                &format!("{c:?}"),
                || format!("{}: observations differ between first/n-th frame or option sets: {proj:?}", frame(c, BASE).hex()),
                || json!({"st": c.st, "dew": c.dew, "vew": c.vew, "dns": c.dns, "vns": c.vns, "vrsign": c.vrsign, "vr": c.vr, "agree": true, "vel_mode": vel_mode, "ca": c.ca, "diffsign": c.diffsign, "diff": c.diff, "pre_alt": c.pre_alt}),
            );
        }
    }
}

fn run(ctx: &mut Ctx) {
    let cfgs: Vec<Cfg> = CFG4.iter().map(|o| Cfg::new(o)).collect();
    let mut job = 0u64;
    let mut block: Vec<Code> = Vec::with_capacity(4096);
    let mut seen_codes = 0u64;
    let thorough = ctx.tier.thorough();
    let mut pending: Vec<Vec<Code>> = vec![];
    velocity_codes(thorough, |c| {
        seen_codes += 1;
        block.push(c);
        if block.len() == 4096 {
            job += 1;
            if job % ctx.nparts == ctx.part {
                pending.push(std::mem::take(&mut block));
            } else {
                block.clear();
            }
        }
    });
    job += 1;
    if job % ctx.nparts == ctx.part && !block.is_empty() {
        pending.push(std::mem::take(&mut block));
    }
    for b in &pending {
        run_block(ctx, &cfgs, b, true);
    }
    // vertical rate: all 2 x 512 codes for both subtypes
    let mut vr_codes = vec![];
    for st in [1u32, 2] {
        for vrsign in 0..2 {
            for vr in 0..512 {
                vr_codes.push(Code { st, dew: 0, vew: 200, dns: 1, vns: 300, vrsign, vr, ca: 5, diffsign: 0, diff: 0, pre_alt: 0 });
            }
        }
    }
    // ... and the vertical-rate codes again at other speeds (the rate does not depend on how fast the
    // aircraft flies): standing still, 1 kt, around 50 kt, 120 kt, the largest speeds
    for (vew, vns) in [(1u32, 1u32), (2, 1), (36, 36), (37, 36), (50, 2), (121, 1), (1, 121), (1023, 1023), (1023, 1), (0, 0)] {
        for vrsign in 0..2 {
            for vr in 0..512 {
                vr_codes.push(Code { st: 1, dew: 1, vew, dns: 0, vns, vrsign, vr, ca: 5, diffsign: 0, diff: 0, pre_alt: 0 });
            }
        }
    }
    // ... and on rows whose vertical rate / speed came from Comm-B registers (a TC19 squitter replaces them)
    for pre_alt in [-1i32, -2, -3, -4] {
        for vrsign in 0..2 {
            for vr in 0..512 {
                vr_codes.push(Code { st: 1, dew: 0, vew: 200, dns: 1, vns: 300, vrsign, vr, ca: 5, diffsign: 0, diff: 0, pre_alt });
            }
        }
    }
    for b in vr_codes.chunks(256) {
        job += 1;
        if ctx.mine(job) {
            run_block(ctx, &cfgs, b, false);
        }
    }
    // every CA value, every GNSS/baro difference sign x {0,1,41,127}, on rows with and without a low
    // barometric altitude (pre_alt is stored +1 so that 0 means none: 1 -> 0 ft, 501 -> 500 ft)
    let mut ctx_codes = vec![];
    for st in [1u32, 2] {
        for ca in 0..8 {
            for diffsign in 0..2 {
                for diff in [0u32, 1, 41, 127] {
                    for pre_alt in [0i32, 1, 501, 3151, 36001] {
                        ctx_codes.push(Code { st, dew: 1, vew: 9, dns: 1, vns: 160, vrsign: 1, vr: 14, ca, diffsign, diff, pre_alt });
                        ctx_codes.push(Code { st, dew: 0, vew: 0, dns: 1, vns: 160, vrsign: 0, vr: 0, ca, diffsign, diff, pre_alt });
                    }
                }
            }
        }
    }
    for b in ctx_codes.chunks(128) {
        job += 1;
        if ctx.mine(job) {
            ctx.count_n("context-codes", b.len() as u64);
            run_block(ctx, &cfgs, b, true);
        }
    }
    ctx.sample(|| json!({"line": "8D485020994409940838175B284F", "meaning": "classic example: Vew=-8, Vns=-159 -> 159 kt, 182 deg, -832 ft/min"}));
    ctx.sample(|| {
        let v = V { c: Code { st: 1, dew: 1, vew: 9, dns: 1, vns: 160, vrsign: 1, vr: 14, ca: 5, diffsign: 0, diff: 0, pre_alt: 0 }, update: true };
        json!({"vector": "n-th frame", "lines": lines(&v, BASE).iter().map(|l| String::from_utf8_lossy(l).into_owned()).collect::<Vec<_>>(), "expected": {"gs": 159, "track": 182, "vrate": -832}})
    });
    ctx.bound("velocity codes per worker-sum", seen_codes);
    ctx.bound("vertical rate", "all 2 x 512 codes x subtype 1,2");
    ctx.out.exhaustive = true;
}

fn replay(ctx: &mut Ctx, case: &Value) {
    let g = |k: &str| case.get(k).and_then(|x| x.as_u64()).unwrap_or(0) as u32;
    let c = Code { st: g("st"), dew: g("dew"), vew: g("vew"), dns: g("dns"), vns: g("vns"), vrsign: g("vrsign"), vr: g("vr"), ca: case.get("ca").and_then(|x| x.as_u64()).unwrap_or(5) as u32, diffsign: g("diffsign"), diff: g("diff"), pre_alt: case.get("pre_alt").and_then(|x| x.as_i64()).unwrap_or(0) as i32 };
    let vel_mode = case.get("vel_mode").and_then(|x| x.as_bool()).unwrap_or(true);
    if case.get("agree").is_some() {
        let cfgs: Vec<Cfg> = CFG4.iter().map(|o| Cfg::new(o)).collect();
        run_block(ctx, &cfgs, &[c], vel_mode);
        return;
    }
    let opts: Vec<String> = case.get("cfg").and_then(|c| c.as_array()).map(|a| a.iter().filter_map(|x| x.as_str().map(String::from)).collect()).unwrap_or_default();
    let o: Vec<&str> = opts.iter().map(|s| s.as_str()).collect();
    let cfg = Cfg::new(&o);
    let addr = case.get("addr").and_then(|x| x.as_u64()).map(|a| a as u32).unwrap_or(BASE);
    let v = V { c, update: case.get("update").and_then(|x| x.as_bool()).unwrap_or(false) };
    let ob = single(&cfg, addr, lines(&v, addr));
    crate::run::say(&format!(
        "lines {:?} cfg [{}]: reference {:?} / vrate {:?}; row gs {:?} track {:?} vrate {:?}",
        lines(&v, addr).iter().map(|l| String::from_utf8_lossy(l).into_owned()).collect::<Vec<_>>(),
        cfg.label(),
        fields::velocity(c.dew, c.vew, c.dns, c.vns, c.st == 2),
        fields::vrate(c.vrsign, c.vr),
        ob.row().map(|s| s.grspeed),
        ob.row().map(|s| s.track),
        ob.row().map(|s| s.vrate)
    ));
    judge(ctx, &cfg, &v, addr, &ob, vel_mode);
}
