//! C12 - rows live exactly as long as the aircraft is being heard (E2, model EXPIRY).

use super::Prop;
use crate::engine::explore::{Act, Action, Model, Step, apply, explore, path_names, replay_path};
use crate::frames::{self, Frame, Vel};
use crate::refmodel::accept::{Verdict, classify_line};
use crate::report::{Ctx, Level, Partial, Tier};
use crate::run::Cfg;
use crate::snap::Snap;
use serde_json::{Value, json};
use std::collections::BTreeMap;

pub static PROP: Prop = Prop { id: "C12", level, run, replay, gate, both_profiles: false, serial: false };

const A: u32 = 0x4CA2D6;
const B: u32 = 0x3C6586;

fn level(t: Tier) -> Level {
    Level {
        category: "model_checking",
        rule: if t.thorough() { "model EXPIRY: delete_after in {1,5,60,600} x {default,-U} x 10 refreshing formats x {no filter, -f} (+ 12 sets with the table drawn after every frame); actions F(A), burst(B) (12 frames in one run: forces the sweep), one(B), filtered-out frame of A, tick in {1 s, d-1 ms, d, d+1 ms}; all sequences to depth 8" } else { "model EXPIRY: delete_after in {1,5,60,600} x {default,-U} x 10 refreshing formats x {no filter, -f} (+ 12 sets with the table drawn after every frame); actions F(A), burst(B) (12 frames in one run: forces the sweep), one(B), filtered-out frame of A, tick in {1 s, d-1 ms, d, d+1 ms}; all sequences to depth 6" },
        assumptions: vec![
            "state = canonical table snapshot + reference age of the last accepted frame per address (history variable, so liveness is judged against the true history, not the implementation's stamps)".into(),
            "elapsed time is simulated by shifting every public time stamp of every row (frozen clock); the per-run sweep counter starts at 0, so a burst of 12 accepted frames is the worst case the statement allows".into(),
            "traces_validated_against_impl counts explored transitions (each is a run of the real reader thread)".into(),
        ],
    }
}

fn gate(p: &Partial, _t: Tier) -> Result<(), String> {
    if p.states.len() < 500 {
        return Err(format!("only {} states", p.states.len()));
    }
    super::need(p, "a:refreshed-to-zero", 1000)?;
    super::need(p, "b:live-row-present", 1000)?;
    super::need(p, "c:expired-row-swept", 100)?;
    super::need(p, "c:live-row-survives-sweep", 100)?;
    super::need(p, "d:fresh-row-after-expiry", 20)?;
    super::need(p, "filtered-frame-no-refresh", 100)?;
    super::need(p, "crowded-table", 20)?;
    Ok(())
}

fn formats() -> Vec<(&'static str, u32, Frame)> {
    vec![
        ("DF11", 11, frames::df11(5, A, 0)),
        ("DF4", 4, frames::df4(A, frames::ac13_for_alt(31000))),
        ("DF5", 5, frames::df5(A, frames::id13_for_squawk(4521))),
        ("DF0", 0, frames::df0(A, frames::ac13_for_alt(31000))),
        ("DF17-ident", 17, frames::df17(5, A, frames::me_ident(4, 3, frames::callsign_codes("EIN45F")))),
        ("DF17-pos", 17, super::rowmodel::pos_frame(17, A, 11, 36000, super::rowmodel::P1, false)),
        ("DF17-vel", 17, frames::df17(5, A, frames::me_velocity(&Vel { st: 1, vew: 301, vns: 77, vr: 31, ..Default::default() }))),
        ("DF18", 18, super::rowmodel::pos_frame(18, A, 11, 2000, super::rowmodel::P2, false)),
        ("DF20", 20, frames::df20(A, frames::ac13_for_alt(7000), 0)),
        ("DF21", 21, frames::df21(A, frames::id13_for_squawk(2101), 0)),
        // refreshing frames whose effect depends on what the row already holds (see `prelude`)
        ("DF20-RA", 20, frames::df20(A, frames::ac13_for_alt(7000), frames::mb_bds30(1 << 13, 0, 0, 1, 0, 0))),
        ("DF17-surface-stopped-repeat", 17, frames::df17(5, A, frames::me_surfpos(7, 1, 0, 0, 0, 0, SURF.0, SURF.1))),
        // velocity reports a plausibility filter could dislike: supersonic (subtype 2, 4 kt steps), airspeed (subtype 3)
        ("DF17-vel-supersonic", 17, frames::df17(5, A, frames::me_velocity(&Vel { st: 2, vew: 301, vns: 201, vr: 31, ..Default::default() }))),
        ("DF17-airspeed", 17, frames::df17(5, A, frames::me_velocity(&Vel { st: 3, dew: 1, vew: 700, dns: 1, vns: 480, vr: 1, ..Default::default() }))),
    ]
}

/// CPR fields of the even surface squitter that the "stopped, repeated" format repeats
const SURF: (u32, u32) = (93006, 51380);

/// frames that are in the table before the exploration starts (the row of A exists, last heard at age 0): for the
/// RA report a capability of 5, for the repeated surface report a capability of 4 and the decoded position
fn prelude(fi: usize, rich: usize) -> Vec<Frame> {
    let mut v = rich_row(rich);
    v.extend(format_prelude(fi));
    v
}

/// Rows that hold "interesting" values in the fields a sweep or an update might consult although the property
/// gives them no say: 1 = a glider (category set B code 1) in distress (squawk 7700, permanent alert, TC28
/// emergency, ADS-B version 2), 2 = an ultralight (set B code 4) with squawk 7500, a temporary alert and SPI,
/// known on the ground. Every refreshing format is explored on each of them.
fn rich_row(rich: usize) -> Vec<Frame> {
    match rich {
        1 => vec![
            frames::df11(5, A, 0),
            frames::df17(5, A, frames::me_ident(3, 1, frames::callsign_codes("GLIDER"))),
            frames::df5(A, frames::id13_for_squawk(7700)),
            frames::df17(5, A, frames::me_tc31(2)),
            frames::df17(5, A, frames::me_tc28()),
            frames::df17(5, A, { let (la, lo) = crate::refmodel::cpr::encode(super::rowmodel::P1.0, super::rowmodel::P1.1, false); frames::me_airpos(11, 1, 0, frames::ac12_for_alt(3000), 0, 0, la, lo) }),
            frames::df21(A, frames::id13_for_squawk(7700), 0),
        ],
        2 => vec![
            frames::df11(4, A, 0),
            frames::df17(4, A, frames::me_ident(3, 4, frames::callsign_codes("ULTRA"))),
            frames::df5(A, frames::id13_for_squawk(7500)),
            frames::df17(4, A, { let (la, lo) = crate::refmodel::cpr::encode(super::rowmodel::P1.0, super::rowmodel::P1.1, true); frames::me_airpos(12, 2, 0, frames::ac12_for_alt(500), 0, 1, la, lo) }),
            frames::df17(4, A, { let (la, lo) = crate::refmodel::cpr::encode(super::rowmodel::P1.0, super::rowmodel::P1.1, false); frames::me_airpos(12, 3, 0, frames::ac12_for_alt(500), 0, 0, la, lo) }),
        ],
        _ => vec![],
    }
}

fn format_prelude(fi: usize) -> Vec<Frame> {
    match formats()[fi].0 {
        "DF20-RA" => vec![frames::df11(5, A, 0)],
        "DF17-surface-stopped-repeat" => vec![
            frames::df11(4, A, 0),
            frames::df17(5, A, frames::me_surfpos(7, 1, 0, 0, 0, 0, SURF.0, SURF.1)),
            frames::df17(5, A, frames::me_surfpos(7, 1, 0, 0, 0, 1, 90000, 49000)),
            frames::df17(5, A, frames::me_surfpos(7, 1, 0, 0, 0, 0, SURF.0, SURF.1)),
        ],
        _ => vec![],
    }
}

fn initial(p: &Params, cfg: &Cfg) -> (Vec<Snap>, Ages) {
    let pre = prelude(p.fi, p.rich);
    if pre.is_empty() {
        return (vec![], Ages::new());
    }
    let t = crate::snap::new_table();
    let lines: Vec<Vec<u8>> = pre.iter().map(|f| f.hex().into_bytes()).collect();
    let o = crate::run::run_file(cfg, &crate::run::join_lines(&lines), &t);
    assert!(o.is_ok(), "C12 prelude: {o:?}");
    let mut a = Ages::new();
    if pre.iter().any(|f| accepted(p, f.hex().as_bytes()).is_some()) {
        a.insert(A, 0);
    }
    (crate::snap::snapshot(&t), a)
}

#[derive(Clone)]
struct Params {
    d: i64,
    upd: bool,
    fi: usize,
    filter: bool,
    /// the table is drawn after every frame (-i '' --update=-1) instead of quiet
    draw: bool,
    /// which prepared row of `rich_row` the aircraft starts from (0 = none)
    rich: usize,
}

impl Params {
    fn label(&self) -> String {
        format!("d={} {} F={}{}{}{}", self.d, if self.upd { "-U" } else { "default" }, formats()[self.fi].0, if self.filter { " -f" } else { "" }, if self.draw { " draw" } else { "" }, if self.rich > 0 { format!(" row{}", self.rich) } else { String::new() })
    }
    fn opts(&self) -> Vec<String> {
        let mut o = vec!["-d".to_string(), self.d.to_string()];
        if self.draw {
            o.extend(["-i".to_string(), "".to_string(), "--update=-1".to_string(), "-c".to_string()]);
        }
        if self.upd {
            o.push("-U".into());
        }
        if self.filter {
            let fdf = formats()[self.fi].1;
            o.push("-f".into());
            o.push(fdf.to_string());
            if fdf != 17 {
                o.push("-f".into());
                o.push("17".into());
            }
        }
        o
    }
    fn filter_set(&self) -> Option<Vec<u32>> {
        if self.filter { Some(vec![formats()[self.fi].1, 17]) } else { None }
    }
    fn actions(&self) -> Vec<Action> {
        let fs = formats();
        let b = frames::df17(5, B, frames::me_ident(4, 1, frames::callsign_codes("BBBBB")));
        let mut v = vec![
            Action::line(&format!("{}(A)", fs[self.fi].0), &fs[self.fi].2),
            Action { name: "burst(B)x12".into(), act: Act::Burst(vec![b.hex().into_bytes(); 12]) },
            Action::line("one(B)", &b),
            Action::tick(1000),
            Action::tick(self.d * 1000 - 1),
            Action::tick(self.d * 1000),
            Action::tick(self.d * 1000 + 1),
        ];
        if self.filter {
            // a frame of A whose DF is not in the filter list
            let other = if fs[self.fi].1 == 5 { frames::df4(A, frames::ac13_for_alt(1000)) } else { frames::df5(A, frames::id13_for_squawk(7777)) };
            v.push(Action::line("filtered-out(A)", &other));
        }
        v
    }
}

type Ages = BTreeMap<u32, i64>;

fn accepted(p: &Params, line: &[u8]) -> Option<u32> {
    match classify_line(line) {
        Verdict::Frame { df, addr } if addr != 0 && p.filter_set().is_none_or(|f| f.contains(&df)) => Some(addr),
        _ => None,
    }
}

fn aux_step(p: &Params, aux: &Ages, a: &Action) -> Ages {
    let mut n = aux.clone();
    match &a.act {
        Act::Tick(ms) => {
            for v in n.values_mut() {
                *v += ms;
            }
        }
        Act::Line(l) => {
            if let Some(addr) = accepted(p, l) {
                n.insert(addr, 0);
            }
        }
        Act::Burst(ls) => {
            for l in ls {
                if let Some(addr) = accepted(p, l) {
                    n.insert(addr, 0);
                }
            }
        }
    }
    n
}

fn judge(ctx: &mut Ctx, p: &Params, cfg: &Cfg, st: &Step<Ages>) -> Vec<(String, String)> {
    let mut out = vec![];
    let lim = p.d * 1000;
    if !st.outcome.is_ok() {
        out.push(("crash".into(), format!("reader ended with {}", st.outcome.label())));
        return out;
    }
    let present = |rows: &[Snap], a: u32| rows.iter().find(|r| r.key == a).cloned();
    // (a) accepted frame => row present with age 0
    let lines: Vec<&Vec<u8>> = match &st.action.act {
        Act::Line(l) => vec![l],
        Act::Burst(ls) => ls.iter().collect(),
        Act::Tick(_) => vec![],
    };
    let mut any_accepted = false;
    for l in &lines {
        match accepted(p, l) {
            Some(addr) => {
                any_accepted = true;
                match present(st.post, addr) {
                    Some(r) if r.age == 0 => ctx.count("a:refreshed-to-zero"),
                    Some(r) => out.push(("a-not-refreshed".into(), format!("{:06X} just sent an accepted frame but its last-contact age is {} ms", addr, r.age))),
                    None => out.push(("a-missing".into(), format!("{:06X} just sent an accepted frame but has no row", addr))),
                }
            }
            None => {
                if lines.len() == 1 {
                    ctx.count("filtered-frame-no-refresh");
                    if st.pre != st.post {
                        out.push(("filtered-frame-changed-table".into(), "a frame excluded by -f changed the table".into()));
                    }
                }
            }
        }
    }
    // (b) heard fewer than d whole seconds ago => present
    for (addr, age) in st.post_aux.iter() {
        if *age < lim {
            if present(st.post, *addr).is_none() {
                out.push(("b-live-row-missing".into(), format!("{addr:06X} was heard {age} ms ago (< {lim}) but has no row")));
            } else {
                ctx.count("b:live-row-present");
            }
        }
    }
    // (c) after a burst of 12 accepted frames the sweep has happened
    if let Act::Burst(_) = &st.action.act {
        if any_accepted {
            for (addr, age) in st.post_aux.iter() {
                if *age >= lim {
                    if present(st.post, *addr).is_some() {
                        out.push(("c-expired-row-kept".into(), format!("{addr:06X} silent for {age} ms (>= {lim}) still has a row after 12 accepted frames")));
                    } else if present(st.pre, *addr).is_some() {
                        ctx.count("c:expired-row-swept");
                    }
                } else if *addr != B && present(st.pre, *addr).is_some() {
                    ctx.count("c:live-row-survives-sweep");
                }
            }
        }
    }
    // (d) a frame from an aircraft that is not in the table starts a fresh row
    if let Act::Line(l) = &st.action.act {
        if let Some(addr) = accepted(p, l) {
            if present(st.pre, addr).is_none() {
                let (o, fresh) = apply(cfg, &[], st.action);
                let was_known = st.pre_aux.contains_key(&addr);
                if was_known {
                    ctx.count("d:fresh-row-after-expiry");
                }
                if !o.is_ok() || present(&fresh, addr) != present(st.post, addr) {
                    out.push(("d-remembers".into(), format!("the row {addr:06X} gets from this frame differs from the row the same frame produces in an empty table")));
                }
            }
        }
    }
    ctx.outcome(&(st.action.name.as_str(), st.post.iter().map(|r| (r.key, r.age)).collect::<Vec<_>>()));
    // (e) size bound
    let live = st.post_aux.values().filter(|a| **a < lim).count();
    if st.post.len() > live + 12 {
        out.push(("e-size".into(), format!("{} rows for {live} addresses heard within delete_after", st.post.len())));
    }
    // rows never appear for addresses never heard
    for r in st.post {
        if !st.post_aux.contains_key(&r.key) {
            out.push(("phantom-row".into(), format!("row {:06X} exists but no accepted frame of it was ever fed", r.key)));
        }
    }
    out
}

fn param_sets() -> Vec<Params> {
    let mut v = vec![];
    for d in [1i64, 5, 60, 600] {
        for upd in [false, true] {
            for fi in 0..formats().len() {
                for filter in [false, true] {
                    v.push(Params { d, upd, fi, filter, draw: false, rich: 0 });
                }
                if (d == 1 || d == 60) && matches!(fi, 0 | 4 | 8) {
                    v.push(Params { d, upd, fi, filter: false, draw: true, rich: 0 });
                }
            }
        }
    }
    v
}

/// every refreshing format on each prepared row (explored one level less deep)
fn rich_param_sets() -> Vec<Params> {
    let mut v = vec![];
    for rich in [1usize, 2] {
        for d in [1i64, 60] {
            for upd in [false, true] {
                for fi in 0..formats().len() {
                    v.push(Params { d, upd, fi, filter: false, draw: false, rich });
                }
            }
        }
    }
    v
}

fn run_one(ctx: &mut Ctx, p: &Params, depth: usize) {
    let o = p.opts();
    let ov: Vec<&str> = o.iter().map(|s| s.as_str()).collect();
    let cfg = Cfg::new(&ov);
    let actions = p.actions();
    let (init_rows, init_ages) = initial(p, &cfg);
    let model = Model { cfg: &cfg, actions: &actions, depth, init: init_rows, aux0: init_ages };
    let (part, nparts) = (ctx.part, ctx.nparts);
    ctx.part = 0;
    ctx.nparts = 1;
    explore(ctx, &model, |aux, _pre, a, _post| aux_step(p, aux, a), |ctx, st| {
        ctx.out.traces_validated += 1;
        for (suffix, msg) in judge(ctx, p, &cfg, st) {
            let names = path_names(&actions, st.path);
            let path = st.path.to_vec();
            ctx.violation(
                &format!("C12/{suffix}/{}", p.label()),
                &names.join(" > "),
                || format!("[{}] after [{}]: {msg}", p.label(), names.join(" > ")),
                || json!({"d": p.d, "upd": p.upd, "fi": p.fi, "filter": p.filter, "draw": p.draw, "rich": p.rich, "path": path, "depth": depth}),
            );
        }
    });
    ctx.part = part;
    ctx.nparts = nparts;
}

fn run(ctx: &mut Ctx) {
    let depth = if ctx.tier.thorough() { 8 } else { 6 };
    for (i, p) in param_sets().iter().enumerate() {
        if ctx.mine(i as u64) {
            run_one(ctx, p, depth);
        }
    }
    for (i, p) in rich_param_sets().iter().enumerate() {
        if ctx.mine(5_000 + i as u64) {
            ctx.count("prepared-row parameter set");
            run_one(ctx, p, depth - 1);
        }
    }
    // crowded tables: n live aircraft and one that has been silent for delete_after seconds; after 12
    // accepted frames (one run) the silent one is gone and every live one is still there
    for (k, n) in [1usize, 10, 80, 87, 88, 89, 100, 500, 2000].iter().enumerate() {
        if !ctx.mine(10_000 + k as u64) {
            continue;
        }
        for (d, upd) in [(60i64, false), (1, true), (600, false)] {
            let mut o = vec!["-d".to_string(), d.to_string()];
            if upd {
                o.push("-U".into());
            }
            let ov: Vec<&str> = o.iter().map(|s| s.as_str()).collect();
            let cfg = Cfg::new(&ov);
            // build the table through the reader: n aircraft (DF11), then the one that will fall silent
            let mut lines: Vec<Vec<u8>> = (0..*n as u32).map(|i| frames::df11(5, 0x400000 + i, 0).hex().into_bytes()).collect();
            lines.push(frames::df11(5, A, 0).hex().into_bytes());
            let t = crate::snap::new_table();
            let _ = crate::run::run_file(&cfg, &crate::run::join_lines(&lines), &t);
            let mut rows = crate::snap::snapshot(&t);
            for r in rows.iter_mut() {
                if r.key == A {
                    r.tick(d * 1000);
                } else {
                    r.tick(((d - 1) * 1000).max(0));
                }
            }
            let b = frames::df17(5, B, frames::me_ident(4, 1, frames::callsign_codes("BBBBB")));
            let t2 = crate::snap::restore(&rows);
            let oc = crate::run::run_file(&cfg, &crate::run::join_lines(&vec![b.hex().into_bytes(); 12]), &t2);
            let after = crate::snap::snapshot(&t2);
            ctx.eval();
            ctx.count("crowded-table");
            let silent_gone = !after.iter().any(|r| r.key == A);
            let live_kept = rows.iter().filter(|r| r.key != A).all(|r| after.iter().any(|x| x.key == r.key));
            if !oc.is_ok() || !silent_gone || !live_kept {
                ctx.violation(
                    &format!("C12/crowded/d={d}{}", if upd { " -U" } else { "" }),
                    &format!("{n} live aircraft"),
                    || format!("{n} live aircraft (heard {} s ago) and one silent for {d} s, then 12 accepted frames: silent aircraft removed: {silent_gone}; all live aircraft kept: {live_kept}; {} rows", (d - 1).max(0), after.len()),
                    || json!({"crowded": n, "d": d, "upd": upd}),
                );
            }
        }
    }
    // other epochs: "now" just after midnight at the end of a year, just after the 32-bit time_t wrap, late on
    // a leap day, and with a sub-second part - the simulated silences reach back across those boundaries
    let mut ej = 20_000u64;
    for (es, ens, _) in crate::shim::EPOCH_VARIANTS {
        for p in param_sets().iter().filter(|p| (p.d == 1 || p.d == 5) && p.fi < 2 && !p.filter && !p.draw) {
            ej += 1;
            if !ctx.mine(ej) {
                continue;
            }
            crate::shim::set_epoch(es, ens);
            ctx.count("epoch-variant parameter set");
            run_one(ctx, p, depth - 1);
            crate::shim::reset_epoch();
        }
    }
    // through the real binary, with a moving clock (what main() does to -d/-u before they reach the reader)
    if let Err(e) = crate::engine::cli::available() {
        ctx.machinery(e);
    } else {
        super::clitimed::run_all(ctx, "C12", 30_000);
    }
    ctx.sample(|| json!({"params": "d=5 default F=DF4", "history": ["DF4(A)", "tick 4999 ms", "DF4(A)", "tick 5000 ms", "burst(B)x12"], "expected": "A present with age 0 after step 3; A absent after the burst"}));
    ctx.bound("depth", depth);
    ctx.bound("parameter sets", param_sets().len());
    ctx.out.exhaustive = true;
}

fn replay(ctx: &mut Ctx, case: &Value) {
    if super::clitimed::replay(ctx, "C12", case) {
        return;
    }
    if let Some(n) = case.get("crowded").and_then(|x| x.as_u64()) {
        let d = case.get("d").and_then(|x| x.as_i64()).unwrap_or(60);
        let upd = case.get("upd").and_then(|x| x.as_bool()).unwrap_or(false);
        let mut o = vec!["-d".to_string(), d.to_string()];
        if upd {
            o.push("-U".into());
        }
        let ov: Vec<&str> = o.iter().map(|s| s.as_str()).collect();
        let cfg = Cfg::new(&ov);
        let mut lines: Vec<Vec<u8>> = (0..n as u32).map(|i| frames::df11(5, 0x400000 + i, 0).hex().into_bytes()).collect();
        lines.push(frames::df11(5, A, 0).hex().into_bytes());
        let t = crate::snap::new_table();
        let _ = crate::run::run_file(&cfg, &crate::run::join_lines(&lines), &t);
        let mut rows = crate::snap::snapshot(&t);
        for r in rows.iter_mut() {
            if r.key == A { r.tick(d * 1000); } else { r.tick(((d - 1) * 1000).max(0)); }
        }
        let b = frames::df17(5, B, frames::me_ident(4, 1, frames::callsign_codes("BBBBB")));
        let t2 = crate::snap::restore(&rows);
        let _ = crate::run::run_file(&cfg, &crate::run::join_lines(&vec![b.hex().into_bytes(); 12]), &t2);
        let after = crate::snap::snapshot(&t2);
        let silent_gone = !after.iter().any(|r| r.key == A);
        let live_kept = rows.iter().filter(|r| r.key != A).all(|r| after.iter().any(|x| x.key == r.key));
        crate::run::say(&format!("{n} live aircraft + one silent for {d} s, then 12 accepted frames: silent removed {silent_gone}, live kept {live_kept}"));
        if !silent_gone || !live_kept {
            ctx.violation("C12/crowded", "replay", || "crowded table sweep".into(), || case.clone());
        }
        return;
    }
    let p = Params {
        d: case.get("d").and_then(|x| x.as_i64()).unwrap_or(60),
        upd: case.get("upd").and_then(|x| x.as_bool()).unwrap_or(false),
        fi: case.get("fi").and_then(|x| x.as_u64()).unwrap_or(0) as usize,
        filter: case.get("filter").and_then(|x| x.as_bool()).unwrap_or(false),
        draw: case.get("draw").and_then(|x| x.as_bool()).unwrap_or(false),
        rich: case.get("rich").and_then(|x| x.as_u64()).unwrap_or(0) as usize,
    };
    let depth = case.get("depth").and_then(|x| x.as_u64()).unwrap_or(5) as usize;
    let path: Vec<usize> = case.get("path").and_then(|p| p.as_array()).map(|a| a.iter().filter_map(|x| x.as_u64().map(|v| v as usize)).collect()).unwrap_or_default();
    let o = p.opts();
    let ov: Vec<&str> = o.iter().map(|s| s.as_str()).collect();
    let cfg = Cfg::new(&ov);
    let actions = p.actions();
    let (init_rows, init_ages) = initial(&p, &cfg);
    let model = Model { cfg: &cfg, actions: &actions, depth, init: init_rows, aux0: init_ages };
    crate::run::say(&format!("model EXPIRY [{}]", p.label()));
    replay_path(ctx, &model, &path, |aux, _pre, a, _post| aux_step(&p, aux, a), |ctx, st| {
        for (suffix, msg) in judge(ctx, &p, &cfg, st) {
            crate::run::say(&format!("  oracle [{suffix}]: {msg}"));
            ctx.violation(&format!("C12/{suffix}/{}", p.label()), "replay", || msg.clone(), || case.clone());
        }
    });
}
