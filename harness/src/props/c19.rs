//! C19 - presentation options never change what is decoded; -U is decode-neutral.
//! E2 differential: both option sets are stepped in lock-step; the compared projection
//! must be equal after every step.

use super::Prop;
use super::rowmodel;
use crate::engine::cli;
use crate::engine::explore::{Action, Model, apply, explore, path_names, replay_path};
use crate::report::{Ctx, Level, Partial, Tier};
use crate::run::{Cfg, run_file};
use crate::snap::{Snap, new_table, snapshot};
use serde_json::{Value, json};

pub static PROP: Prop = Prop { id: "C19", level, run, replay, gate, both_profiles: false, serial: false };

fn level(t: Tier) -> Level {
    Level {
        category: "model_checking",
        rule: if t.thorough() { "lock-step product over model ROW (2 aircraft): base in {default,-U,-R} against base + each of {-i '', -i aAews, -i e, -o dV, -o N, -c, -u -1, -u 0, -D file, -O other, -i '' -u -1, -i aAews -u -1 -c -o dV} to depth 3; default vs -U on the valid-value DF4/5/11/17 sub-alphabet (40 actions incl. ticks and boundary-valued frames: squawk 0000, 0 ft, 0 kt, 0 ft/min) to depth 4; the five bundled recordings as long histories under every presentation pair (in-process and through the release CLI)" } else { "lock-step product over model ROW (2 aircraft): base in {default,-U,-R} against base + each of {-i '', -i aAews, -i e, -o dV, -o N, -c, -u -1, -u 0, -D file, -O other, -i '' -u -1, -i aAews -u -1 -c -o dV} to depth 2; default vs -U on the valid-value DF4/5/11/17 sub-alphabet (40 actions incl. ticks and boundary-valued frames: squawk 0000, 0 ft, 0 kt, 0 ft/min) to depth 3; the five bundled recordings as long histories under every presentation pair (in-process and through the release CLI)" },
        assumptions: vec![
            "presentation pairs: tables must be bit-identical after every step (distance excluded for -O); -U pair: callsign, altitude, squawk, position, ground speed, track, vertical rate, category, surveillance status must be equal".into(),
            "in-process runs apply -O the way main() does (set_observer_coords_from_str before the reader starts); -M/-l are exercised through the CLI".into(),
            "traces_validated_against_impl = CLI runs whose final table was compared between option sets".into(),
        ],
    }
}

fn gate(p: &Partial, _t: Tier) -> Result<(), String> {
    if p.states.len() < 1000 {
        return Err(format!("only {} product states", p.states.len()));
    }
    super::need(p, "presentation-pair-step", 10_000)?;
    super::need(p, "U-pair-step", 10_000)?;
    super::need(p, "U-pair-step:state-changed", 1000)?;
    super::need(p, "recording-pair", 20)?;
    super::need(p, "sweep-family-pair", 20)?;
    if p.traces_validated < 10 {
        return Err("fewer than 10 CLI comparisons".into());
    }
    Ok(())
}

fn variants(scratch: &std::path::Path) -> Vec<(&'static str, Vec<String>)> {
    let s = |v: &[&str]| v.iter().map(|x| x.to_string()).collect::<Vec<_>>();
    vec![
        ("-i ''", s(&["-i", ""])),
        ("-i aAews", s(&["-i", "aAews"])),
        ("-i e", s(&["-i", "e"])),
        ("-o dV", s(&["-o", "dV"])),
        ("-o N", s(&["-o", "N"])),
        ("-c", s(&["-c"])),
        ("-u -1", s(&["--update=-1"])),
        ("-u 0", s(&["-u", "0"])),
        ("-D file", vec!["-D".into(), scratch.join("dl.log").to_string_lossy().into_owned()]),
        ("-O other", s(&["--observer-coord=-33.9, 151.2"])),
        // combinations: the table is really drawn after every frame
        ("-i '' -u -1", s(&["-i", "", "--update=-1"])),
        ("-i aAews -u -1 -c -o dV", s(&["-i", "aAews", "--update=-1", "-c", "-o", "dV"])),
    ]
}

fn mkcfg(base: &[&str], extra: &[String]) -> Cfg {
    let mut o: Vec<&str> = base.to_vec();
    o.extend(extra.iter().map(|s| s.as_str()));
    Cfg::new(&o)
}

fn set_observer_like_main(cfg: &Cfg) {
    if let Some(c) = &cfg.args.observer_coord {
        squitterator::set_observer_coords_from_str(c);
    }
}

fn mask_dist(rows: &[Snap]) -> Vec<Snap> {
    rows.iter()
        .map(|r| {
            let mut x = r.clone();
            x.dist = None;
            x
        })
        .collect()
}

#[derive(Clone, Debug, PartialEq)]
struct Proj(Vec<(u32, Option<String>, Option<u32>, Option<u32>, u64, u64, Option<u32>, Option<u32>, Option<i32>, (u32, u32), char)>);

fn project(rows: &[Snap]) -> Proj {
    Proj(rows.iter().map(|r| (r.key, r.ais.clone(), r.altitude, r.squawk, r.lat, r.lon, r.grspeed, r.track, r.vrate, r.category, r.surveillance_status)).collect())
}

/// the valid-value DF4/5/11/17 sub-alphabet of model ROW
/// valid frames whose carried value is the boundary "zero" of its encoding
fn boundary_actions() -> Vec<Action> {
    use crate::frames::{self, Vel};
    let a = rowmodel::ADDR[0];
    vec![
        Action::line("A:DF5 0000", &frames::df5(a, frames::id13_for_squawk(0))),
        Action::line("A:DF4 0ft", &frames::df4(a, frames::ac13_for_alt(0))),
        Action::line("A:TC11 0ft even p1", &rowmodel::pos_frame(17, a, 11, 0, rowmodel::P1, false)),
        Action::line("A:TC19 0kt 0fpm", &frames::df17(5, a, frames::me_velocity(&Vel { st: 1, vew: 1, vns: 1, vr: 1, ..Default::default() }))),
        Action::line("A:TC19 north 1kt", &frames::df17(5, a, frames::me_velocity(&Vel { st: 1, vew: 1, vns: 2, vrsign: 1, vr: 2, ..Default::default() }))),
        Action::line("A:TC1 cat0 callsign A", &frames::df17(0, a, frames::me_ident(1, 0, frames::callsign_codes("A")))),
        // an aircraft on the Greenwich meridian: the CPR longitude bits of its even frame are all zero
        Action::line("A:TC11 even on the prime meridian", &rowmodel::pos_frame(17, a, 11, 36000, (rowmodel::P1.0, 0.0), false)),
        // position squitters with GNSS height (type code 20): whatever they do to the position, both paths do the same
        Action::line("A:TC20 even p1", &rowmodel::pos_frame(17, a, 20, 36000, rowmodel::P1, false)),
        Action::line("A:TC20 odd p1", &rowmodel::pos_frame(17, a, 20, 36000, rowmodel::P1, true)),
    ]
}

/// a second, small default/-U alphabet explored one level deeper: surveillance-status values of the position
/// squitter around identity replies, and surface reports whose pairs do and do not agree
fn status_alphabet() -> Vec<Action> {
    use crate::frames;
    let a = rowmodel::ADDR[0];
    let air = |ss: u32, odd: bool| {
        let (la, lo) = crate::refmodel::cpr::encode(rowmodel::P1.0, rowmodel::P1.1, odd);
        frames::df17(5, a, frames::me_airpos(11, ss, 0, frames::ac12_for_alt(36000), 0, odd as u32, la, lo))
    };
    let mut v = vec![
        Action::line("A:TC11 even SS0", &air(0, false)),
        Action::line("A:TC11 odd SS1 permanent alert", &air(1, true)),
        Action::line("A:TC11 even SS2 temporary alert", &air(2, false)),
        Action::line("A:TC11 odd SS3 SPI", &air(3, true)),
        Action::line("A:DF5 5611", &frames::df5(a, frames::id13_for_squawk(5611))),
        Action::line("A:DF5 7700", &frames::df5(a, frames::id13_for_squawk(7700))),
        Action::line("A:surface even", &frames::df17(5, a, frames::me_surfpos(7, 1, 0, 0, 0, 0, 93006, 51380))),
        Action::line("A:surface even elsewhere", &frames::df17(5, a, frames::me_surfpos(7, 1, 0, 0, 0, 0, 30011, 51380))),
    ];
    for yz in [90000u32, 20000, 60000, 110000, 5000, 125000] {
        v.push(Action::line(&format!("A:surface odd lat-bits {yz}"), &frames::df17(5, a, frames::me_surfpos(7, 1, 0, 0, 0, 1, yz, 49000))));
    }
    v
}

fn alphabet_named(name: &str) -> Vec<Action> {
    if name == "status" { status_alphabet() } else { u_alphabet() }
}

fn u_alphabet() -> Vec<Action> {
    let mut v = u_alphabet_base();
    v.extend(boundary_actions());
    v
}

fn u_alphabet_base() -> Vec<Action> {
    let keep = ["DF11 CA5", "DF4 31000ft", "DF4 9000ft", "DF5 4521", "DF5 1000", "TC4 EIN45F cat3", "TC4 RYR9AB cat5", "TC4 EIN45F cat5", "TC11 even p1", "TC11 odd p1", "TC11 even p2", "TC11 odd p2", "TC6 surface", "TC19 v1", "TC19 v2", "TC19 st2 supersonic", "TC19 st3", "TC29", "TC31 v2"];
    rowmodel::row_alphabet(2).into_iter().filter(|a| a.name.starts_with("tick") || keep.iter().any(|k| a.name.split_once(':').is_some_and(|(_, n)| n == *k))).collect()
}

fn run_presentation(ctx: &mut Ctx, base: &[&str], depth: usize) {
    let scratch = crate::run::scratch_dir().clone();
    let cbase = mkcfg(base, &[]);
    let vars: Vec<(&str, Cfg)> = variants(&scratch).into_iter().map(|(n, e)| (n, mkcfg(base, &e))).collect();
    let actions = rowmodel::row_alphabet(2);
    let model = Model { cfg: &cbase, actions: &actions, depth, init: vec![], aux0: () };
    set_observer_like_main(&cbase);
    explore(ctx, &model, |_, _, _, _| (), |ctx, st| {
        for (name, vcfg) in &vars {
            set_observer_like_main(vcfg);
            let (o, post) = apply(vcfg, st.pre, st.action);
            ctx.count("presentation-pair-step");
            let same = if *name == "-O other" { mask_dist(&post) == mask_dist(st.post) } else { post == st.post };
            if o != *st.outcome || !same {
                let names = path_names(&actions, st.path);
                let path = st.path.to_vec();
                let d = post.iter().zip(st.post.iter()).filter(|(a, b)| a != b).map(|(a, b)| crate::snap::diff_fields(b, a).join("; ")).collect::<Vec<_>>().join(" | ");
                ctx.violation(
                    &format!("C19/presentation/{name}/base {}", cbase.label()),
                    &names.join(" > "),
                    || format!("after [{}]: table under [{}] differs from table under [{}]: {d}", names.join(" > "), vcfg.label(), cbase.label()),
                    || json!({"kind": "presentation", "base": base, "variant": name, "path": path, "depth": depth}),
                );
            }
        }
        set_observer_like_main(&cbase);
    });
    ctx.bound(&format!("presentation pairs, base [{}]", cbase.label()), format!("depth {depth}, {} actions x {} variants", actions.len(), vars.len()));
}

fn run_u_pair(ctx: &mut Ctx, depth: usize, alphabet: &str) {
    let cd = Cfg::new(&[]);
    let cu = Cfg::new(&["-U"]);
    let actions = alphabet_named(alphabet);
    let model = Model { cfg: &cd, actions: &actions, depth, init: vec![], aux0: Vec::<Snap>::new() };
    squitterator::set_observer_coords_from_str(rowmodel::OBSERVER_STR);
    explore(ctx, &model, |aux, _pre, a, _post| apply(&cu, aux, a).1, |ctx, st| {
        ctx.count("U-pair-step");
        ctx.outcome(&(st.action.name.as_str(), st.pre != st.post));
        if st.pre != st.post {
            ctx.count("U-pair-step:state-changed");
        }
        let (pd, pu) = (project(st.post), project(st.post_aux));
        if pd != pu {
            let names = path_names(&actions, st.path);
            let path = st.path.to_vec();
            let d: Vec<String> = pd.0.iter().zip(pu.0.iter()).filter(|(a, b)| a != b).map(|(a, b)| format!("default {a:?} vs -U {b:?}")).collect();
            ctx.violation(
                "C19/U-pair",
                &names.join(" > "),
                || format!("after [{}]: {}", names.join(" > "), d.join(" | ")),
                || json!({"kind": "upair", "alphabet": alphabet, "path": path, "depth": depth}),
            );
        }
    });
    ctx.bound(&format!("default vs -U ({alphabet} alphabet)"), format!("depth {depth}, {} actions", actions.len()));
}

const RECORDINGS: [&str; 5] = ["squitters.txt", "sbs2.txt", "raw2.txt", "sbs1.txt", "df24.txt"];

fn rec_cfg(base: &[&str], extra: &[String], rec: &str) -> Cfg {
    let mut c = mkcfg(base, extra);
    c.path = std::path::PathBuf::from(format!("/repo/rec/{rec}"));
    let mut argv: Vec<String> = vec!["squitterator".into(), "-s".into(), c.path.to_string_lossy().into_owned()];
    let mut opts: Vec<String> = base.iter().map(|s| s.to_string()).collect();
    opts.extend(extra.iter().cloned());
    if !opts.iter().any(|o| o == "-i") {
        argv.extend(["-i".into(), "Q".into()]);
    }
    argv.extend(opts);
    use clap::Parser;
    c.args = std::sync::Arc::new(squitterator::Args::try_parse_from(&argv).expect("args"));
    c
}

fn run_recording(cfg: &Cfg) -> (crate::run::Outcome, Vec<Snap>) {
    crate::run::describe_current(&format!("C19 recording {} under [{}]", cfg.path.display(), cfg.label()));
    set_observer_like_main(cfg);
    let t = new_table();
    let o = crate::run::run_path(cfg, &t);
    (o, snapshot(&t))
}

/// rows of the last refresh of a CLI run (text lines between the separators)
fn last_table(out: &[u8]) -> Option<Vec<String>> {
    let b = cli::blocks(out);
    let last = b.last()?;
    let lines: Vec<&str> = last.lines().collect();
    let seps: Vec<usize> = lines.iter().enumerate().filter(|(_, l)| l.starts_with("------")).map(|(i, _)| i).collect();
    if seps.len() < 2 {
        return None;
    }
    Some(lines[seps[0] + 1..seps[1]].iter().map(|s| s.to_string()).collect())
}

fn run_recordings(ctx: &mut Ctx, job: &mut u64) {
    let scratch = crate::run::scratch_dir().clone();
    for rec in RECORDINGS {
        for base in [&[][..], &["-U"][..], &["-R"][..]] {
            *job += 1;
            if !ctx.mine(*job) {
                continue;
            }
            let (ob, rb) = run_recording(&rec_cfg(base, &[], rec));
            for (name, extra) in variants(&scratch) {
                // drawing the whole table after every frame of a 100 k-line recording takes minutes:
                // the draw-every-frame combinations run on the short recordings only
                if extra.iter().any(|x| x == "--update=-1") && extra.len() > 1 && matches!(rec, "squitters.txt" | "sbs2.txt") {
                    continue;
                }
                let (ov, rv) = run_recording(&rec_cfg(base, &extra, rec));
                ctx.eval();
                ctx.count("recording-pair");
                ctx.outcome(&(rec, rb.len()));
                let same = if name == "-O other" { mask_dist(&rv) == mask_dist(&rb) } else { rv == rb };
                if ov != ob || !same {
                    ctx.violation(
                        &format!("C19/recording/{name}"),
                        &format!("{rec}/base {}", base.join(" ")),
                        || format!("recording {rec}: table under base+{name} differs from base [{}] ({} vs {} rows, outcomes {} / {})", base.join(" "), rv.len(), rb.len(), ov.label(), ob.label()),
                        || json!({"kind": "recording", "rec": rec, "base": base, "variant": name}),
                    );
                }
            }
        }
        // CLI: final table under --update=-1 must not depend on -c / -M -l / -D / -o (as a set) / -O (distance column)
        *job += 1;
        if ctx.mine(*job) && rec != "squitters.txt" {
            let content = std::fs::read(format!("/repo/rec/{rec}")).unwrap_or_default();
            let basec = match cli::run_cli(true, &["--update=-1"], &content, "c19") {
                Ok(c) => c,
                Err(e) => {
                    ctx.machinery(e);
                    return;
                }
            };
            let Some(bt) = last_table(&basec.stdout) else {
                continue;
            };
            let logf = scratch.join("err.log").to_string_lossy().into_owned();
            let dlf = scratch.join("dl2.log").to_string_lossy().into_owned();
            let cli_vars: Vec<(&str, Vec<String>)> = vec![
                ("-c", vec!["-c".into()]),
                ("-M 17 -l file", vec!["-M".into(), "17".into(), "-l".into(), logf]),
                ("-D file", vec!["-D".into(), dlf]),
                ("-o N", vec!["-o".into(), "N".into()]),
            ];
            for (name, extra) in cli_vars {
                let mut o: Vec<&str> = vec!["--update=-1"];
                o.extend(extra.iter().map(|s| s.as_str()));
                match cli::run_cli(true, &o, &content, "c19") {
                    Ok(c) => {
                        ctx.out.traces_validated += 1;
                        ctx.eval();
                        let vt = last_table(&c.stdout).unwrap_or_default();
                        let (mut a, mut b) = (bt.clone(), vt.clone());
                        a.sort();
                        b.sort();
                        if c.code != Some(0) || a != b {
                            ctx.violation(&format!("C19/cli/{name}"), rec, || format!("recording {rec}: final CLI table with {name} differs from the table without it (exit {:?}, {} vs {} rows)", c.code, vt.len(), bt.len()), || json!({"kind": "cli", "rec": rec, "variant": name}));
                        }
                    }
                    Err(e) => ctx.machinery(e),
                }
            }
        }
    }
}

/// a 30-frame stream of 6 aircraft with -d 0: every sweep empties the table, so the final table
/// shows when the sweeps happened; presentation options must not move them
fn run_sweep_family(ctx: &mut Ctx, job: &mut u64) {
    use crate::frames;
    let scratch = crate::run::scratch_dir().clone();
    let mut lines: Vec<Vec<u8>> = vec![];
    for k in 0..30u32 {
        let a = 0x400200 + (k % 6);
        lines.push(if k % 2 == 0 { frames::df11(5, a, 0) } else { frames::df4(a, frames::ac13_for_alt(500 * (1 + k as i32))) }.hex().into_bytes());
    }
    let content = crate::run::join_lines(&lines);
    for base in [&["-d", "0"][..], &["-d", "0", "-U"][..]] {
        *job += 1;
        if !ctx.mine(*job) {
            continue;
        }
        let cb = mkcfg(base, &[]);
        set_observer_like_main(&cb);
        let tb = new_table();
        let ob = run_file(&cb, &content, &tb);
        let rb = snapshot(&tb);
        for (name, extra) in variants(&scratch) {
            let cv = mkcfg(base, &extra);
            set_observer_like_main(&cv);
            let tv = new_table();
            let ov = run_file(&cv, &content, &tv);
            let rv = snapshot(&tv);
            ctx.eval();
            ctx.count("sweep-family-pair");
            if ov != ob || mask_dist(&rv) != mask_dist(&rb) {
                ctx.violation(
                    &format!("C19/sweep/{name}"),
                    &format!("base {}", base.join(" ")),
                    || format!("30-frame stream with [{}]: {} rows ({:X?}); with {name} added: {} rows ({:X?})", base.join(" "), rb.len(), rb.iter().map(|r| r.key).collect::<Vec<_>>(), rv.len(), rv.iter().map(|r| r.key).collect::<Vec<_>>()),
                    || json!({"kind": "sweep", "base": base, "variant": name}),
                );
            }
        }
    }
}

fn run(ctx: &mut Ctx) {
    if let Err(e) = cli::available() {
        ctx.machinery(e);
        return;
    }
    let thorough = ctx.tier.thorough();
    for base in [&[][..], &["-U"][..], &["-R"][..]] {
        run_presentation(ctx, base, if thorough { 3 } else { 2 });
    }
    run_u_pair(ctx, if thorough { 4 } else { 3 }, "row");
    run_u_pair(ctx, if thorough { 5 } else { 4 }, "status");
    let mut job = 0u64;
    run_sweep_family(ctx, &mut job);
    run_recordings(ctx, &mut job);
    // -u through the real binary with a moving clock: the table must not depend on the refresh interval
    if crate::engine::cli::available().is_ok() {
        super::clitimed::run_all(ctx, "C19", 700_000);
    }
    ctx.sample(|| json!({"pair": ["default", "default + -c"], "history": ["A:DF11 CA5", "B:TC19 v1"], "expected": "bit-identical tables after every step"}));
    ctx.sample(|| json!({"pair": ["default", "-U"], "history": ["A:TC11 even p1", "tick 4000 ms", "A:TC11 odd p1", "A:TC19 v1"], "expected": "equal callsign/altitude/squawk/position/speed/track/vrate/category/status"}));
    ctx.out.exhaustive = true;
}

fn replay(ctx: &mut Ctx, case: &Value) {
    if super::clitimed::replay(ctx, "C19", case) {
        return;
    }
    let path: Vec<usize> = case.get("path").and_then(|p| p.as_array()).map(|a| a.iter().filter_map(|x| x.as_u64().map(|v| v as usize)).collect()).unwrap_or_default();
    let depth = case.get("depth").and_then(|x| x.as_u64()).unwrap_or(3) as usize;
    match case.get("kind").and_then(|x| x.as_str()) {
        Some("upair") => {
            let cd = Cfg::new(&[]);
            let cu = Cfg::new(&["-U"]);
            let actions = alphabet_named(case.get("alphabet").and_then(|x| x.as_str()).unwrap_or("row"));
            let model = Model { cfg: &cd, actions: &actions, depth, init: vec![], aux0: Vec::<Snap>::new() };
            squitterator::set_observer_coords_from_str(rowmodel::OBSERVER_STR);
            replay_path(ctx, &model, &path, |aux, _pre, a, _post| apply(&cu, aux, a).1, |ctx, st| {
                let (pd, pu) = (project(st.post), project(st.post_aux));
                crate::run::say(&format!("  default: {pd:?}\n  -U     : {pu:?}"));
                if pd != pu {
                    ctx.violation("C19/U-pair", "replay", || "projections differ".into(), || case.clone());
                }
            });
        }
        Some("presentation") => {
            let base: Vec<String> = case.get("base").and_then(|c| c.as_array()).map(|a| a.iter().filter_map(|x| x.as_str().map(String::from)).collect()).unwrap_or_default();
            let b: Vec<&str> = base.iter().map(|s| s.as_str()).collect();
            let vname = case.get("variant").and_then(|x| x.as_str()).unwrap_or("");
            let scratch = crate::run::scratch_dir().clone();
            let Some((_, extra)) = variants(&scratch).into_iter().find(|(n, _)| *n == vname) else {
                ctx.machinery("unknown variant");
                return;
            };
            let cbase = mkcfg(&b, &[]);
            let vcfg = mkcfg(&b, &extra);
            let actions = rowmodel::row_alphabet(2);
            let model = Model { cfg: &cbase, actions: &actions, depth, init: vec![], aux0: () };
            set_observer_like_main(&cbase);
            replay_path(ctx, &model, &path, |_, _, _, _| (), |ctx, st| {
                set_observer_like_main(&vcfg);
                let (o, post) = apply(&vcfg, st.pre, st.action);
                let same = if vname == "-O other" { mask_dist(&post) == mask_dist(st.post) } else { post == st.post };
                crate::run::say(&format!("  under [{}]: {} rows; under [{}]: {} rows; identical: {same}", cbase.label(), st.post.len(), vcfg.label(), post.len()));
                if o != *st.outcome || !same {
                    ctx.violation("C19/presentation", "replay", || "tables differ".into(), || case.clone());
                }
            });
        }
        Some("recording") => {
            let rec = case.get("rec").and_then(|x| x.as_str()).unwrap_or("raw2.txt").to_string();
            let base: Vec<String> = case.get("base").and_then(|c| c.as_array()).map(|a| a.iter().filter_map(|x| x.as_str().map(String::from)).collect()).unwrap_or_default();
            let b: Vec<&str> = base.iter().map(|s| s.as_str()).collect();
            let vname = case.get("variant").and_then(|x| x.as_str()).unwrap_or("");
            let scratch = crate::run::scratch_dir().clone();
            let Some((_, extra)) = variants(&scratch).into_iter().find(|(n, _)| *n == vname) else {
                ctx.machinery("unknown variant");
                return;
            };
            let (ob, rb) = run_recording(&rec_cfg(&b, &[], &rec));
            let (ov, rv) = run_recording(&rec_cfg(&b, &extra, &rec));
            let same = if vname == "-O other" { mask_dist(&rv) == mask_dist(&rb) } else { rv == rb };
            crate::run::say(&format!("recording {rec}: base {} rows ({}), variant {} rows ({}), identical {same}", rb.len(), ob.label(), rv.len(), ov.label()));
            if ov != ob || !same {
                ctx.violation("C19/recording", "replay", || "tables differ".into(), || case.clone());
            }
        }
        Some("sweep") => {
            let mut job = 0u64;
            let (p, n) = (ctx.part, ctx.nparts);
            ctx.part = 0;
            ctx.nparts = 1;
            run_sweep_family(ctx, &mut job);
            ctx.part = p;
            ctx.nparts = n;
        }
        Some("cli") => {
            crate::run::say("CLI comparison: re-run ./check C19 to reproduce");
            ctx.violation("C19/cli", "replay", || "see check output".into(), || case.clone());
        }
        _ => ctx.machinery("unknown replay kind"),
    }
}
