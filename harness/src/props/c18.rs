//! C18 - TCP feed interruptions never stop decoding or lose the table (E3, scripted peer).

use super::Prop;
use crate::engine::cli;
use crate::engine::faults::{Step, run_script};
use crate::frames;
use crate::refmodel::accept::{Verdict, classify_line};
use crate::report::{Ctx, Level, Partial, Tier};
use crate::run::{Cfg, run_file};
use crate::snap::{Snap, new_table, snapshot};
use serde_json::{Value, json};

pub static PROP: Prop = Prop { id: "C18", level, run, replay, gate, both_profiles: false, serial: false };

const Y: u32 = 0x4CA2D6;

fn level(t: Tier) -> Level {
    Level {
        category: "fault_enumeration",
        rule: if t.thorough() { "every script of length <= 5 over {refuse, accept+close, accept+frames(X_k)+close, accept+partial line+reset, accept+junk bytes+close, accept+frames+connection healthy for 6 s (virtual monotonic time)+close, accept+long non-UTF-8 junk+close} (19608 scripts) followed by a healthy connection delivering frames of Y and staying open; for scripts of length 1 the partial line runs over every prefix length 1..27 of a 28-digit frame; the length-1 scripts are repeated against the real release CLI with real 5 s pauses; distinct_nontrivial = distinct (script, final key set) outcomes" } else { "every script of length <= 4 over {refuse, accept+close, accept+frames(X_k)+close, accept+partial line+reset, accept+junk bytes+close, accept+frames+connection healthy for 6 s (virtual monotonic time)+close, accept+long non-UTF-8 junk+close} (2801 scripts) followed by a healthy connection delivering frames of Y and staying open; for scripts of length 1 the partial line runs over every prefix length 1..27 of a 28-digit frame; distinct_nontrivial = distinct (script, final key set) outcomes" },
        assumptions: vec![
            "the pause after a failed attempt is observed through the interposed clock_nanosleep (requested duration recorded, the sleeper blocks on a gate the script releases): exactly one request of 5 s +- 1 s per refused attempt".into(),
            "final table oracle: equal (ages included) to the table the file source produces step by step from the same complete lines, with 5 s of silence after every scripted step and t s more after a healthy-for-t-s step - the faked wall clock advances with the virtual time of released pauses (a partial last line may or may not have reached the reader before the reset: both readings admitted)".into(),
            "elapsed time inside the TCP loop is virtual: CLOCK_MONOTONIC is interposed with an offset that a released pause advances by its requested duration and a 'healthy for 6 s' step advances by 6 s".into(),
            "real network timing is not explored: the peer is scripted at the granularity connect / accept / send / close / reset".into(),
        ],
    }
}

fn gate(p: &Partial, t: Tier) -> Result<(), String> {
    super::default_gate(p, t)?;
    super::need(p, "script", 2000)?;
    super::need(p, "pause-checked", 300)?;
    super::need(p, "partial-variant", 27)?;
    super::need(p, "mid-line-pause", 9)?;
    super::need(p, "script-with-options", 200)?;
    super::need(p, "earlier-aircraft-kept", 100)?;
    Ok(())
}

fn x_addr(k: usize) -> u32 {
    0x400001 + k as u32
}

fn frames_of(addr: u32) -> Vec<u8> {
    let mut v = vec![];
    for f in [frames::df11(5, addr, 0), frames::df4(addr, frames::ac13_for_alt(31000)), frames::df5(addr, frames::id13_for_squawk(4521))] {
        v.extend_from_slice(f.hex().as_bytes());
        v.push(b'\n');
    }
    v
}

/// the partial line: a complete frame of X_k followed by the first `n` digits of another frame of X_k
fn partial_of(k: usize, n: usize) -> Vec<u8> {
    let mut v = frames::df11(5, x_addr(k), 0).hex().into_bytes();
    v.push(b'\n');
    let f = frames::df17(5, x_addr(k), frames::me_ident(4, 3, frames::callsign_codes("PARTIAL")));
    v.extend_from_slice(&f.hex().as_bytes()[..n]);
    v
}

fn junk_bytes() -> Vec<u8> {
    let mut v = b"hello\n\x00\x80\xFF\xFE\n".to_vec();
    v.extend_from_slice(b"123456789012345\n");
    v.extend_from_slice(&[0xC3]);
    v
}

/// long lines of bytes that are not UTF-8 (every alignment of the 3-byte replacement character)
fn long_junk_bytes() -> Vec<u8> {
    let mut v = vec![];
    for pad in 0..3 {
        v.extend(std::iter::repeat_n(b'x', pad));
        v.extend(std::iter::repeat_n(0xFFu8, 90));
        v.push(b'\n');
    }
    v.extend(std::iter::repeat_n(0xC3u8, 300));
    v.push(b'\n');
    v
}

const NSYM: usize = 7;

fn step_of(sym: usize, k: usize, partial_len: usize) -> Step {
    match sym {
        0 => Step::Refuse,
        1 => Step::AcceptClose,
        2 => Step::AcceptSend(frames_of(x_addr(k))),
        3 => Step::AcceptPartialReset(partial_of(k, partial_len)),
        4 => Step::AcceptJunk(junk_bytes()),
        5 => Step::AcceptSendHold(frames_of(x_addr(k)), 6),
        _ => Step::AcceptJunk(long_junk_bytes()),
    }
}

fn healthy() -> Vec<u8> {
    frames_of(Y)
}

/// expected tables from the file source, step by step, with the virtual time each step takes:
/// (with partial lines, without partial lines). Every scripted step ends with a 5 s pause (the refused
/// attempt after it); a "healthy for t s" step lasts t s more.
fn expected(script: &[Step], opts: &[&str]) -> (Vec<Snap>, Vec<Snap>) {
    let cfg = Cfg::new(opts);
    let run = |pre: &[Snap], content: &[u8]| {
        let t = crate::snap::restore(pre);
        let o = run_file(&cfg, content, &t);
        assert!(o.is_ok(), "file-source reference run failed: {o:?}");
        snapshot(&t)
    };
    let mut with: Vec<Snap> = vec![];
    let mut without: Vec<Snap> = vec![];
    for s in script {
        let mut hold = 0i64;
        match s {
            Step::AcceptSplitLine(h, _, t) => {
                let mut b = h.clone();
                b.extend_from_slice(t);
                with = run(&with, &b);
                without = run(&without, &b);
            }
            Step::AcceptSendIdleSend(h, t, _) => {
                let mut b = h.clone();
                b.extend_from_slice(t);
                with = run(&with, &b);
                without = run(&without, &b);
            }
            Step::AcceptSend(b) | Step::AcceptJunk(b) => {
                with = run(&with, b);
                without = run(&without, b);
            }
            Step::AcceptSendHold(b, t) => {
                with = run(&with, b);
                without = run(&without, b);
                hold = *t;
            }
            Step::AcceptPartialReset(b) => {
                with = run(&with, b);
                if let Some(p) = b.iter().rposition(|c| *c == b'\n') {
                    without = run(&without, &b[..=p]);
                }
            }
            _ => {}
        }
        crate::snap::tick_all(&mut with, (5 + hold) * 1000);
        crate::snap::tick_all(&mut without, (5 + hold) * 1000);
    }
    (run(&with, &healthy()), run(&without, &healthy()))
}

/// a peer that really pauses in the middle of a line (split after `cut` bytes of the stream of X_0)
fn split_script(cut: usize, pause_ms: u64) -> Vec<Step> {
    let mut all = frames_of(x_addr(0));
    all.extend_from_slice(frames::df17(5, x_addr(0), frames::me_ident(4, 3, frames::callsign_codes("SPLIT"))).hex().as_bytes());
    all.push(b'\n');
    let cut = cut.min(all.len() - 1);
    vec![Step::AcceptSplitLine(all[..cut].to_vec(), pause_ms, all[cut..].to_vec())]
}

/// a healthy peer that stays silent (connection open) after `cut` bytes of the stream of X_0, for longer than
/// any socket time-out of the reader, and then goes on sending on the same connection; `pre` scripted
/// faults come first
fn idle_script(pre: &[usize], cut: usize, real_ms: Option<u64>) -> Vec<Step> {
    let k = pre.len();
    let mut all = frames_of(x_addr(k));
    all.extend_from_slice(frames::df17(5, x_addr(k), frames::me_ident(4, 3, frames::callsign_codes("IDLE"))).hex().as_bytes());
    all.push(b'\n');
    let cut = cut.min(all.len() - 1);
    let mut v: Vec<Step> = pre.iter().enumerate().map(|(i, s)| step_of(*s, i, 9)).collect();
    v.push(Step::AcceptSendIdleSend(all[..cut].to_vec(), all[cut..].to_vec(), real_ms));
    v
}

fn junk_starts() -> Vec<Vec<u8>> {
    vec![vec![0x1A, b'1'], vec![0x1A, b'2'], vec![0x1A, b'3'], vec![0x1A, b'4'], vec![0x1A, 0x1A], vec![0xFF, 0xFD, 0x18], b"HTTP/1.1 400 Bad Request\r\n".to_vec(), b"MSG,3,1,1,4CA2D6,1,".to_vec(), vec![0x00], vec![b'#']]
}

fn open_descriptors() -> usize {
    std::fs::read_dir("/proc/self/fd").map(|d| d.count()).unwrap_or(0)
}

/// 10 and then 60 connections that are accepted and closed at once: the second script may not leave more
/// descriptors open than the first (each script leaks the same constant: its parked reader and one socket)
fn descriptor_growth(ctx: &mut Ctx) {
    let run = |n: usize| -> Result<usize, String> {
        let before = open_descriptors();
        let script: Vec<Step> = (0..n).map(|_| Step::AcceptClose).collect();
        let rep = run_script(&[], &script, &healthy(), |rows| rows.iter().any(|r| r.key == Y && r.squawk == Some(4521)));
        if let Some(m) = rep.machinery {
            return Err(m);
        }
        if !rep.alive {
            return Err(format!("reader ended: {:?}", rep.reader_result));
        }
        Ok(open_descriptors().saturating_sub(before))
    };
    ctx.eval();
    match (run(10), run(60)) {
        (Ok(a), Ok(b)) => {
            ctx.outcome(&("descriptor growth", a, b));
            if b > a + 5 {
                ctx.violation("C18/descriptor-growth", "10 vs 60 closed connections", || format!("after 10 accepted-and-closed connections {a} more descriptors are open than before, after 60 such connections {b}: every dropped connection leaves one behind, the decoder stops when they run out"), || json!({"fd_growth": true}));
            }
        }
        (Err(e), _) | (_, Err(e)) => {
            if e.starts_with("reader ended") {
                ctx.violation("C18/reader-stopped", "many closed connections", || e.clone(), || json!({"fd_growth": true}));
            } else {
                ctx.machinery(format!("C18 descriptor growth: {e}"));
            }
        }
    }
}

const TAIL_EXTRAS: [&str; 5] = ["", "7", "\r", ";", " "];

fn unterminated_tail(ctx: &mut Ctx, k: usize, extra: &str) {
    let z: u32 = 0x4B1A2C;
    let mut bytes = frames_of(x_addr(0));
    bytes.extend_from_slice(frames::df17(5, z, frames::me_ident(4, 3, frames::callsign_codes("TAIL"))).hex().as_bytes());
    bytes.extend_from_slice(extra.as_bytes());
    let script = vec![Step::AcceptSend(bytes)];
    let rep = run_script(&[], &script, &healthy(), |rows| rows.iter().any(|r| r.key == Y && r.squawk == Some(4521)));
    ctx.eval();
    let key = format!("frames + a frame without line feed + {extra:?} + close");
    let case = || json!({"tail": k});
    if let Some(m) = &rep.machinery {
        ctx.machinery(format!("C18 {key}: {m}"));
        return;
    }
    if !rep.alive {
        ctx.violation("C18/reader-stopped", &key, || format!("{key}: the reader thread ended ({:?})", rep.reader_result), case);
        return;
    }
    let row = rep.final_table.iter().find(|r| r.key == z);
    let want = extra != "7"; // one digit too many: 29 digits are no frame
    let got = row.is_some_and(|r| r.ais.as_deref() == Some("TAIL"));
    if want != got || (!want && row.is_some()) {
        ctx.violation("C18/unterminated-last-line", &key, || format!("{key}: the last line of the closed connection {} be taken as the frame of {z:06X}; row present: {}, callsign {:?}", if want { "must" } else { "must not" }, row.is_some(), row.and_then(|r| r.ais.clone())), case);
    }
}

fn eval_script(ctx: &mut Ctx, syms: &[usize], partial_len: usize) {
    let script: Vec<Step> = syms.iter().enumerate().map(|(k, s)| step_of(*s, k, partial_len)).collect();
    eval_steps(ctx, script, json!({"script": syms, "partial_len": partial_len}), partial_len);
}

fn eval_steps(ctx: &mut Ctx, script: Vec<Step>, case_json: Value, partial_len: usize) {
    eval_steps_opts(ctx, script, case_json, partial_len, &[]);
}

fn eval_steps_opts(ctx: &mut Ctx, script: Vec<Step>, case_json: Value, partial_len: usize, opts: &[&str]) {
    let names: Vec<String> = script.iter().map(|s| s.name()).collect();
    let key = format!("[{}] partial={partial_len}{}", names.join(", "), if opts.is_empty() { String::new() } else { format!(" opts {opts:?}") });
    let case = || case_json.clone();
    let syms: Vec<String> = names.clone();
    let syms = &syms;
    let rep = run_script(opts, &script, &healthy(), |rows| rows.iter().any(|r| r.key == Y && r.squawk == Some(4521)));
    ctx.eval();
    ctx.count("script");
    if let Some(m) = &rep.machinery {
        ctx.machinery(format!("C18 {key}: {m}"));
        return;
    }
    // (i) alive
    if !rep.alive {
        ctx.violation("C18/reader-stopped", &key, || format!("script {key}: the reader thread ended ({:?})", rep.reader_result), case);
        return;
    }
    // (ii) one pause of about 5 s after every failed attempt / dropped connection
    for (i, sl) in rep.sleeps_per_step.iter().enumerate() {
        if i >= script.len() {
            if !sl.is_empty() {
                ctx.violation("C18/pause-while-connected", &key, || format!("script {key}: the reader paused ({sl:?} s) although the healthy connection is open"), case);
                return;
            }
            continue;
        }
        ctx.count("pause-checked");
        let ok = sl.len() == 1 && (4..=6).contains(&sl[0]);
        if !ok {
            ctx.violation("C18/pause", &key, || format!("script {key}: after step {} ({}) the reader requested pauses {sl:?} s, expected exactly one of about 5 s", i + 1, names[i]), case);
            return;
        }
    }
    // (iii)/(iv) final table == file source of the same lines
    let (with, without) = expected(&script, opts);
    // observed ages are relative to T0; the script ended `elapsed_ms` of virtual time later
    let mut got_v = rep.final_table.clone();
    crate::snap::tick_all(&mut got_v, rep.elapsed_ms);
    for r in got_v.iter_mut() {
        // Plane::new() stamps of never-received CPR slots are creation times: not part of what is shown
        r.cpr_age = [0, 0];
    }
    let (mut with, mut without) = (with, without);
    for r in with.iter_mut().chain(without.iter_mut()) {
        r.cpr_age = [0, 0];
    }
    let got = &got_v;
    ctx.outcome(&(syms, got.iter().map(|r| r.key).collect::<Vec<_>>()));
    if with.iter().any(|r| r.key == Y) && !got.iter().any(|r| r.key == Y) {
        ctx.violation("C18/healthy-not-decoded", &key, || format!("script {key}: after the healthy connection Y is not in the table ({} rows)", got.len()), case);
        return;
    }
    if script.iter().any(|s| matches!(s, Step::AcceptSend(_) | Step::AcceptPartialReset(_) | Step::AcceptSendHold(..))) {
        ctx.count("earlier-aircraft-kept");
    }
    // independent of any reference run: an aircraft whose complete frames were delivered in step k and that has
    // been silent for fewer than delete_after seconds when the script ends is in the table, with its squawk
    {
        let d_ms = Cfg::new(opts).args.delete_after.saturating_mul(1000);
        let mut silent_after: Vec<i64> = vec![0; script.len()];
        let mut acc = 0i64;
        for (k, st) in script.iter().enumerate().rev() {
            let hold = if let Step::AcceptSendHold(_, t) = st { *t * 1000 } else { 0 };
            acc += 5_000 + hold;
            silent_after[k] = acc;
        }
        for (k, st) in script.iter().enumerate() {
            let filtered = opts.contains(&"-f");
            if !filtered && matches!(st, Step::AcceptSend(_) | Step::AcceptSendHold(..)) && silent_after[k] < d_ms {
                ctx.count("learned-earlier-still-listed");
                let row = got.iter().find(|r| r.key == x_addr(k));
                if row.is_none_or(|r| r.squawk != Some(4521)) {
                    ctx.violation("C18/learned-earlier-lost", &key, || format!("script {key}: the aircraft of step {} ({:06X}) was heard {} ms before the end (delete_after {} s) but its row is {}", k + 1, x_addr(k), silent_after[k], d_ms / 1000, if row.is_some() { "incomplete" } else { "missing" }), case);
                    return;
                }
            }
        }
    }
    if *got != with && *got != without {
        let keys = |v: &[Snap]| v.iter().map(|r| format!("{:06X}", r.key)).collect::<Vec<_>>().join(",");
        ctx.violation("C18/table", &key, || format!("script {key}: final table [{}] differs from what the file source gives for the same lines [{}]", keys(got), keys(&with)), case);
        return;
    }
    // the partial line itself must not have changed anything unless it is an accepted frame
    for (k, s) in script.iter().enumerate() {
        if let Step::AcceptPartialReset(b) = s {
            let tail = b.rsplit(|c| *c == b'\n').next().unwrap_or(&[]);
            if matches!(classify_line(tail), Verdict::NotAFrame(_)) {
                let row = got.iter().find(|r| r.key == x_addr(k));
                if row.is_some_and(|r| r.ais.is_some()) {
                    ctx.violation("C18/partial-line-decoded", &key, || format!("script {key}: the partial last line ({} digits) was decoded", tail.len()), case);
                    return;
                }
            }
        }
    }
}

fn cli_script(ctx: &mut Ctx, sym: usize) {
    // real CLI, real 5 s pauses: refuse/accept once, then a healthy connection
    use std::io::{Read, Write};
    use std::net::TcpListener;
    use std::process::{Command, Stdio};
    let port = 12_000 + (std::process::id() % 15_000) as u16 + sym as u16;
    let addr = format!("127.0.0.1:{port}");
    let listener = if sym == 0 { None } else { TcpListener::bind(&addr).ok() };
    let mut child = match Command::new(cli::CLI_RELEASE).args(["-t", &addr, "-i", "", "--update=-1"]).stdout(Stdio::piped()).stderr(Stdio::null()).stdin(Stdio::null()).spawn() {
        Ok(c) => c,
        Err(e) => {
            ctx.machinery(e.to_string());
            return;
        }
    };
    let t0 = std::time::Instant::now();
    if let Some(l) = listener {
        if let Ok((mut s, _)) = l.accept() {
            drop(l);
            match step_of(sym, 0, 9) {
                Step::AcceptSend(b) | Step::AcceptJunk(b) | Step::AcceptPartialReset(b) => {
                    let _ = s.write_all(&b);
                }
                _ => {}
            }
            drop(s);
        }
    }
    // the process must pause about 5 s before the next attempt: listen again after 2 s
    crate::shim::real_sleep_us(2_000_000);
    let l2 = TcpListener::bind(&addr);
    let mut ok = false;
    let mut waited = 0.0;
    if let Ok(l2) = l2 {
        l2.set_nonblocking(false).ok();
        if let Ok((mut s, _)) = l2.accept() {
            waited = t0.elapsed().as_secs_f64();
            let _ = s.write_all(&healthy());
            let _ = s.flush();
            crate::shim::real_sleep_us(500_000);
            let alive = matches!(child.try_wait(), Ok(None));
            let _ = child.kill();
            let mut out = String::new();
            if let Some(mut so) = child.stdout.take() {
                let _ = so.read_to_string(&mut out);
            }
            ok = alive && out.contains("4CA2D6");
        }
    }
    let _ = child.kill();
    let _ = child.wait();
    ctx.eval();
    ctx.out.traces_validated += 1;
    ctx.count("cli-script");
    if !ok || !(3.5..=8.0).contains(&waited) {
        ctx.violation("C18/cli", &format!("sym {sym}"), || format!("release CLI with script [{}]: reconnect after {waited:.1} s, healthy connection decoded and process alive: {ok}", step_of(sym, 0, 9).name()), || json!({"cli": sym}));
    }
}

fn run(ctx: &mut Ctx) {
    let maxlen = if ctx.tier.thorough() { 5 } else { 4 };
    let mut job = 0u64;
    for len in 0..=maxlen {
        for idx in 0..NSYM.pow(len as u32) {
            job += 1;
            if !ctx.mine(job) {
                continue;
            }
            let mut syms = vec![];
            let mut x = idx;
            for _ in 0..len {
                syms.push(x % NSYM);
                x /= NSYM;
            }
            eval_script(ctx, &syms, 9);
        }
    }
    for n in 1..=27usize {
        job += 1;
        if ctx.mine(job) {
            ctx.count("partial-variant");
            eval_script(ctx, &[3], n);
        }
    }
    // option sets: every script of length <= 2 under -d 0, -d 1, -U -R, and with the table drawn after every frame
    for (oi, opts) in [&["-d", "0"][..], &["-d", "1"][..], &["-U", "-R"][..], &["-i", "", "--update=-1", "-c"][..], &["-d", "12", "-u", "6"][..], &["-d", "30", "-u", "20"][..], &["-f", "21"][..], &["-f", "4", "-c"][..]].iter().enumerate() {
        for len in 0..=2usize {
            for idx in 0..NSYM.pow(len as u32) {
                job += 1;
                if !ctx.mine(job) {
                    continue;
                }
                let mut syms = vec![];
                let mut x = idx;
                for _ in 0..len {
                    syms.push(x % NSYM);
                    x /= NSYM;
                }
                let script: Vec<Step> = syms.iter().enumerate().map(|(k, s)| step_of(*s, k, 9)).collect();
                ctx.count("script-with-options");
                eval_steps_opts(ctx, script, json!({"script": syms, "partial_len": 9, "opts": oi}), 9, opts);
            }
        }
    }
    // a peer that really pauses (1.3 s / 2.6 s of wall time) in the middle of a line: the line must still be read whole
    for (cut, ms) in [(1usize, 1300u64), (14, 1300), (29, 2600), (58, 1300), (73, 1300)] {
        job += 1;
        if ctx.mine(job) {
            ctx.count("mid-line-pause");
            eval_steps(ctx, split_script(cut, ms), json!({"split": cut, "pause_ms": ms}), 0);
        }
    }
    // the same with short refresh intervals and a pause longer than the default one (-u 3)
    for (oi, (opts, cut, ms)) in [(&["-u", "1"][..], 40usize, 1600u64), (&["-u", "0"][..], 11, 1600), (&["-u", "1", "-i", ""][..], 60, 2200), (&[][..], 33, 3600)].iter().enumerate() {
        job += 1;
        if ctx.mine(job) {
            ctx.count("mid-line-pause");
            eval_steps_opts(ctx, split_script(*cut, *ms), json!({"split": cut, "pause_ms": ms, "split_opts": oi}), 0, opts);
        }
    }
    // other epochs: every script up to length 2 with "now" just after midnight at the end of a year and
    // just after the 32-bit time_t wrap (pauses and healthy periods then cross those boundaries)
    for (es, ens, _) in [crate::shim::EPOCH_VARIANTS[0], crate::shim::EPOCH_VARIANTS[1]] {
        for len in 0..=2usize {
            for idx in 0..NSYM.pow(len as u32) {
                job += 1;
                if !ctx.mine(job) {
                    continue;
                }
                let mut syms = vec![];
                let mut x = idx;
                for _ in 0..len {
                    syms.push(x % NSYM);
                    x /= NSYM;
                }
                crate::shim::set_epoch(es, ens);
                ctx.count("script-under-other-epoch");
                eval_script(ctx, &syms, 9);
                crate::shim::reset_epoch();
            }
        }
    }
    // junk that begins like the other feed formats of the ecosystem (Beast binary escape 0x1A + type, AVR markers,
    // a telnet negotiation, an HTTP answer): junk is junk, the decoder retries and goes on
    for (k, start) in junk_starts().iter().enumerate() {
        job += 1;
        if ctx.mine(job) {
            ctx.count("junk-that-looks-like-another-feed");
            let mut b = start.clone();
            b.extend_from_slice(&[0x00, 0x12, 0x34, 0x56, 0x78, 0x9A, 0x1A, 0x1A, 0xBC, b'\n', 0x1A, b'3', 0xFF]);
            eval_steps(ctx, vec![Step::AcceptJunk(b.clone())], json!({"junk_start": k}), 0);
            eval_steps(ctx, vec![Step::AcceptSend(frames_of(x_addr(0))), Step::AcceptJunk(b)], json!({"junk_start": k, "after_frames": true}), 0);
        }
    }
    // descriptors: many short connections in a row must not use up more and more of them
    job += 1;
    if ctx.mine(job) {
        ctx.count("descriptor-growth");
        descriptor_growth(ctx);
    }
    // the peer closes the connection after a last line that has no line feed: a complete frame there is a line
    // like any other (decoded), the same frame with one digit too many is not a frame
    for (k, extra) in TAIL_EXTRAS.iter().enumerate() {
        job += 1;
        if ctx.mine(job) {
            ctx.count("unterminated-last-line");
            unterminated_tail(ctx, k, extra);
        }
    }
    // a healthy connection that is silent for longer than every socket time-out the reader set (time-outs
    // compressed 100:1), at a line boundary and in the middle of a line, fresh and after each kind of fault
    let stream_len = frames_of(x_addr(0)).len();
    for pre in [&[][..], &[0], &[1], &[2], &[3], &[4]] {
        for cut in [0usize, 15, stream_len, stream_len + 10] {
            job += 1;
            if ctx.mine(job) {
                ctx.count("silent-healthy-connection");
                eval_steps(ctx, idle_script(pre, cut, None), json!({"idle_pre": pre, "idle_cut": cut}), 0);
            }
        }
    }
    if ctx.tier.thorough() {
        // the same with real time: 35 s of silence, uncompressed time-outs
        for cut in [stream_len, 15] {
            job += 1;
            if ctx.mine(job) {
                ctx.count("silent-healthy-connection-35s-real");
                eval_steps(ctx, idle_script(&[], cut, Some(35_000)), json!({"idle_pre": [], "idle_cut": cut, "idle_real_ms": 35_000}), 0);
            }
        }
    }
    if ctx.tier.thorough() {
        if cli::available().is_ok() {
            for sym in 0..5 {
                job += 1;
                if ctx.mine(job) {
                    cli_script(ctx, sym);
                }
            }
        }
    }
    ctx.sample(|| json!({"script": ["accept+frames(X0)+close", "refuse", "accept+partial(…14 digits)+reset"], "then": "healthy connection with frames of Y", "expected": "reader alive, one 5 s pause per failed attempt, X0 and Y in the table"}));
    ctx.bound("script length", maxlen);
    ctx.out.exhaustive = true;
}

fn replay(ctx: &mut Ctx, case: &Value) {
    if let Some(sym) = case.get("cli").and_then(|x| x.as_u64()) {
        cli_script(ctx, sym as usize);
        return;
    }
    if case.get("fd_growth").is_some() {
        descriptor_growth(ctx);
        return;
    }
    if let Some(k) = case.get("junk_start").and_then(|x| x.as_u64()) {
        let starts = junk_starts();
        let mut b = starts[k as usize % starts.len()].clone();
        b.extend_from_slice(&[0x00, 0x12, 0x34, 0x56, 0x78, 0x9A, 0x1A, 0x1A, 0xBC, b'\n', 0x1A, b'3', 0xFF]);
        if case.get("after_frames").is_some() {
            eval_steps(ctx, vec![Step::AcceptSend(frames_of(x_addr(0))), Step::AcceptJunk(b)], case.clone(), 0);
        } else {
            eval_steps(ctx, vec![Step::AcceptJunk(b)], case.clone(), 0);
        }
        return;
    }
    if let Some(k) = case.get("tail").and_then(|x| x.as_u64()) {
        let k = k as usize % TAIL_EXTRAS.len();
        unterminated_tail(ctx, k, TAIL_EXTRAS[k]);
        return;
    }
    if let Some(cut) = case.get("idle_cut").and_then(|x| x.as_u64()) {
        let pre: Vec<usize> = case.get("idle_pre").and_then(|x| x.as_array()).map(|a| a.iter().filter_map(|x| x.as_u64().map(|v| v as usize)).collect()).unwrap_or_default();
        let real = case.get("idle_real_ms").and_then(|x| x.as_u64());
        eval_steps(ctx, idle_script(&pre, cut as usize, real), case.clone(), 0);
        return;
    }
    if let Some(cut) = case.get("split").and_then(|x| x.as_u64()) {
        let ms = case.get("pause_ms").and_then(|x| x.as_u64()).unwrap_or(1300);
        if let Some(oi) = case.get("split_opts").and_then(|x| x.as_u64()) {
            let all: [&[&str]; 4] = [&["-u", "1"], &["-u", "0"], &["-u", "1", "-i", ""], &[]];
            eval_steps_opts(ctx, split_script(cut as usize, ms), case.clone(), 0, all[oi as usize % 4]);
            return;
        }
        eval_steps(ctx, split_script(cut as usize, ms), case.clone(), 0);
        return;
    }
    let syms: Vec<usize> = case.get("script").and_then(|s| s.as_array()).map(|a| a.iter().filter_map(|x| x.as_u64().map(|v| v as usize)).collect()).unwrap_or_default();
    let pl = case.get("partial_len").and_then(|x| x.as_u64()).unwrap_or(9) as usize;
    if let Some(oi) = case.get("opts").and_then(|x| x.as_u64()) {
        let all: [&[&str]; 8] = [&["-d", "0"], &["-d", "1"], &["-U", "-R"], &["-i", "", "--update=-1", "-c"], &["-d", "12", "-u", "6"], &["-d", "30", "-u", "20"], &["-f", "21"], &["-f", "4", "-c"]];
        let script: Vec<Step> = syms.iter().enumerate().map(|(k, s)| step_of(*s, k, pl)).collect();
        eval_steps_opts(ctx, script, case.clone(), pl, all[oi as usize % 8]);
        return;
    }
    crate::run::say(&format!("script {:?} partial_len {pl}", syms.iter().enumerate().map(|(k, s)| step_of(*s, k, pl).name()).collect::<Vec<_>>()));
    eval_script(ctx, &syms, pl);
}
