//! C01 - no input line or option set can crash or wedge the decoder.
//! E1 (structured field domains, byte-level lines) + E2 (histories) + option product + CLI,
//! in the release-like and in the overflow-checked build of the harness.

use super::Prop;
use crate::engine::cli;
use crate::engine::explore::{Action, Model, explore, replay_path};
use crate::frames::{self, Frame, Vel};
use crate::report::{Ctx, Level, Partial, Tier};
use crate::run::{Cfg, capture_stdout, run_file};
use crate::snap::{new_table, snapshot};
use serde_json::{Value, json};

pub static PROP: Prop = Prop { id: "C01", level, run, replay, gate, both_profiles: true, serial: false };

const A: u32 = 0x4CA2D6;
const SENT: u32 = 0x3C6586;
const UNIQ: u32 = 0x700001;

fn level(t: Tier) -> Level {
    Level {
        category: "exploration",
        rule: if t.thorough() {
            "structured frames: full domain of every field in turn (AC13/ID13 x 6 formats, AC12 x TC 9-18, TC x subtype x 3 ME fillings, velocity cross, vertical rate, GNSS delta, CPR corner values, movement, Comm-B register sweeps, every DF 0..31 x both lengths x timestamp prefix) as first frame and as update, x {default,-U,-R,-U -R}; byte level: every line of length 0,1,2 over all 256 byte values, every digit count 0..64, 70 KiB lines, digits interleaved with each byte class; histories: all sequences to depth 4 over a 30-line alphabet of hostile and benign lines x 4 option sets; option product: 1152 option sets on a 40-line mixed stream with stdout captured; CLI: hostile file, five recordings and 48 option sets on the real release and dev binaries; all in-process parts in both the release-like and the overflow-checked harness build; distinct_nontrivial = distinct (family, option set, profile) batches with distinct content"
        } else {
            "structured frames: every field in turn over all values of its low 8 bits plus all single-bit values (AC13/ID13 x 6 formats, AC12 x TC 9-18, TC x subtype x 3 ME fillings, velocity cross, vertical rate, GNSS delta, CPR corner values, movement, Comm-B register sweeps, every DF 0..31 x both lengths x timestamp prefix) as first frame and as update, x {default,-U,-R,-U -R}; byte level: every line of length 0,1,2 over all 256 byte values, every digit count 0..64, 70 KiB lines, digits interleaved with each byte class; histories: all sequences to depth 3 over a 30-line alphabet of hostile and benign lines x 4 option sets; option product: 1152 option sets on a 40-line mixed stream with stdout captured; CLI: hostile file, five recordings and 48 option sets on the real release and dev binaries; all in-process parts in both the release-like and the overflow-checked harness build; distinct_nontrivial = distinct (family, option set, profile) batches with distinct content"
        },
        assumptions: vec![
            "oracle: join() of the reader thread is Ok(Ok(())), the run ends within the 20 s watchdog (monotonic clock), and the sentinel line appended after the hostile lines has produced its row".into(),
            "a failing batch is bisected to the single line that causes it; the violation is keyed by that line".into(),
            "option values: flags in all combinations, -u in {-1,0,3}, -d in {1,60} on the 40-line stream, and -d in {i64::MIN,-9,-1,0,1,60,i64::MAX} x -u in {-7,-1,3} on a 600-frame stream; astronomically large -u (overflows chrono::Duration before the first line) is outside the stated domain".into(),
        ],
    }
}

fn gate(p: &Partial, t: Tier) -> Result<(), String> {
    super::default_gate(p, t)?;
    for c in ["profile:release-like", "profile:checked"] {
        super::need(p, c, 100_000)?;
    }
    super::need(p, "lines:structured", 100_000)?;
    super::need(p, "lines:byte-level", 100_000)?;
    super::need(p, "lines:cpr-pairs", 10_000)?;
    super::need(p, "option-sets", 2304)?;
    super::need(p, "long-stream-option-sets", 100)?;
    super::need(p, "history-transitions", 10_000)?;
    super::need(p, "cli-runs", 20)?;
    Ok(())
}

fn sentinel_line() -> Vec<u8> {
    frames::df17(5, SENT, frames::me_ident(4, 3, frames::callsign_codes("SENTINEL"))).hex().into_bytes()
}

/// one run of prefix + lines + sentinel: Ok(()) or what went wrong
fn try_lines(cfg: &Cfg, family: &str, prefix: &[Vec<u8>], lines: &[Vec<u8>]) -> Result<(), String> {
    let mut content = Vec::with_capacity(lines.iter().map(|l| l.len() + 1).sum::<usize>() + 64);
    for l in prefix.iter().chain(lines.iter()) {
        content.extend_from_slice(l);
        content.push(b'\n');
    }
    content.extend_from_slice(&sentinel_line());
    content.push(b'\n');
    let t = new_table();
    crate::run::describe_current(&format!("C01 {family} cfg [{}] {} lines, first {:?}", cfg.label(), lines.len(), lines.first().map(|l| String::from_utf8_lossy(&l[..l.len().min(60)]).into_owned())));
    let o = run_file(cfg, &content, &t);
    if !o.is_ok() {
        return Err(o.label());
    }
    if !snapshot(&t).iter().any(|r| r.key == SENT && r.ais.as_deref() == Some("SENTINEL")) {
        return Err("the well-formed line after it was not processed (sentinel row missing)".to_string());
    }
    Ok(())
}

/// Run `lines` + sentinel; a failing batch is narrowed to the smallest window of consecutive
/// lines that still fails (one line for most defects, a pair for e.g. CPR pairing).
fn run_batch(ctx: &mut Ctx, cfg: &Cfg, family: &str, prefix: &[Vec<u8>], lines: &[Vec<u8>]) {
    if lines.is_empty() {
        return;
    }
    let Err(what) = try_lines(cfg, family, prefix, lines) else {
        ctx.evals(lines.len() as u64);
        ctx.count_n(&format!("profile:{}", crate::profile_name()), lines.len() as u64);
        ctx.outcome(&(family, cfg.label(), crate::profile_name(), crate::snap::hash_state(&lines[0]), lines.len()));
        return;
    };
    if lines.len() > 1 {
        let mid = lines.len() / 2;
        let left_fails = try_lines(cfg, family, prefix, &lines[..mid]).is_err();
        let right_fails = try_lines(cfg, family, prefix, &lines[mid..]).is_err();
        if left_fails || right_fails {
            run_batch(ctx, cfg, family, prefix, &lines[..mid]);
            run_batch(ctx, cfg, family, prefix, &lines[mid..]);
            return;
        }
        // the failure needs lines from both halves: shrink the window from both ends
        let (mut lo, mut hi) = (0usize, lines.len());
        // smallest end
        let (mut a, mut b) = (mid, lines.len());
        while a < b {
            let m = (a + b) / 2;
            if try_lines(cfg, family, prefix, &lines[..m]).is_err() { b = m } else { a = m + 1 }
        }
        hi = hi.min(a.max(1));
        // largest start
        let (mut a, mut b) = (0usize, hi.saturating_sub(1));
        while a < b {
            let m = (a + b + 1) / 2;
            if try_lines(cfg, family, prefix, &lines[m..hi]).is_err() { a = m } else { b = m - 1 }
        }
        lo = lo.max(a);
        let window = &lines[lo..hi];
        if window.len() < lines.len() {
            // everything outside the window is fine on its own
            run_batch(ctx, cfg, family, prefix, &lines[..lo]);
            run_batch(ctx, cfg, family, prefix, &lines[hi..]);
        }
        report_window(ctx, cfg, family, prefix, window, &try_lines(cfg, family, prefix, window).err().unwrap_or(what));
        return;
    }
    report_window(ctx, cfg, family, prefix, lines, &what);
}

fn report_window(ctx: &mut Ctx, cfg: &Cfg, family: &str, prefix: &[Vec<u8>], window: &[Vec<u8>], what: &str) {
    ctx.eval();
    let show = |l: &Vec<u8>| -> String { String::from_utf8_lossy(&l[..l.len().min(80)]).chars().flat_map(|c| c.escape_default()).collect() };
    let shown: Vec<String> = window.iter().take(6).map(show).collect();
    let keep: Vec<&Vec<u8>> = window.iter().take(8192).collect();
    ctx.violation(
        &format!("C01/{family}/{}/{}", cfg.label(), crate::profile_name()),
        &shown.join(" | "),
        || format!("{} consecutive line(s) {shown:?} after {} prefix line(s), cfg [{}], {} build: {what}", window.len(), prefix.len(), cfg.label(), crate::profile_name()),
        || json!({"kind": "line", "lines": keep, "prefix": prefix, "cfg": cfg.opts, "profile": crate::profile_name()}),
    );
}

fn field_values(bits: u32, thorough: bool) -> Vec<u32> {
    if thorough || bits <= 8 {
        return (0..(1u32 << bits)).collect();
    }
    let mut v: Vec<u32> = (0..256).collect();
    for b in 8..bits {
        v.push(1 << b);
        v.push((1 << b) | 0x10);
        v.push((1u32 << bits) - 1 - (1 << b));
    }
    v.push((1 << bits) - 1);
    v.sort();
    v.dedup();
    v
}

/// structured hostile frames for address `addr`
fn structured(addr: u32, thorough: bool, mut f: impl FnMut(Frame)) {
    // AC13 / ID13 in every address/parity format, three fillings of the other bits
    for df in [0u32, 4, 5, 16, 20, 21] {
        for code in field_values(13, thorough) {
            for fill in 0..3u32 {
                let b6 = match fill {
                    0 => code,
                    1 => frames::surv_bits(7, 31, 63, code),
                    _ => frames::surv_bits(5, 10, 21, code),
                };
                let mb = [0u64, 0x00FF_FFFF_FFFF_FFFF, 0x20_04D3_0C30_C30C][fill as usize];
                f(if df >= 16 { frames::long_ap(df, b6, mb, addr) } else { frames::short_ap(df, b6, addr) });
            }
        }
    }
    // DF17 / DF18: TC x subtype x ME fillings
    for df in [17u32, 18] {
        for tc in 0..32u64 {
            for st in 0..8u64 {
                for fill in [0u64, 0x0000_FFFF_FFFF_FFFF, 0x0000_2CC3_71C3_2CE0] {
                    let me = (tc << 51) | (st << 48) | fill;
                    f(frames::es(df, 5, addr, me));
                }
            }
        }
        // AC12 x TC 9..18
        for tc in 9..=18 {
            for code in field_values(12, thorough) {
                f(frames::es(df, 5, addr, frames::me_airpos(tc, 0, 0, code, 0, (code & 1) as u32, 93000, 51372)));
            }
        }
        // CPR corner values, both parities, airborne and surface
        for la in [0u32, 1, 1 << 16, (1 << 17) - 1] {
            for lo in [0u32, 1, 1 << 16, (1 << 17) - 1] {
                for odd in 0..2 {
                    f(frames::es(df, 5, addr, frames::me_airpos(11, 0, 0, frames::ac12_for_alt(36000), 0, odd, la, lo)));
                    f(frames::es(df, 5, addr, frames::me_surfpos(6, 20, 1, 60, 0, odd, la, lo)));
                }
            }
        }
        for mov in 0..128 {
            f(frames::es(df, 5, addr, frames::me_surfpos(7, mov, (mov & 1) as u32, mov, 0, 0, 93000, 51372)));
        }
        // velocity: cross of components, vertical rate, GNSS delta, all subtypes
        for st in 0..8u32 {
            for sign in 0..2 {
                for v in field_values(10, thorough) {
                    f(frames::es(df, 5, addr, frames::me_velocity(&Vel { st, dew: sign, vew: v, dns: 1 - sign, vns: 17, vr: 9, ..Default::default() })));
                    f(frames::es(df, 5, addr, frames::me_velocity(&Vel { st, dew: 1 - sign, vew: 0, dns: sign, vns: v, vr: 9, ..Default::default() })));
                }
                for vr in 0..512 {
                    f(frames::es(df, 5, addr, frames::me_velocity(&Vel { st, vew: 5, vns: 5, vrsign: sign, vr, vrsrc: (vr & 1) as u32, ..Default::default() })));
                }
                for d in 0..128 {
                    f(frames::es(df, 5, addr, frames::me_velocity(&Vel { st, vew: 5, vns: 5, vr: 3, diffsign: sign, diff: d, ..Default::default() })));
                }
            }
        }
        for v in 0..8 {
            f(frames::es(df, 5, addr, frames::me_tc31(v)));
        }
    }
    // Comm-B register contents
    let mbs = super::c10::sweep_mbs(false);
    for (i, mb) in mbs.iter().enumerate() {
        if thorough || i % 7 == 0 || i < 400 {
            f(frames::df20(addr, frames::ac13_for_alt(7000), *mb));
            if i % 3 == 0 {
                f(frames::df21(addr, frames::id13_for_squawk(2101), *mb));
            }
        }
    }
    // MB first byte x skeletons (1,7 / 4,0 / 5,0 / 6,0 / 4,4 / 4,5)
    let skeletons: [u64; 6] = [
        frames::mb_bds17(0xFFFFFF),
        frames::mb_bds40(&frames::B40 { s_mcp: 1, mcp: 2000, s_fms: 1, fms: 2250, s_baro: 1, baro: 2132, s_mode: 1, mode: 2, s_src: 1, src: 1, ..Default::default() }),
        super::rowmodel::valid_bds50(true),
        super::rowmodel::valid_bds60(true),
        0x9A_6A_B0_F5_95_6B_7F, // 4,4-like: FOM > 8 and status bits set
        0xFF_FF_FF_FF_FF_FF_E0, // 4,5-like: every status bit set
    ];
    for sk in skeletons {
        for b in 0..256u64 {
            f(frames::df20(addr, frames::ac13_for_alt(7000), (sk & 0x00FF_FFFF_FFFF_FFFF_u64 & !(0xFFu64 << 48)) | (b << 48)));
        }
        for bit in 0..56 {
            f(frames::df21(addr, frames::id13_for_squawk(2101), sk ^ (1u64 << bit)));
        }
    }
}

/// every DF at both lengths (so every "short frame claiming a long format" and vice versa), with the 12-digit prefix
fn df_length_lines() -> Vec<Vec<u8>> {
    let mut v = vec![];
    for df in 0..32u32 {
        for long in [false, true] {
            let nbits = if long { 112 } else { 56 };
            for fill in [0u128, u128::MAX, 0x5A5A_A5A5_3C3C_C3C3_0F0F_F0F0_55AA_AA55] {
                let mut f = Frame::zero(nbits);
                f.v = fill & ((1u128 << nbits) - 1);
                f.set(1, 5, df as u64);
                for seal in [false, true] {
                    let mut g = f;
                    if seal {
                        g.seal(if matches!(df, 11 | 17 | 18) { 0 } else { A });
                    }
                    v.push(g.hex().into_bytes());
                    v.push(format!("00A1B2C3D4E5{}", g.hex()).into_bytes());
                    v.push(format!("*{};", g.hex().to_lowercase()).into_bytes());
                }
            }
        }
    }
    v
}

/// even/odd pairs of true positions covering every NL zone and the polar caps, airborne (TC11) and
/// surface (TC6), both parity orders; every pair has its own address. Lines must stay in pairs.
fn cpr_pair_lines() -> Vec<Vec<u8>> {
    use crate::refmodel::cpr;
    let mut v = vec![];
    let mut n = 0u32;
    let mut lat = -89.95;
    while lat < 90.0 {
        for lon in [-179.99, -90.3, -0.01, 0.01, 45.7, 179.99] {
            for surface in [false, true] {
                for first_odd in [false, true] {
                    n += 1;
                    let addr = 0x500001 + (n % 0x0F_FFFF);
                    for k in 0..2 {
                        let odd = first_odd ^ (k == 1);
                        // the same 17-bit fields in both squitter kinds: the decoder reconstructs the
                        // latitude from the fields alone, so every NL zone is reached for surface frames too
                        let (la, lo) = cpr::encode(lat, lon, odd);
                        let me = if surface { frames::me_surfpos(6, 20, 1, 60, 0, odd as u32, la, lo) } else { frames::me_airpos(11, 0, 0, frames::ac12_for_alt(36000), 0, odd as u32, la, lo) };
                        v.push(frames::df17(5, addr, me).hex().into_bytes());
                    }
                }
            }
        }
        lat += 0.45;
    }
    // raw CPR field grid (every combination of 9 values per field) for surface and airborne, both orders
    let grid = [1u32, 2, 0x3FFF, 0x8000, 0xFFFF, 0x10000, 0x17FFF, 0x1FFFE, 0x1FFFF];
    for &la0 in &grid {
        for &la1 in &grid {
            for &lo in &[1u32, 0x10000, 0x1FFFF] {
                for surface in [false, true] {
                    for first_odd in [false, true] {
                        n += 1;
                        let addr = 0x500001 + (n % 0x0F_FFFF);
                        for k in 0..2 {
                            let odd = first_odd ^ (k == 1);
                            let la = if odd { la1 } else { la0 };
                            let me = if surface { frames::me_surfpos(7, 20, 1, 60, 0, odd as u32, la, lo) } else { frames::me_airpos(12, 0, 0, frames::ac12_for_alt(36000), 0, odd as u32, la, lo) };
                            v.push(frames::df17(5, addr, me).hex().into_bytes());
                        }
                    }
                }
            }
        }
    }
    v
}

fn byte_level_lines() -> Vec<Vec<u8>> {
    let mut v: Vec<Vec<u8>> = vec![vec![]];
    // the unusable-line alphabet of C13 (pieces of wrapped records, markers with multi-byte characters before
    // the ';', ...), and every marker / terminator combination around a multi-byte character
    v.extend(crate::props::c13::junk_alphabet().into_iter().filter(|(_, b)| b.len() < 4096).map(|(_, b)| b));
    for head in ["*", "@", " *", "@0123456789AB", ""] {
        for body in ["", "8D4062", "8D40621D58C382D690C8AC2863A", "8D40621D58C382D690C8AC2863A7"] {
            for odd in ["\u{e9}", "\u{20ac}", "\u{1d11e}", "\u{ff41}", "x\u{e9}", "\u{e9}x"] {
                for tail in [";", "", "; ", ";\r", ";;"] {
                    v.push(format!("{head}{body}{odd}{tail}").into_bytes());
                    v.push(format!("{head}{odd}{body}{tail}").into_bytes());
                }
            }
            for raw in [&[0xFFu8, 0xFE][..], &[0x80], &[0xC3], &[0xE2, 0x82]] {
                for tail in [";", ""] {
                    let mut l = format!("{head}{body}").into_bytes();
                    l.extend_from_slice(raw);
                    l.extend_from_slice(tail.as_bytes());
                    v.push(l);
                }
            }
        }
    }
    for a in 0..=255u8 {
        if a == b'\n' {
            continue;
        }
        v.push(vec![a]);
        for b in 0..=255u8 {
            if b == b'\n' {
                continue;
            }
            v.push(vec![a, b]);
        }
    }
    // every digit count 0..64 from three patterns
    let pats = [frames::df17(5, A, frames::me_ident(4, 3, frames::callsign_codes("EIN45F"))).hex(), frames::df11(5, A, 0).hex(), "FFFFFFFFFFFFFFFFFFFFFFFFFFFF".to_string()];
    for p in &pats {
        for n in 0..=64usize {
            v.push(p.bytes().cycle().take(n).collect());
        }
    }
    // 14 / 28 digits interleaved with each byte class
    for p in &pats[..2] {
        for cls in [0u8, 9, 13, 32, 42, 59, 64, 71, 103, 127, 128, 0xC3, 0xE2, 0xF0, 0xFF] {
            let mut l = vec![];
            for d in p.bytes() {
                l.push(d);
                l.push(cls);
            }
            v.push(l);
        }
    }
    v.push(vec![b'A'; 70 * 1024]);
    v.push(vec![0xFF; 70 * 1024]);
    v.push(vec![b'8'; 65 * 1024]);
    // a multi-byte character at every byte offset 0..=300 of an otherwise ASCII line: 2-, 3- and 4-byte
    // characters and an invalid byte (which becomes the 3-byte replacement character)
    for k in 0..=300usize {
        for ch in ["\u{e9}".as_bytes(), "\u{20ac}".as_bytes(), "\u{1d11e}".as_bytes(), &[0xFFu8][..], &[0xC3u8][..]] {
            let mut l = vec![b'z'; k];
            l.extend_from_slice(ch);
            l.extend_from_slice(b"tail");
            v.push(l);
        }
    }
    // lines whose length sits on, just below and just above typical buffer sizes
    for p in [4096usize, 8192, 16384, 32768, 65536, 131072] {
        for d in [-2i64, -1, 0, 1] {
            v.push(vec![b'z'; (p as i64 + d) as usize]);
            let mut l = vec![0xFFu8; (p as i64 + d) as usize];
            l.push(b'\r');
            v.push(l);
        }
    }
    // runs of invalid bytes behind 0..3 ASCII bytes (every alignment of the replacement characters)
    for pad in 0..4usize {
        for n in [30usize, 64, 90, 128, 200, 255, 256, 257, 1024] {
            let mut l = vec![b'z'; pad];
            l.extend(std::iter::repeat_n(0xFFu8, n));
            v.push(l);
        }
    }
    v
}

fn history_alphabet() -> Vec<Action> {
    let l = |n: &str, f: Frame| Action::line(n, &f);
    let b = A ^ 1;
    let mut v = vec![
        l("DF11 CA5", frames::df11(5, A, 0)),
        l("DF4 -1000ft (Q=1,N=0)", frames::df4(A, frames::ac13_q1(0))),
        l("DF4 Q=0 code", frames::df4(A, 0x100A)),
        l("DF4 all-ones", frames::df4(A, 0x1FFF)),
        l("DF5", frames::df5(A, frames::id13_for_squawk(7777))),
        l("TC4 ident", frames::df17(5, A, frames::me_ident(4, 3, frames::callsign_codes("EIN45F")))),
        l("TC11 even zero CPR", frames::df17(5, A, frames::me_airpos(11, 0, 0, frames::ac12_q1(0), 0, 0, 0, 0))),
        l("TC11 odd max CPR", frames::df17(5, A, frames::me_airpos(11, 3, 1, 0xFFF, 1, 1, 0x1FFFF, 0x1FFFF))),
        l("TC11 even p1", super::rowmodel::pos_frame(17, A, 11, 36000, super::rowmodel::P1, false)),
        l("TC6 surface max", frames::df17(5, A, frames::me_surfpos(6, 127, 1, 127, 1, 1, 0x1FFFF, 0x1FFFF))),
        l("TC19 all-zero", frames::df17(5, A, frames::me_velocity(&Vel { st: 1, ..Default::default() }))),
        l("TC19 all-ones", frames::df17(5, A, 0x99_FF_FF_FF_FF_FF_FF)),
        l("TC19 st3 delta", frames::df17(5, A, frames::me_velocity(&Vel { st: 3, vew: 1023, vns: 1023, vr: 511, vrsign: 1, diffsign: 1, diff: 127, ..Default::default() }))),
        l("TC19 0 kt", frames::df17(5, A, frames::me_velocity(&Vel { st: 1, vew: 1, vns: 1, vr: 1, ..Default::default() }))),
        l("TC31 v7", frames::df17(5, A, frames::me_tc31(7))),
        l("DF18 TC11", super::rowmodel::pos_frame(18, A, 11, -1000, super::rowmodel::P2, true)),
        l("DF20 BDS1,7 all", frames::df20(A, frames::ac13_q1(3), frames::mb_bds17(0xFFFFFF))),
        l("DF20 BDS5,0 left", frames::df20(A, 0, super::rowmodel::valid_bds50(true))),
        l("DF21 BDS6,0 descent", frames::df21(A, 0x1FFF, super::rowmodel::valid_bds60(true))),
        l("DF20 MB all-ones", frames::df20(A, 0x1FFF, 0x00FF_FFFF_FFFF_FFFF)),
        l("DF21 BDS4,4-like", frames::df21(A, 0, 0x9A_6A_B0_F5_95_6B_7F)),
        l("DF24", frames::long_ap(24, A, 0x1234_5678_9ABC, A)),
        l("DF16", frames::df16(A, frames::ac13_q1(1), u64::MAX >> 8)),
        l("B:DF11", frames::df11(5, b, 0)),
        l("B:TC19 vr=0", frames::df17(5, b, frames::me_velocity(&Vel { st: 2, vew: 1, vns: 1, vr: 0, ..Default::default() }))),
    ];
    let short17 = frames::df17(5, A, frames::me_ident(4, 3, frames::callsign_codes("EIN45F"))).hex();
    v.push(Action::raw("14 digits announcing DF17", short17[..14].as_bytes()));
    v.push(Action::raw("28 digits announcing DF4", format!("{}{}", frames::df4(A, 100).hex(), frames::df4(A, 100).hex()).as_bytes()));
    v.push(Action::raw("non-UTF-8", &[0x80, 0xFF, b'8', b'D']));
    v.push(Action::raw("empty", b""));
    v.push(Action::raw("CR", b"\r"));
    v.push(Action::tick(61_000));
    v
}

fn mixed_stream() -> Vec<Vec<u8>> {
    let mut v: Vec<Vec<u8>> = vec![];
    for a in history_alphabet() {
        if let crate::engine::explore::Act::Line(l) = a.act {
            v.push(l);
        }
    }
    for a in super::rowmodel::aircraft_actions("C", 0xA1B2C3).into_iter().take(12) {
        if let crate::engine::explore::Act::Line(l) = a.act {
            v.push(l);
        }
    }
    v.truncate(40);
    v
}

fn option_sets() -> Vec<Vec<String>> {
    let mut out = vec![];
    for u in [false, true] {
        for r in [false, true] {
            for c in [false, true] {
                for f in [&[][..], &["17"][..], &["4", "21"][..], &["24"][..]] {
                    for i in ["Q", "", "aAews"] {
                        for o in ["", "s", "A", "dV"] {
                            for d in ["1", "60"] {
                                for upd in ["-1", "0", "3"] {
                                    let mut v: Vec<String> = vec![];
                                    if u {
                                        v.push("-U".into());
                                    }
                                    if r {
                                        v.push("-R".into());
                                    }
                                    if c {
                                        v.push("-c".into());
                                    }
                                    for x in f {
                                        v.push("-f".into());
                                        v.push(x.to_string());
                                    }
                                    v.extend(["-i".to_string(), i.to_string(), "-o".to_string(), o.to_string(), "-d".to_string(), d.to_string(), format!("--update={upd}")]);
                                    out.push(v);
                                }
                            }
                        }
                    }
                }
            }
        }
    }
    out
}

fn run_option_set(ctx: &mut Ctx, opts: &[String], stream: &[Vec<u8>]) {
    let ov: Vec<&str> = opts.iter().map(|s| s.as_str()).collect();
    let cfg = Cfg::new(&ov);
    let mut content = crate::run::join_lines(stream);
    content.extend_from_slice(&sentinel_line());
    content.push(b'\n');
    let t = new_table();
    crate::run::describe_current(&format!("C01 option set {opts:?}"));
    let (o, _out) = capture_stdout(|| run_file(&cfg, &content, &t));
    ctx.eval();
    ctx.count("option-sets");
    ctx.count(&format!("profile:{}", crate::profile_name()));
    // the sentinel is a DF17: with -f excluding 17 it is legitimately filtered out
    let filtered = opts.windows(2).any(|w| w[0] == "-f") && !opts.windows(2).any(|w| w[0] == "-f" && w[1] == "17");
    let sentinel_ok = filtered || snapshot(&t).iter().any(|r| r.key == SENT);
    if !o.is_ok() || !sentinel_ok {
        ctx.violation(
            &format!("C01/options/{}", crate::profile_name()),
            &opts.join(" "),
            || format!("option set [{}] on the 40-line mixed stream, {} build: {}", opts.join(" "), crate::profile_name(), if o.is_ok() { "sentinel line not processed".to_string() } else { o.label() }),
            || json!({"kind": "options", "opts": opts, "profile": crate::profile_name()}),
        );
    }
}

fn cli_part(ctx: &mut Ctx, job: &mut u64) {
    // hostile file: one representative of every family + sentinel, --update=-1
    let mut hostile: Vec<Vec<u8>> = mixed_stream();
    hostile.extend(df_length_lines().into_iter().step_by(5));
    hostile.push(vec![0x80, 0xFF, 0xFE]);
    hostile.push(vec![b'A'; 70 * 1024]);
    hostile.push(sentinel_line());
    let hostile_content = crate::run::join_lines(&hostile);
    let os = option_sets();
    for release in [true, false] {
        let bname = if release { "release" } else { "dev" };
        *job += 1;
        if ctx.mine(*job) {
            for opts in [&["--update=-1"][..], &["--update=-1", "-U"][..], &["--update=-1", "-R", "-c"][..]] {
                match cli::run_cli(release, opts, &hostile_content, "c01") {
                    Ok(c) => {
                        ctx.eval();
                        ctx.count("cli-runs");
                        ctx.out.traces_validated += 1;
                        let err = String::from_utf8_lossy(&c.stderr);
                        let last = cli::blocks(&c.stdout).last().cloned().unwrap_or_default();
                        if c.code != Some(0) || err.contains("panicked") || !last.contains("3C6586") {
                            ctx.violation(&format!("C01/cli/{bname}"), &format!("hostile file {opts:?}"), || format!("{bname} CLI on the hostile file with {opts:?}: exit {:?} signal {:?}, stderr {:?}, sentinel in final table: {}", c.code, c.signal, err.lines().next().unwrap_or(""), last.contains("3C6586")), || json!({"kind": "cli-hostile", "release": release, "opts": opts}));
                        }
                    }
                    Err(e) => ctx.machinery(e),
                }
            }
        }
        for rec in ["squitters.txt", "raw1.txt", "sbs2.txt", "raw2.txt", "sbs1.txt", "df24.txt", "df0-df16.txt", "err.txt", "ruler.txt", "df4-alt-error.txt"] {
            *job += 1;
            if !ctx.mine(*job) {
                continue;
            }
            let Ok(content) = std::fs::read(format!("/repo/rec/{rec}")) else { continue };
            for opts in [&[][..], &["-U", "-R"][..]] {
                match cli::run_cli(release, opts, &content, "c01") {
                    Ok(c) => {
                        ctx.eval();
                        ctx.count("cli-runs");
                        ctx.out.traces_validated += 1;
                        let err = String::from_utf8_lossy(&c.stderr);
                        if c.code != Some(0) || err.contains("panicked") {
                            ctx.violation(&format!("C01/cli/{bname}"), &format!("rec/{rec} {opts:?}"), || format!("{bname} CLI on rec/{rec} with {opts:?}: exit {:?} signal {:?}, stderr {:?}", c.code, c.signal, err.lines().find(|l| l.contains("panicked")).and_then(|l| l.split("panicked at").nth(1)).unwrap_or("")), || json!({"kind": "cli-rec", "release": release, "rec": rec, "opts": opts}));
                        }
                    }
                    Err(e) => ctx.machinery(e),
                }
            }
        }
        // a stride of the option product
        *job += 1;
        if ctx.mine(*job) {
            let stream = crate::run::join_lines(&mixed_stream());
            for opts in os.iter().step_by(24) {
                let ov: Vec<&str> = opts.iter().map(|s| s.as_str()).collect();
                match cli::run_cli(release, &ov, &stream, "c01") {
                    Ok(c) => {
                        ctx.eval();
                        ctx.count("cli-runs");
                        ctx.out.traces_validated += 1;
                        let err = String::from_utf8_lossy(&c.stderr);
                        if c.code != Some(0) || err.contains("panicked") {
                            ctx.violation(&format!("C01/cli/{bname}"), &opts.join(" "), || format!("{bname} CLI with [{}]: exit {:?} signal {:?}, stderr {:?}", opts.join(" "), c.code, c.signal, err.lines().next().unwrap_or("")), || json!({"kind": "cli-options", "release": release, "opts": opts}));
                        }
                    }
                    Err(e) => ctx.machinery(e),
                }
            }
        }
    }
}

fn run(ctx: &mut Ctx) {
    let thorough = ctx.tier.thorough();
    let cfgs: Vec<Cfg> = [&[][..], &["-U"][..], &["-R"][..], &["-U", "-R"][..]].iter().map(|o| Cfg::new(o)).collect();
    let mut job = 0u64;
    // (a) structured frames: update path (rows exist: DF11 CA5 + BDS 1,7 all) and first-frame path (own address each)
    let mut upd: Vec<Vec<u8>> = vec![];
    structured(A, thorough, |f| upd.push(f.hex().into_bytes()));
    let prefix: Vec<Vec<u8>> = vec![frames::df11(5, A, 0).hex().into_bytes(), frames::df20(A, frames::ac13_for_alt(7000), frames::mb_bds17(0xFFFFFF)).hex().into_bytes()];
    let mut n = 0u32;
    let mut first: Vec<Vec<u8>> = vec![];
    structured(0, thorough, |_| n += 1);
    let mut i = 0u32;
    // the first-frame family: same frames, every one with its own address (addresses cycle through 2^20)
    let total = n;
    let _ = total;
    structured_unique(thorough, &mut i, &mut first);
    for cfg in &cfgs {
        for chunk in upd.chunks(20_000) {
            job += 1;
            if ctx.mine(job) {
                ctx.count_n("lines:structured", chunk.len() as u64);
                run_batch(ctx, cfg, "structured-update", &prefix, chunk);
            }
        }
        for chunk in first.chunks(20_000) {
            job += 1;
            if ctx.mine(job) {
                ctx.count_n("lines:structured", chunk.len() as u64);
                run_batch(ctx, cfg, "structured-first", &[], chunk);
            }
        }
        let dl = df_length_lines();
        job += 1;
        if ctx.mine(job) {
            ctx.count_n("lines:structured", dl.len() as u64);
            run_batch(ctx, cfg, "df-x-length", &prefix, &dl);
        }
        // (b) byte level
        let bl = byte_level_lines();
        for chunk in bl.chunks(8192) {
            job += 1;
            if ctx.mine(job) {
                ctx.count_n("lines:byte-level", chunk.len() as u64);
                run_batch(ctx, cfg, "byte-level", &prefix, chunk);
            }
        }
    }
    // (a') CPR pairs over all NL zones (incl. the polar caps), airborne and surface, both orders
    let pairs = cpr_pair_lines();
    for cfg in &cfgs {
        for chunk in pairs.chunks(16_384) {
            job += 1;
            if ctx.mine(job) {
                ctx.count_n("lines:structured", chunk.len() as u64);
                ctx.count_n("lines:cpr-pairs", chunk.len() as u64);
                run_batch(ctx, cfg, "cpr-pairs", &[], chunk);
            }
        }
    }
    // (c) histories
    let acts = history_alphabet();
    for cfg in &cfgs {
        let model = Model { cfg, actions: &acts, depth: if thorough { 4 } else { 3 }, init: vec![], aux0: () };
        explore(ctx, &model, |_, _, _, _| (), |ctx, st| {
            ctx.count("history-transitions");
            ctx.count(&format!("profile:{}", crate::profile_name()));
            if !st.outcome.is_ok() {
                let names = crate::engine::explore::path_names(&acts, st.path);
                let path = st.path.to_vec();
                ctx.violation(
                    &format!("C01/history/{}/{}", cfg.label(), crate::profile_name()),
                    &names.join(" > "),
                    || format!("after [{}], cfg [{}], {} build: {}", names.join(" > "), cfg.label(), crate::profile_name(), st.outcome.label()),
                    || json!({"kind": "history", "path": path, "cfg": cfg.opts, "profile": crate::profile_name()}),
                );
            }
        });
    }
    // (d) option product
    let stream = mixed_stream();
    for (k, opts) in option_sets().iter().enumerate() {
        if ctx.mine(k as u64) {
            run_option_set(ctx, opts, &stream);
        }
    }
    // (d') a long stream (600 accepted frames of 40 aircraft) under -d in {-1, 0, 1, 60} x -u x -U x -i
    {
        let mut long: Vec<Vec<u8>> = vec![];
        for k in 0..600u32 {
            let a = 0x480000 + (k % 40);
            long.push(match k % 3 { 0 => frames::df11(5, a, 0), 1 => frames::df4(a, frames::ac13_for_alt(100 * (k as i32 % 300))), _ => frames::df17(5, a, frames::me_velocity(&Vel { st: 1, vew: 1 + k % 700, vns: 5, vr: 1 + k % 100, ..Default::default() })) }.hex().into_bytes());
        }
        let mut k = 0u64;
        for d in ["-1", "0", "1", "60", "-9", "9223372036854775807", "-9223372036854775808"] {
            for u in ["--update=-1", "--update=3", "--update=-7", "--update=9223372036854775807", "--update=-9223372036854775808", "--update=10000000000000", "--update=-10000000000000"] {
                for upd in [false, true] {
                    for i in ["Q", ""] {
                        k += 1;
                        job += 1;
                        if !ctx.mine(job) {
                            continue;
                        }
                        let mut o: Vec<String> = vec![format!("--delete-after={d}"), u.to_string(), "-i".into(), i.into(), "-c".into()];
                        if upd {
                            o.push("-U".into());
                        }
                        run_option_set(ctx, &o, &long);
                        ctx.count("long-stream-option-sets");
                    }
                }
            }
        }
        let _ = k;
    }
    // (d'') tables that have grown old, drawn: one aircraft with a position, a BDS 5,0 track and a BDS 6,0 heading
    // keeps being heard through other frames while the virtual clock moves on (ages 159 s .. 4 months), the
    // table is drawn after every frame and nothing ever expires
    for (k, opts) in aged_draw_option_sets().iter().enumerate() {
        job += 1;
        if ctx.mine(job) && crate::run::file_source_streams() {
            ctx.count("aged-table-drawn");
            aged_draw(ctx, k, opts);
        }
    }
    // (d6) the input ENDS in the middle of a hostile line (no final line feed): the reader still reaches
    // end-of-file and returns
    {
        let tails: Vec<(&str, Vec<u8>)> = vec![
            ("70 KiB of A", vec![b'A'; 70 * 1024]),
            ("70 KiB of 0xFF", vec![0xFF; 70 * 1024]),
            ("300 KiB of hex digits", vec![b'8'; 300 * 1024]),
            ("64 KiB exactly", vec![b'z'; 65536]),
            ("64 KiB + 1", vec![b'z'; 65537]),
            ("1 MiB of blanks", vec![b' '; 1 << 20]),
            ("one byte", vec![b'*']),
            ("lone 0xC3", vec![0xC3]),
            ("CR only", vec![b'\r']),
            ("27 digits", b"8D4CA2D6231493B4D46820EEB81".to_vec()),
        ];
        for (ti, (tname, tail)) in tails.iter().enumerate() {
            for (ci, cfg) in cfgs.iter().enumerate() {
                job += 1;
                if !ctx.mine(job) {
                    continue;
                }
                let mut content = sentinel_line();
                content.push(b'\n');
                content.extend_from_slice(tail);
                let t = new_table();
                crate::run::describe_current(&format!("C01 input ending with an unterminated line: {tname}, cfg [{}]", cfg.label()));
                let o = run_file(cfg, &content, &t);
                ctx.eval();
                ctx.count("unterminated-hostile-last-line");
                if !o.is_ok() || !snapshot(&t).iter().any(|r| r.key == SENT) {
                    ctx.violation(
                        &format!("C01/unterminated-last-line/{}/{}", cfg.label(), crate::profile_name()),
                        tname,
                        || format!("a well-formed line, then '{tname}' without a final line feed, cfg [{}], {} build: {}", cfg.label(), crate::profile_name(), o.label()),
                        || json!({"kind": "tail", "tail": ti, "cfgi": ci, "profile": crate::profile_name()}),
                    );
                }
            }
        }
    }
    // (d5) odd observer strings and the largest filter values, the table drawn after every frame of a stream
    // that contains decodable positions (main() hands the -O string to set_observer_coords_from_str)
    for (k, o) in ["abc", "", "1", "1,2,3", "NaN,NaN", "1e999,0", ",", "52.6,", ",-8", "52.6;-8.6", "  ", "91,181", "-0,-0", "inf,-inf", "1,2,", "1e-320,1e-320", "\u{e9},\u{e9}", "52.6,-8.6\0"].iter().enumerate() {
        job += 1;
        if !ctx.mine(job) {
            continue;
        }
        let r = std::panic::catch_unwind(|| squitterator::set_observer_coords_from_str(o));
        ctx.eval();
        ctx.count("odd-observer-string");
        if r.is_err() {
            ctx.violation(&format!("C01/observer-string/{}", crate::profile_name()), &format!("-O {o:?}"), || format!("set_observer_coords_from_str({o:?}) panicked, {} build", crate::profile_name()), || json!({"kind": "observer", "k": k, "profile": crate::profile_name()}));
            continue;
        }
        let opts: Vec<String> = vec!["--update=-1".into(), "-i".into(), "aAews".into(), format!("--observer-coord={o}"), "-f".into(), "17".into(), "-f".into(), "4294967295".into(), "-M".into(), "4294967295".into()];
        let mut stream = mixed_stream();
        stream.extend(cpr_pair_lines().into_iter().take(40));
        run_option_set(ctx, &opts, &stream);
    }
    squitterator::set_observer_coords_from_str(crate::props::rowmodel::OBSERVER_STR);
    // (d4) printing tables of 21..64 rows whose sort keys are chains of close neighbours and duplicates
    for letter in ['s', 'a', 'A', 'v', 'V', 'N', 'S', 'W', 'E', 'd', 'D', 'c'] {
        job += 1;
        if !ctx.mine(job) {
            continue;
        }
        for n in crate::props::c15::DENSE_NS {
            for variant in 0..32usize {
                ctx.eval();
                ctx.count("dense-table-printed");
                if let Err(e) = crate::props::c15::print_dense(letter, n, variant) {
                    ctx.violation(
                        &format!("C01/dense-table/{}", crate::profile_name()),
                        &format!("-o {letter} n={n} variant={variant}"),
                        || format!("a table of {n} aircraft with closely spaced '{letter}' keys, -o {letter}, {} build: {e}", crate::profile_name()),
                        || json!({"kind": "dense", "letter": letter.to_string(), "n": n, "variant": variant, "profile": crate::profile_name()}),
                    );
                }
            }
        }
    }
    // (e) CLI (only from the release-like harness: the CLI binaries are the same for both)
    if crate::profile_name() == "release-like" {
        if let Err(e) = cli::available() {
            ctx.machinery(e);
        } else {
            cli_part(ctx, &mut job);
        }
    }
    ctx.sample(|| json!({"hostile line": String::from_utf8_lossy(&frames::df4(A, frames::ac13_q1(0)).hex().into_bytes()), "meaning": "DF4 with Q=1, N=0: 25*0-1000 ft", "followed by": String::from_utf8_lossy(&sentinel_line())}));
    ctx.sample(|| json!({"option set": option_sets()[777]}));
    ctx.bound("structured lines (update family)", upd.len());
    ctx.bound("byte-level lines", byte_level_lines().len());
    ctx.bound("history depth", if thorough { 4 } else { 3 });
    ctx.out.exhaustive = true;
}

fn aged_draw_option_sets() -> Vec<Vec<&'static str>> {
    let mut v = vec![];
    for i in ["aAews", "e", "", "Q"] {
        for extra in [&[][..], &["-U"], &["-R"], &["-U", "-R"]] {
            let mut o = vec!["-i", i, "--update=-1", "--delete-after=100000000"];
            o.extend_from_slice(extra);
            v.push(o);
        }
    }
    v
}

fn aged_draw(ctx: &mut Ctx, k: usize, opts: &[&str]) {
    use crate::props::rowmodel::{ADDR, P1, aircraft_actions, pos_frame};
    use crate::run::TimedStep;
    let cfg = Cfg::named(opts, "aged.fifo");
    let a = ADDR[0];
    let acts = aircraft_actions("A", a);
    let pick = |n: &str| -> Vec<u8> {
        match &acts.iter().find(|x| x.name.ends_with(n)).unwrap_or_else(|| panic!("no action {n}")).act {
            crate::engine::explore::Act::Line(l) => l.clone(),
            _ => unreachable!(),
        }
    };
    let mut warm: Vec<Vec<u8>> = ["DF11 CA5", "DF20 BDS1,7 all", "TC4 EIN45F cat3", "DF5 4521", "DF20 BDS5,0", "DF21 2101 BDS6,0", "TC19 v1"].iter().map(|n| pick(n)).collect();
    warm.push(pos_frame(17, a, 11, 36000, P1, false).hex().into_bytes());
    warm.push(pos_frame(17, a, 11, 36000, P1, true).hex().into_bytes());
    let mut steps = vec![TimedStep { bytes: crate::run::join_lines(&warm), advance_ms: 0 }];
    let keep_alive = [pick("DF4 9000ft"), pick("DF5 1000"), pick("TC29"), pick("DF0")];
    for (i, adv) in [9_999i64, 1, 149_000, 999, 1, 1, 5_000, 155_000, 1_000_000, 86_400_000, 10_000_000_000].iter().enumerate() {
        if let Some(last) = steps.last_mut() {
            last.advance_ms = *adv;
        }
        steps.push(TimedStep { bytes: crate::run::join_lines(&[keep_alive[i % keep_alive.len()].clone()]), advance_ms: 0 });
    }
    steps.push(TimedStep { bytes: { let mut l = sentinel_line(); l.push(b'\n'); l }, advance_ms: 0 });
    let t = new_table();
    crate::run::describe_current(&format!("C01 aged table drawn, options {opts:?}"));
    let (rep, _out) = capture_stdout(|| crate::run::run_timed(&cfg, &steps, &t));
    ctx.eval();
    if let Some(m) = rep.machinery {
        ctx.machinery(format!("C01 aged-draw: {m}"));
        return;
    }
    let sentinel_ok = snapshot(&t).iter().any(|r| r.key == SENT);
    if !rep.outcome.is_ok() || !sentinel_ok {
        ctx.violation(
            &format!("C01/aged-table-drawn/{}", crate::profile_name()),
            &opts.join(" "),
            || format!("an aircraft that is still heard while its position, track and heading grow old (160 s and more), table drawn after every frame, options [{}], {} build: {}", opts.join(" "), crate::profile_name(), if rep.outcome.is_ok() { "sentinel line not processed".to_string() } else { rep.outcome.label() }),
            || json!({"kind": "aged_draw", "k": k, "profile": crate::profile_name()}),
        );
    }
}

fn structured_unique(thorough: bool, i: &mut u32, out: &mut Vec<Vec<u8>>) {
    // `structured` takes one address; to give every frame its own address the family is generated
    // per block of 4096 frames with a fresh address per frame by re-sealing
    let mut tmp: Vec<Frame> = vec![];
    structured(A, thorough, |f| tmp.push(f));
    for f in tmp {
        *i += 1;
        let addr = UNIQ + (*i % 0x0F_FFFF);
        let mut g = f;
        match g.df() {
            11 | 17 | 18 => {
                g.set(9, 24, addr as u64);
                g.seal(0);
            }
            _ => {
                g.seal(addr);
            }
        }
        out.push(g.hex().into_bytes());
    }
}

fn replay(ctx: &mut Ctx, case: &Value) {
    let want_profile = case.get("profile").and_then(|x| x.as_str()).unwrap_or("release-like");
    if want_profile != crate::profile_name() {
        // the replay must run in the build that showed it
        let alt = if want_profile == "checked" { "/verif/target/checked/sqv" } else { "/verif/target/release/sqv" };
        crate::run::say(&format!("this case belongs to the {want_profile} build: re-run it with {alt} C01 --replay <file>"));
        let f = std::env::args().skip_while(|a| a != "--replay").nth(1).unwrap_or_default();
        let st = std::process::Command::new(alt).args(["C01", "--replay", &f]).output();
        match st {
            Ok(o) => {
                crate::run::say(String::from_utf8_lossy(&o.stdout).trim_end());
                if o.status.code() == Some(1) {
                    ctx.violation("C01/replay", "delegated", || "violated in the other build profile".into(), || case.clone());
                } else if o.status.code() != Some(0) {
                    ctx.machinery("delegated replay failed");
                }
            }
            Err(e) => ctx.machinery(e.to_string()),
        }
        return;
    }
    let opts: Vec<String> = case.get("cfg").or(case.get("opts")).and_then(|c| c.as_array()).map(|a| a.iter().filter_map(|x| x.as_str().map(String::from)).collect()).unwrap_or_default();
    let o: Vec<&str> = opts.iter().map(|s| s.as_str()).collect();
    let bytes = |v: &Value| -> Vec<u8> { v.as_array().map(|a| a.iter().filter_map(|x| x.as_u64().map(|b| b as u8)).collect()).unwrap_or_default() };
    match case.get("kind").and_then(|x| x.as_str()) {
        Some("tail") => {
            // (the list is rebuilt here; wedges are not replayed)
            let ti = case.get("tail").and_then(|x| x.as_u64()).unwrap_or(0) as usize;
            let tails: Vec<Vec<u8>> = vec![vec![b'A'; 70 * 1024], vec![0xFF; 70 * 1024], vec![b'8'; 300 * 1024], vec![b'z'; 65536], vec![b'z'; 65537], vec![b' '; 1 << 20], vec![b'*'], vec![0xC3], vec![b'\r'], b"8D4CA2D6231493B4D46820EEB81".to_vec()];
            let cfgs: Vec<Cfg> = [&[][..], &["-U"][..], &["-R"][..], &["-U", "-R"][..]].iter().map(|o| Cfg::new(o)).collect();
            let cfg = &cfgs[case.get("cfgi").and_then(|x| x.as_u64()).unwrap_or(0) as usize % 4];
            let mut content = sentinel_line();
            content.push(b'\n');
            content.extend_from_slice(&tails[ti % tails.len()]);
            let t = new_table();
            let o2 = run_file(cfg, &content, &t);
            crate::run::say(&format!("a well-formed line, then {} bytes without a final line feed, cfg [{}]: {}", tails[ti % tails.len()].len(), cfg.label(), o2.label()));
            if !o2.is_ok() || !snapshot(&t).iter().any(|r| r.key == SENT) {
                ctx.violation("C01/unterminated-last-line", "replay", || o2.label(), || case.clone());
            }
        }
        Some("observer") => {
            let all = ["abc", "", "1", "1,2,3", "NaN,NaN", "1e999,0", ",", "52.6,", ",-8", "52.6;-8.6", "  ", "91,181", "-0,-0", "inf,-inf", "1,2,", "1e-320,1e-320", "\u{e9},\u{e9}", "52.6,-8.6\0"];
            let o = all[case.get("k").and_then(|x| x.as_u64()).unwrap_or(0) as usize % all.len()];
            let r = std::panic::catch_unwind(|| squitterator::set_observer_coords_from_str(o));
            crate::run::say(&format!("set_observer_coords_from_str({o:?}): panicked: {}", r.is_err()));
            if r.is_err() {
                ctx.violation("C01/observer-string", o, || "panicked".into(), || case.clone());
            }
        }
        Some("dense") => {
            let letter = case.get("letter").and_then(|x| x.as_str()).and_then(|s| s.chars().next()).unwrap_or('d');
            let n = case.get("n").and_then(|x| x.as_u64()).unwrap_or(24) as usize;
            let variant = case.get("variant").and_then(|x| x.as_u64()).unwrap_or(0) as usize;
            crate::run::say(&format!("dense table: {n} rows, key '{letter}', variant {variant}, {} build", crate::profile_name()));
            if let Err(e) = crate::props::c15::print_dense(letter, n, variant) {
                ctx.violation("C01/dense-table", &format!("-o {letter} n={n}"), || e, || case.clone());
            }
        }
        Some("aged_draw") => {
            let k = case.get("k").and_then(|x| x.as_u64()).unwrap_or(0) as usize;
            let sets = aged_draw_option_sets();
            let opts = &sets[k % sets.len()];
            crate::run::say(&format!("aged table drawn, options {opts:?}, {} build", crate::profile_name()));
            aged_draw(ctx, k, opts);
        }
        Some("line") => {
            let cfg = Cfg::new(&o);
            let lines: Vec<Vec<u8>> = match case.get("lines").and_then(|p| p.as_array()) {
                Some(a) => a.iter().map(&bytes).collect(),
                None => vec![bytes(case.get("line").unwrap_or(&Value::Null))],
            };
            let prefix: Vec<Vec<u8>> = case.get("prefix").and_then(|p| p.as_array()).map(|a| a.iter().map(&bytes).collect()).unwrap_or_default();
            crate::run::say(&format!("{} line(s) {:?} after {} prefix line(s), cfg [{}], {} build", lines.len(), lines.iter().take(4).map(|l| String::from_utf8_lossy(&l[..l.len().min(80)]).into_owned()).collect::<Vec<_>>(), prefix.len(), cfg.label(), crate::profile_name()));
            run_batch(ctx, &cfg, "replay", &prefix, &lines);
        }
        Some("options") if opts.iter().any(|x| x.starts_with("--delete-after=")) => {
            let mut long: Vec<Vec<u8>> = vec![];
            for k in 0..600u32 {
                let a = 0x480000 + (k % 40);
                long.push(match k % 3 { 0 => frames::df11(5, a, 0), 1 => frames::df4(a, frames::ac13_for_alt(100 * (k as i32 % 300))), _ => frames::df17(5, a, frames::me_velocity(&Vel { st: 1, vew: 1 + k % 700, vns: 5, vr: 1 + k % 100, ..Default::default() })) }.hex().into_bytes());
            }
            run_option_set(ctx, &opts, &long)
        }
        Some("options") => run_option_set(ctx, &opts, &mixed_stream()),
        Some("history") => {
            let cfg = Cfg::new(&o);
            let acts = history_alphabet();
            let path: Vec<usize> = case.get("path").and_then(|p| p.as_array()).map(|a| a.iter().filter_map(|x| x.as_u64().map(|v| v as usize)).collect()).unwrap_or_default();
            let model = Model { cfg: &cfg, actions: &acts, depth: path.len(), init: vec![], aux0: () };
            replay_path(ctx, &model, &path, |_, _, _, _| (), |ctx, st| {
                if !st.outcome.is_ok() {
                    ctx.violation("C01/history", "replay", || st.outcome.label(), || case.clone());
                }
            });
        }
        Some(k) if k.starts_with("cli") => {
            let release = case.get("release").and_then(|x| x.as_bool()).unwrap_or(true);
            let content = match k {
                "cli-rec" => std::fs::read(format!("/repo/rec/{}", case.get("rec").and_then(|x| x.as_str()).unwrap_or(""))).unwrap_or_default(),
                "cli-options" => crate::run::join_lines(&mixed_stream()),
                _ => {
                    let mut hostile: Vec<Vec<u8>> = mixed_stream();
                    hostile.extend(df_length_lines().into_iter().step_by(5));
                    hostile.push(vec![0x80, 0xFF, 0xFE]);
                    hostile.push(vec![b'A'; 70 * 1024]);
                    hostile.push(sentinel_line());
                    crate::run::join_lines(&hostile)
                }
            };
            match cli::run_cli(release, &o, &content, "c01r") {
                Ok(c) => {
                    let err = String::from_utf8_lossy(&c.stderr);
                    crate::run::say(&format!("{} CLI {o:?}: exit {:?} signal {:?}; stderr: {}", if release { "release" } else { "dev" }, c.code, c.signal, err.lines().find(|l| l.contains("panicked")).and_then(|l| l.split("panicked at").nth(1)).unwrap_or("(no panic message)")));
                    if c.code != Some(0) || err.contains("panicked") {
                        ctx.violation("C01/cli", "replay", || "CLI did not exit cleanly".into(), || case.clone());
                    }
                }
                Err(e) => ctx.machinery(e),
            }
        }
        _ => ctx.machinery("unknown replay kind"),
    }
}
