//! C11 - each parameter shows the latest value its own frames carried; no cross-talk;
//! re-feeding the frame just applied changes nothing. (E2, model ROW)

use super::Prop;
use super::rowmodel::{self, RowOracle};
use crate::engine::explore::{Model, explore, replay_path};
use crate::refmodel::country::Lookup;
use crate::refmodel::sem::Slots;
use crate::report::{Ctx, Level, Partial, Tier};
use crate::run::Cfg;
use serde_json::{Value, json};

pub static PROP: Prop = Prop { id: "C11", level, run, replay, gate, both_profiles: false, serial: false };

fn level(t: Tier) -> Level {
    Level {
        category: "model_checking",
        rule: if t.thorough() { "model ROW: 2 aircraft (58 actions) to depth 4 and 3 aircraft (86 actions) to depth 3, x {default,-U,-R,-U -R}" } else { "model ROW: 2 aircraft, 58 actions (28 frames of every supported format per aircraft + tick 4 s / 11 s), all sequences to depth 3, x {default,-U,-R,-U -R}" },
        assumptions: vec![
            "state = canonical snapshot of the whole table (every public field of every row, ages in ms under the frozen clock) + reference CPR slots as history variable; transition = one run of the real reader thread on the restored table; de-duplicated on (state, history variable)".into(),
            "oracle = one-step refinement from the implementation's own pre-state: carried parameters take the reference value (or {blank, previous} when the frame has no valid value), parameters the format does not carry stay bit-identical, all other rows stay bit-identical; idempotence probe on every transition that updates an existing row".into(),
            "traces_validated_against_impl counts explored transitions: every one is an execution of spawn_reader_thread/read_lines on real bytes (no separate model to replay); snapshot(restore(s)) == s is asserted on every state; every tick-free history at the depth bound (and of length 2) is additionally fed as ONE continuous stream and must reach the table the step-by-step exploration reached".into(),
            "DF18 value effects, TC5-8 track/position, TC20-22 status are unconstrained (DESIGN section 4)".into(),
        ],
    }
}

fn gate(p: &Partial, _t: Tier) -> Result<(), String> {
    if p.states.len() < 1000 {
        return Err(format!("only {} states", p.states.len()));
    }
    super::need(p, "oracle:carried:value", 1000)?;
    super::need(p, "oracle:carried:no-valid-value", 100)?;
    super::need(p, "oracle:position:decoded", 10)?;
    super::need(p, "oracle:position:unchanged", 100)?;
    super::need(p, "step:update-existing-row", 1000)?;
    super::need(p, "step:other-rows-present", 1000)?;
    super::need(p, "probe:idempotence", 1000)?;
    super::need(p, "whole-run-conformance", 10_000)?;
    super::need(p, "oracle:5,0:must", 1)?;
    Ok(())
}

pub fn configs() -> Vec<Vec<&'static str>> {
    vec![vec![], vec!["-U"], vec!["-R"], vec!["-U", "-R"]]
}

fn run_model(ctx: &mut Ctx, opts: &[&str], naircraft: usize, depth: usize) {
    let cfg = Cfg::new(opts);
    let actions = rowmodel::row_alphabet(naircraft);
    let oracle = RowOracle { lookup: Lookup::new(), relaxed: opts.contains(&"-R"), probe_idempotence: true, prop: "C11" };
    let model = Model { cfg: &cfg, actions: &actions, depth, init: vec![], aux0: Slots::default() };
    let mname = format!("ROW{naircraft}d{depth}");
    explore(ctx, &model, rowmodel::aux_step, |ctx, st| {
        // abstraction identity: restoring a snapshot and snapshotting again is the identity
        if crate::snap::snapshot(&crate::snap::restore(st.post)) != st.post {
            ctx.machinery("snapshot(restore(s)) != s");
        }
        let complaints = oracle.judge(ctx, &cfg, st);
        ctx.out.traces_validated += 1;
        rowmodel::report(ctx, "C11", &mname, &cfg, &actions, st, complaints, json!({"naircraft": naircraft, "depth": depth}));
        // leaves: the whole tick-free history in one continuous run must reach the same table
        if st.path.len() == depth || st.path.len() == 2 {
            if !st.path.iter().any(|&i| matches!(actions[i].act, crate::engine::explore::Act::Tick(_))) {
                ctx.count("whole-run-conformance");
                if let Some((o, got)) = crate::engine::explore::whole_run_matches(&cfg, &[], &actions, st.path, st.post) {
                    let names = crate::engine::explore::path_names(&actions, st.path);
                    let path = st.path.to_vec();
                    let d = got.iter().zip(st.post.iter()).filter(|(a, b)| a != b).map(|(a, b)| crate::snap::diff_fields(b, a).join("; ")).collect::<Vec<_>>().join(" | ");
                    ctx.violation(
                        &format!("C11/{mname}/history-in-one-run/{}", cfg.label()),
                        &names.join(" > "),
                        || format!("[{}] fed as one stream ({}) gives a different table than the same frames applied one by one: {d} ({} vs {} rows)", names.join(" > "), o.label(), got.len(), st.post.len()),
                        || json!({"model": mname, "cfg": cfg.opts, "path": path, "extra": {"naircraft": naircraft, "depth": depth, "whole_run": true}}),
                    );
                }
            }
        }
    });
    ctx.bound(&format!("{mname} [{}]", cfg.label()), format!("depth {depth}, {} actions", actions.len()));
}

/// Model AGED: one aircraft with the whole frame alphabet, silences of 1 s / 31 s / 59 s and a burst of twelve
/// frames of a bystander (which forces the sweep), from the empty table and from a "warm" row that already
/// holds every kind of value. Every transition is judged like in ROW; every path that contains a silence is
/// also fed as ONE stream through a FIFO while the harness moves the virtual clock (timed conformance), so
/// time stamps the snapshot does not know age as well.
pub fn aged_alphabet() -> Vec<crate::engine::explore::Action> {
    use crate::engine::explore::{Act, Action};
    let mut v = rowmodel::aircraft_actions("A", rowmodel::ADDR[0]);
    v.push(Action::tick(1_000));
    v.push(Action::tick(31_000));
    v.push(Action::tick(59_000));
    let b = crate::frames::df17(5, rowmodel::ADDR[2], crate::frames::me_ident(4, 1, crate::frames::callsign_codes("BBBBB"))).hex().into_bytes();
    v.push(Action { name: "burst(C)x12".into(), act: Act::Burst(vec![b; 12]) });
    v
}

pub fn warm_lines() -> Vec<Vec<u8>> {
    let acts = rowmodel::aircraft_actions("A", rowmodel::ADDR[0]);
    let pick = |n: &str| -> Vec<u8> {
        match &acts.iter().find(|a| a.name.ends_with(n)).unwrap_or_else(|| panic!("no action {n}")).act {
            crate::engine::explore::Act::Line(l) => l.clone(),
            _ => unreachable!(),
        }
    };
    ["DF11 CA5", "DF20 BDS1,7 all", "TC4 EIN45F cat3", "DF5 4521", "DF4 31000ft", "TC19 v1", "DF20 BDS5,0", "DF21 2101 BDS6,0"].iter().map(|n| pick(n)).collect()
}

pub fn warm_init(cfg: &Cfg) -> Vec<crate::snap::Snap> {
    let lines = warm_lines();
    let t = crate::snap::new_table();
    let o = crate::run::run_file(cfg, &crate::run::join_lines(&lines), &t);
    assert!(o.is_ok(), "warm row: {o:?}");
    crate::snap::snapshot(&t)
}

/// the reduced alphabet of model AGEDcore: one frame per kind of value, the silences and the burst
pub fn aged_core_alphabet() -> Vec<crate::engine::explore::Action> {
    let keep = ["DF11 CA5", "DF4 9000ft", "DF5 1000", "TC4 RYR9AB cat5", "TC11 even p1", "TC11 odd p1", "TC19 v2", "BDS2,0 DLH4XY", "DF20 BDS5,0", "BDS6,0", "tick", "burst"];
    aged_alphabet().into_iter().filter(|a| keep.iter().any(|k| a.name.contains(k))).collect()
}

fn run_aged(ctx: &mut Ctx, opts: &[&str], warm: bool, depth: usize, core: bool) {
    let cfg = Cfg::new(opts);
    let actions = if core { aged_core_alphabet() } else { aged_alphabet() };
    let wl = warm_lines();
    let prefix: Option<&[Vec<u8>]> = if warm { Some(&wl) } else { None };
    let oracle = RowOracle { lookup: Lookup::new(), relaxed: opts.contains(&"-R"), probe_idempotence: false, prop: "C11" };
    let init = if warm { warm_init(&cfg) } else { vec![] };
    let model = Model { cfg: &cfg, actions: &actions, depth, init: init.clone(), aux0: Slots::default() };
    let mname = format!("AGED{}{}d{depth}", if core { "core" } else { "" }, if warm { "w" } else { "e" });
    explore(ctx, &model, rowmodel::aux_step, |ctx, st| {
        let complaints = oracle.judge(ctx, &cfg, st);
        ctx.out.traces_validated += 1;
        let extra = json!({"aged": true, "warm": warm, "depth": depth, "core": core});
        rowmodel::report(ctx, "C11", &mname, &cfg, &actions, st, complaints, extra.clone());
        let has_tick = st.path.iter().any(|&i| matches!(actions[i].act, crate::engine::explore::Act::Tick(_)));
        let ends_with_tick = matches!(st.action.act, crate::engine::explore::Act::Tick(_));
        if has_tick && !ends_with_tick && (st.path.len() == depth || st.path.len() == 2) {
            crate::engine::explore::timed_conformance_from(ctx, &format!("C11/{mname}"), &mname, &cfg, &init, prefix, &actions, st, extra);
        }
    });
    ctx.bound(&format!("{mname} [{}]", cfg.label()), format!("depth {depth}, {} actions", actions.len()));
}

/// REPEAT: long homogeneous histories. For every ordered pair (a, b) of frames of one aircraft, the stream
/// a x k, b (k = 11, 70, 300) fed as ONE run must give the table that a, a, b give step by step (re-feeding a
/// frame to its row changes nothing, so a x k is a, a): counters, streak detectors and confirmation filters that only act
/// after the n-th identical frame show up here. From the empty table and behind the warm prefix.
const REPEAT_KS: [usize; 3] = [11, 70, 300];

fn repeat_case(cfg: &Cfg, warm: bool, a: &[u8], b: &[u8], k: usize) -> (crate::run::Outcome, Vec<crate::snap::Snap>, Vec<crate::snap::Snap>) {
    use crate::engine::explore::{Act, Action, apply};
    let init = if warm { warm_init(cfg) } else { vec![] };
    // a, a, b: the first a may create the row (a different path), the second is the update that repeats
    let (_, s1) = apply(cfg, &init, &Action { name: "a".into(), act: Act::Line(a.to_vec()) });
    let (_, s2) = apply(cfg, &s1, &Action { name: "a".into(), act: Act::Line(a.to_vec()) });
    let (_, want) = apply(cfg, &s2, &Action { name: "b".into(), act: Act::Line(b.to_vec()) });
    let mut lines: Vec<Vec<u8>> = if warm { warm_lines() } else { vec![] };
    lines.extend(std::iter::repeat_n(a.to_vec(), k));
    lines.push(b.to_vec());
    let t = crate::snap::new_table();
    let o = crate::run::run_file(cfg, &crate::run::join_lines(&lines), &t);
    (o, crate::snap::snapshot(&t), want)
}

fn run_repeat(ctx: &mut Ctx, opts: &[&str], job: &mut u64) {
    use crate::engine::explore::Act;
    let cfg = Cfg::new(opts);
    let acts = rowmodel::aircraft_actions("A", rowmodel::ADDR[0]);
    let line = |i: usize| match &acts[i].act {
        Act::Line(l) => l.clone(),
        _ => unreachable!(),
    };
    for warm in [false, true] {
        for ai in 0..acts.len() {
            *job += 1;
            if !ctx.mine(*job) {
                continue;
            }
            for bi in 0..acts.len() {
                for k in REPEAT_KS {
                    let (o, got, want) = repeat_case(&cfg, warm, &line(ai), &line(bi), k);
                    ctx.eval();
                    ctx.count("repeat:a x k, b");
                    if !o.is_ok() || got != want {
                        let d = got.iter().zip(want.iter()).filter(|(a, b)| a != b).map(|(g, w)| crate::snap::diff_fields(w, g).join("; ")).collect::<Vec<_>>().join(" | ");
                        let key = format!("{}{} x {k} > {}", if warm { "warm > " } else { "" }, acts[ai].name, acts[bi].name);
                        ctx.violation(
                            &format!("C11/REPEAT/{}", cfg.label()),
                            &key,
                            || format!("[{key}] fed as one stream ({}) gives a different table than [{} > {} > {}] step by step: {d} ({} vs {} rows)", o.label(), acts[ai].name, acts[ai].name, acts[bi].name, got.len(), want.len()),
                            || json!({"repeat": {"a": ai, "b": bi, "k": k, "warm": warm}, "cfg": cfg.opts}),
                        );
                        break; // the smallest failing k is the one reported
                    }
                }
            }
        }
    }
}

/// SAME-PARITY PAIRS: two different frames of one aircraft whose last 24 bits are equal (their data parts differ
/// by a multiple of the generator). Fed back to back in ONE run they must give the table they give one by one:
/// nothing may take the parity field for an identity of the whole frame.
fn same_parity_differences(nbits: u32) -> Vec<u128> {
    let g: u128 = 0x1FF_F409;
    let room = nbits - 24 - 5; // data bits below the five format bits
    let mut v = vec![];
    for m in 1u128..8 {
        let mut s = 0;
        while (128 - (g * m).leading_zeros()) + s <= room {
            v.push(((g * m) << s) << 24);
            s += if nbits == 56 { 1 } else { 5 };
        }
    }
    v
}

fn same_parity_case(cfg: &Cfg, warm: bool, f1: &crate::frames::Frame, d: u128) -> (bool, String, String) {
    use crate::engine::explore::{Act, Action, apply};
    let f2 = crate::frames::Frame { v: f1.v ^ d, nbits: f1.nbits };
    let (l1, l2) = (f1.hex().into_bytes(), f2.hex().into_bytes());
    let init = if warm { warm_init(cfg) } else { vec![] };
    let (_, s1) = apply(cfg, &init, &Action { name: "f1".into(), act: Act::Line(l1.clone()) });
    let (_, want) = apply(cfg, &s1, &Action { name: "f2".into(), act: Act::Line(l2.clone()) });
    let mut lines: Vec<Vec<u8>> = if warm { warm_lines() } else { vec![] };
    lines.push(l1);
    lines.push(l2);
    let t = crate::snap::new_table();
    let o = crate::run::run_file(cfg, &crate::run::join_lines(&lines), &t);
    let got = crate::snap::snapshot(&t);
    let d = got.iter().zip(want.iter()).filter(|(a, b)| a != b).map(|(g, w)| crate::snap::diff_fields(w, g).join("; ")).collect::<Vec<_>>().join(" | ");
    (o.is_ok() && got == want, f2.hex(), d)
}

fn same_parity_bases() -> Vec<(&'static str, crate::frames::Frame)> {
    use crate::frames;
    let a = rowmodel::ADDR[0];
    vec![
        ("DF4", frames::df4(a, frames::ac13_for_alt(31000))),
        ("DF5", frames::df5(a, frames::id13_for_squawk(4521))),
        ("DF0", frames::df0(a, frames::ac13_for_alt(18000))),
        ("DF11", frames::df11(5, a, 0)),
        ("DF16", frames::df16(a, frames::ac13_for_alt(18000), 0x30_0000_0000_0000)),
        ("DF17 ident", frames::df17(5, a, frames::me_ident(4, 3, frames::callsign_codes("EIN45F")))),
        ("DF20 BDS2,0", frames::df20(a, frames::ac13_for_alt(7000), frames::mb_bds20(frames::callsign_codes("DLH4XY")))),
        ("DF21 BDS6,0", frames::df21(a, frames::id13_for_squawk(2101), rowmodel::valid_bds60(false))),
    ]
}

fn run_same_parity(ctx: &mut Ctx, opts: &[&str], job: &mut u64) {
    let cfg = Cfg::new(opts);
    for (bi, (name, f1)) in same_parity_bases().iter().enumerate() {
        for warm in [false, true] {
            *job += 1;
            if !ctx.mine(*job) {
                continue;
            }
            for (di, d) in same_parity_differences(f1.nbits).into_iter().enumerate() {
                let (ok, hex2, diff) = same_parity_case(&cfg, warm, f1, d);
                ctx.eval();
                ctx.count("same-parity-pair");
                if !ok {
                    let key = format!("{}{name} {} > {hex2}", if warm { "warm > " } else { "" }, f1.hex());
                    ctx.violation(
                        &format!("C11/same-parity/{}", cfg.label()),
                        &key,
                        || format!("[{key}] (two frames of one aircraft with the same last 24 bits) fed as one stream gives a different table than one by one: {diff}"),
                        || json!({"same_parity": {"base": bi, "d": di, "warm": warm}, "cfg": cfg.opts}),
                    );
                }
            }
        }
    }
}

/// TWINS: what an aircraft's frames do to its row does not depend on whether another aircraft - one or two
/// address bits away, or far away - holds exactly the same values. A's lines (warm prefix, then every ordered
/// pair of frames) are run alone, behind the twin's identical lines, and interleaved with them line by line;
/// A's row must be the same in all three.
fn readdress(line: &[u8], to: u32) -> Vec<u8> {
    let Some(mut f) = std::str::from_utf8(line).ok().and_then(crate::frames::Frame::from_hex) else { return line.to_vec() };
    match f.df() {
        11 | 17 | 18 => {
            f.set(9, 24, to as u64);
            f.seal(0);
        }
        _ => {
            f.seal(to);
        }
    }
    f.hex().into_bytes()
}

const TWIN_XORS: [u32; 5] = [0x000001, 0x000003, 0x800000, 0x000100, 0x7A11C3];

fn twin_case(cfg: &Cfg, a_lines: &[Vec<u8>], twin: u32, interleaved: bool) -> Option<String> {
    let a = rowmodel::ADDR[0];
    let row = |lines: &[Vec<u8>]| -> (crate::run::Outcome, Option<crate::snap::Snap>) {
        let t = crate::snap::new_table();
        let o = crate::run::run_file(cfg, &crate::run::join_lines(lines), &t);
        (o, crate::snap::snapshot(&t).into_iter().find(|r| r.key == a))
    };
    let (o1, alone) = row(a_lines);
    let b_lines: Vec<Vec<u8>> = a_lines.iter().map(|l| readdress(l, twin)).collect();
    let mut both: Vec<Vec<u8>> = vec![];
    if interleaved {
        for (x, y) in b_lines.iter().zip(a_lines.iter()) {
            both.push(x.clone());
            both.push(y.clone());
        }
    } else {
        both.extend(b_lines);
        both.extend(a_lines.iter().cloned());
    }
    let (o2, with_twin) = row(&both);
    if o1.is_ok() && o2.is_ok() && alone == with_twin {
        return None;
    }
    Some(match (&alone, &with_twin) {
        (Some(x), Some(y)) => crate::snap::diff_fields(x, y).join("; "),
        _ => format!("reader {} / {}; row alone present: {}, with the twin: {}", o1.label(), o2.label(), alone.is_some(), with_twin.is_some()),
    })
}

fn run_twins(ctx: &mut Ctx, opts: &[&str], job: &mut u64) {
    use crate::engine::explore::Act;
    let cfg = Cfg::new(opts);
    let acts = rowmodel::aircraft_actions("A", rowmodel::ADDR[0]);
    let line = |i: usize| match &acts[i].act {
        Act::Line(l) => l.clone(),
        _ => unreachable!(),
    };
    for ai in 0..acts.len() {
        *job += 1;
        if !ctx.mine(*job) {
            continue;
        }
        for bi in 0..acts.len() {
            for (wi, warm) in [false, true].iter().enumerate() {
                let mut a_lines: Vec<Vec<u8>> = if *warm { warm_lines() } else { vec![] };
                a_lines.push(line(ai));
                a_lines.push(line(bi));
                // the frame that decides is also presented twice (the first presentation may create the row)
                a_lines.push(line(bi));
                for (xi, x) in TWIN_XORS.iter().enumerate() {
                    for interleaved in [false, true] {
                        if (ai + bi + xi + wi) % 2 == 1 && interleaved {
                            continue;
                        }
                        ctx.eval();
                        ctx.count("twin");
                        if let Some(d) = twin_case(&cfg, &a_lines, rowmodel::ADDR[0] ^ x, interleaved) {
                            let key = format!("{}{} > {} x2, twin {:06X}{}", if *warm { "warm > " } else { "" }, acts[ai].name, acts[bi].name, rowmodel::ADDR[0] ^ x, if interleaved { " interleaved" } else { " first" });
                            ctx.violation(
                                &format!("C11/TWIN/{}", cfg.label()),
                                &key,
                                || format!("[{key}]: the row of {:06X} differs from what the same frames give when no other aircraft holds the same values: {d}", rowmodel::ADDR[0]),
                                || json!({"twin": {"a": ai, "b": bi, "warm": warm, "x": xi, "interleaved": interleaved}, "cfg": cfg.opts}),
                            );
                        }
                    }
                }
            }
        }
    }
}

/// THE LATER FRAME WINS: two frames of one aircraft that carry the same parameter with *related* values (the same
/// flight level in 25 ft and in 100 ft coding, a callsign and its prefixes / suffixes / one-letter changes, a
/// squawk and its digit permutations). After [a, b] the parameter must read what it reads after [b] alone - no
/// reference decoder is involved, so the comparison also holds where the decoder has a known defect (D12).
fn overwrite_cases() -> Vec<(String, Vec<u8>, Vec<u8>, &'static str)> {
    use crate::frames;
    let a = rowmodel::ADDR[0];
    let hx = |f: crate::frames::Frame| f.hex().into_bytes();
    let mut v = vec![];
    let mut levels: Vec<i32> = (0..=12000).step_by(500).collect();
    levels.extend([10000 + 100, 31000, 36000, 45100]);
    for l in levels {
        let Some(g) = crate::refmodel::fields::ac13_gillham(l) else { continue };
        let coarse = [("DF4 Gillham", hx(frames::df4(a, g))), ("DF20 Gillham", hx(frames::df20(a, g, 0)))];
        for dh in [-50i32, -25, 0, 25, 50, 75] {
            let h = l + dh;
            if h < -1000 {
                continue;
            }
            let fine = [
                ("TC11", hx(frames::df17(5, a, frames::me_airpos(11, 0, 0, frames::ac12_for_alt(h), 0, 0, 93006, 51380)))),
                ("DF4", hx(frames::df4(a, frames::ac13_for_alt(h)))),
                ("DF20", hx(frames::df20(a, frames::ac13_for_alt(h), 0))),
            ];
            for (fname, f) in &fine {
                for (cname, c) in &coarse {
                    v.push((format!("{fname} {h} ft > {cname} {l} ft"), f.clone(), c.clone(), "altitude"));
                    v.push((format!("{cname} {l} ft > {fname} {h} ft"), c.clone(), f.clone(), "altitude"));
                }
            }
        }
    }
    for shown in ["BAW224U", "EIN45F", "RYR9AB", "N123AB", "AAAAAAAA"] {
        let mut related: Vec<String> = vec![];
        for k in 1..shown.len() {
            related.push(shown[..k].to_string());
            related.push(shown[k..].to_string());
        }
        related.push(format!("{shown}X").chars().take(8).collect());
        related.push(shown.replacen(&shown[..1], "Z", 1));
        related.push(shown.to_lowercase().to_uppercase());
        related.sort();
        related.dedup();
        let carriers = |cs: &str| -> Vec<(&'static str, Vec<u8>)> {
            let c = frames::callsign_codes(cs);
            vec![
                ("TC4", hx(frames::df17(5, a, frames::me_ident(4, 3, c)))),
                ("DF20 BDS 2,0", hx(frames::df20(a, frames::ac13_for_alt(7000), frames::mb_bds20(c)))),
                ("DF21 BDS 2,0", hx(frames::df21(a, frames::id13_for_squawk(2101), frames::mb_bds20(c)))),
            ]
        };
        for r in &related {
            for (an, af) in carriers(shown) {
                for (bn, bf) in carriers(r) {
                    v.push((format!("{an} '{shown}' > {bn} '{r}'"), af.clone(), bf.clone(), "callsign"));
                    v.push((format!("{bn} '{r}' > {an} '{shown}'"), bf.clone(), af.clone(), "callsign"));
                }
            }
        }
    }
    for held in [7700u32, 7000, 1200, 4521, 1] {
        let digits = format!("{held:04}");
        let mut related: Vec<u32> = vec![0, held];
        let d: Vec<char> = digits.chars().collect();
        related.push(format!("{}{}{}{}", d[3], d[2], d[1], d[0]).parse().unwrap());
        related.push(format!("{}{}{}{}", d[1], d[0], d[3], d[2]).parse().unwrap());
        related.push(format!("00{}{}", d[0], d[1]).parse().unwrap());
        related.push(format!("{}{}00", d[2], d[3]).parse().unwrap());
        related.sort();
        related.dedup();
        for r in related {
            let car = |q: u32| vec![("DF5", hx(frames::df5(a, frames::id13_for_squawk(q)))), ("DF21", hx(frames::df21(a, frames::id13_for_squawk(q), 0)))];
            for (an, af) in car(held) {
                for (bn, bf) in car(r) {
                    v.push((format!("{an} {held:04} > {bn} {r:04}"), af.clone(), bf.clone(), "squawk"));
                }
            }
        }
    }
    v
}

fn overwrite_field(rows: &[crate::snap::Snap], field: &str) -> String {
    match rows.iter().find(|r| r.key == rowmodel::ADDR[0]) {
        None => "no row".into(),
        Some(r) => match field {
            "altitude" => format!("{:?} '{}'", r.altitude, r.altitude_source),
            "callsign" => format!("{:?}", r.ais),
            _ => format!("{:?}", r.squawk),
        },
    }
}

/// (value after [pre, a, b], value after [pre, b])
fn overwrite_case(cfg: &Cfg, a: &[u8], b: &[u8], field: &str) -> (String, String) {
    let pre = crate::frames::df11(5, rowmodel::ADDR[0], 0).hex().into_bytes();
    let run = |lines: Vec<Vec<u8>>| {
        let t = crate::snap::new_table();
        let _ = crate::run::run_file(cfg, &crate::run::join_lines(&lines), &t);
        overwrite_field(&crate::snap::snapshot(&t), field)
    };
    (run(vec![pre.clone(), a.to_vec(), b.to_vec()]), run(vec![pre, b.to_vec()]))
}

fn run_overwrite(ctx: &mut Ctx, opts: &[&str], job: &mut u64) {
    let cfg = Cfg::new(opts);
    for (i, (name, a, b, field)) in overwrite_cases().into_iter().enumerate() {
        if i % 64 == 0 {
            *job += 1;
        }
        if !ctx.mine(*job) {
            continue;
        }
        let (both, alone) = overwrite_case(&cfg, &a, &b, field);
        ctx.eval();
        ctx.count("later-frame-wins");
        // a second frame in which the program finds no value on its own says nothing about who wins (whether it
        // should have found one is C05's / C07's question; for Gillham codes see the known finding D12)
        if alone.starts_with("None") {
            ctx.count("later-frame-wins:second frame carries no value");
            continue;
        }
        if both != alone {
            ctx.violation(
                &format!("C11/later-frame-wins/{field}/{}", cfg.label()),
                &name,
                || format!("[{name}]: the {field} reads {both} after both frames but {alone} after the second frame alone"),
                || json!({"overwrite": {"a": String::from_utf8_lossy(&a), "b": String::from_utf8_lossy(&b), "field": field}, "cfg": cfg.opts}),
            );
        }
    }
}

fn run(ctx: &mut Ctx) {
    squitterator::set_observer_coords_from_str(rowmodel::OBSERVER_STR);
    let mut rjob = 500_000u64;
    for opts in configs() {
        run_overwrite(ctx, &opts, &mut rjob);
    }
    for opts in configs() {
        run_twins(ctx, &opts, &mut rjob);
    }
    for opts in configs() {
        run_same_parity(ctx, &opts, &mut rjob);
    }
    for opts in configs() {
        run_repeat(ctx, &opts, &mut rjob);
    }
    for opts in configs() {
        for warm in [false, true] {
            run_aged(ctx, &opts, warm, if ctx.tier.thorough() && opts.len() < 2 { 4 } else { 3 }, false);
        }
        run_aged(ctx, &opts, true, if ctx.tier.thorough() { 5 } else { 4 }, true);
    }
    for opts in configs() {
        if ctx.tier.thorough() {
            run_model(ctx, &opts, 2, 4);
            run_model(ctx, &opts, 3, 3);
        } else {
            run_model(ctx, &opts, 2, 3);
        }
    }
    let acts = rowmodel::row_alphabet(2);
    ctx.sample(|| json!({"history": ["A:DF11 CA5", "A:TC11 even p1", "tick 4000 ms", "A:TC11 odd p1"], "expected": "position = global decode anchored on the odd frame, everything else of A unchanged, no other row touched"}));
    ctx.sample(|| json!({"alphabet": acts.iter().map(|a| json!([a.name, a.frame().map(|f| f.hex())])).collect::<Vec<_>>()}));
    ctx.out.exhaustive = true;
}

fn replay(ctx: &mut Ctx, case: &Value) {
    squitterator::set_observer_coords_from_str(rowmodel::OBSERVER_STR);
    let opts: Vec<String> = case.get("cfg").and_then(|c| c.as_array()).map(|a| a.iter().filter_map(|x| x.as_str().map(String::from)).collect()).unwrap_or_default();
    let o: Vec<&str> = opts.iter().map(|s| s.as_str()).collect();
    let cfg = Cfg::new(&o);
    let n = case.pointer("/extra/naircraft").and_then(|x| x.as_u64()).unwrap_or(2) as usize;
    let depth = case.pointer("/extra/depth").and_then(|x| x.as_u64()).unwrap_or(3) as usize;
    let path: Vec<usize> = case.get("path").and_then(|p| p.as_array()).map(|a| a.iter().filter_map(|x| x.as_u64().map(|v| v as usize)).collect()).unwrap_or_default();
    if let Some(r) = case.get("twin") {
        let g = |k: &str| r.get(k).and_then(|x| x.as_u64()).unwrap_or(0) as usize;
        let warm = r.get("warm").and_then(|x| x.as_bool()).unwrap_or(false);
        let interleaved = r.get("interleaved").and_then(|x| x.as_bool()).unwrap_or(false);
        let acts = rowmodel::aircraft_actions("A", rowmodel::ADDR[0]);
        let line = |i: usize| match &acts[i % acts.len()].act {
            crate::engine::explore::Act::Line(l) => l.clone(),
            _ => unreachable!(),
        };
        let mut a_lines: Vec<Vec<u8>> = if warm { warm_lines() } else { vec![] };
        a_lines.push(line(g("a")));
        a_lines.push(line(g("b")));
        a_lines.push(line(g("b")));
        let twin = rowmodel::ADDR[0] ^ TWIN_XORS[g("x") % TWIN_XORS.len()];
        let d = twin_case(&cfg, &a_lines, twin, interleaved);
        crate::run::say(&format!("{} line(s) of {:06X}, alone and with the same lines of the twin {twin:06X} ({}): {}", a_lines.len(), rowmodel::ADDR[0], if interleaved { "interleaved" } else { "first" }, d.clone().unwrap_or_else(|| "same row".into())));
        if let Some(d) = d {
            ctx.violation("C11/TWIN", "replay", || d, || case.clone());
        }
        return;
    }
    if let Some(r) = case.get("overwrite") {
        let g = |k: &str| r.get(k).and_then(|x| x.as_str()).unwrap_or("").to_string();
        let field = g("field");
        let (both, alone) = overwrite_case(&cfg, g("a").as_bytes(), g("b").as_bytes(), &field);
        crate::run::say(&format!("{} then {}: {field} reads {both}; {} alone: {alone}", g("a"), g("b"), g("b")));
        if both != alone && !alone.starts_with("None") {
            ctx.violation("C11/later-frame-wins", "replay", || "the later frame does not win".into(), || case.clone());
        }
        return;
    }
    if let Some(r) = case.get("same_parity") {
        let g = |k: &str| r.get(k).and_then(|x| x.as_u64()).unwrap_or(0) as usize;
        let warm = r.get("warm").and_then(|x| x.as_bool()).unwrap_or(false);
        let bases = same_parity_bases();
        let (name, f1) = &bases[g("base") % bases.len()];
        let ds = same_parity_differences(f1.nbits);
        let d = ds[g("d") % ds.len()];
        let (ok, hex2, diff) = same_parity_case(&cfg, warm, f1, d);
        crate::run::say(&format!("{}{name} {} then {hex2} (same last 24 bits) in one run vs one by one: identical: {ok} {diff}", if warm { "warm > " } else { "" }, f1.hex()));
        if !ok {
            ctx.violation("C11/same-parity", "replay", || "continuous run differs from step by step".into(), || case.clone());
        }
        return;
    }
    if let Some(r) = case.get("repeat") {
        let g = |k: &str| r.get(k).and_then(|x| x.as_u64()).unwrap_or(0) as usize;
        let warm = r.get("warm").and_then(|x| x.as_bool()).unwrap_or(false);
        let acts = rowmodel::aircraft_actions("A", rowmodel::ADDR[0]);
        let line = |i: usize| match &acts[i % acts.len()].act {
            crate::engine::explore::Act::Line(l) => l.clone(),
            _ => unreachable!(),
        };
        let (o2, got, want) = repeat_case(&cfg, warm, &line(g("a")), &line(g("b")), g("k"));
        crate::run::say(&format!("{}{} x {} > {}: one run {} -> {} rows; step by step {} rows; identical: {}", if warm { "warm > " } else { "" }, acts[g("a") % acts.len()].name, g("k"), acts[g("b") % acts.len()].name, o2.label(), got.len(), want.len(), got == want));
        if !o2.is_ok() || got != want {
            ctx.violation("C11/REPEAT", "replay", || "a long run of one frame followed by another gives a different table than the two frames".into(), || case.clone());
        }
        return;
    }
    if case.pointer("/extra/aged").is_some() {
        let warm = case.pointer("/extra/warm").and_then(|x| x.as_bool()).unwrap_or(false);
        let core = case.pointer("/extra/core").and_then(|x| x.as_bool()).unwrap_or(false);
        let actions = if core { aged_core_alphabet() } else { aged_alphabet() };
        let wl = warm_lines();
        let prefix: Option<&[Vec<u8>]> = if warm { Some(&wl) } else { None };
        let oracle = RowOracle { lookup: Lookup::new(), relaxed: o.contains(&"-R"), probe_idempotence: false, prop: "C11" };
        let init = if warm { warm_init(&cfg) } else { vec![] };
        let model = Model { cfg: &cfg, actions: &actions, depth, init: init.clone(), aux0: Slots::default() };
        let mname = format!("AGED{}{}d{depth}", if core { "core" } else { "" }, if warm { "w" } else { "e" });
        replay_path(ctx, &model, &path, rowmodel::aux_step, |ctx, st| {
            if crate::engine::explore::replay_timed_conformance_from(ctx, case, &format!("C11/{mname}"), &cfg, &init, prefix, &actions, st) {
                return;
            }
            let complaints = oracle.judge(ctx, &cfg, st);
            for (s, m) in &complaints {
                crate::run::say(&format!("  oracle [{s}]: {m}"));
            }
            rowmodel::report(ctx, "C11", &mname, &cfg, &actions, st, complaints, json!({"aged": true, "warm": warm, "depth": depth, "core": core}));
        });
        return;
    }
    let actions = rowmodel::row_alphabet(n);
    let oracle = RowOracle { lookup: Lookup::new(), relaxed: o.contains(&"-R"), probe_idempotence: true, prop: "C11" };
    let model = Model { cfg: &cfg, actions: &actions, depth, init: vec![], aux0: Slots::default() };
    let mname = format!("ROW{n}d{depth}");
    replay_path(ctx, &model, &path, rowmodel::aux_step, |ctx, st| {
        if case.pointer("/extra/whole_run").is_some() {
            if let Some((o, got)) = crate::engine::explore::whole_run_matches(&cfg, &[], &actions, st.path, st.post) {
                crate::run::say(&format!("  one continuous run: {} , {} rows; step by step: {} rows; identical: false", o.label(), got.len(), st.post.len()));
                ctx.violation("C11/history-in-one-run", "replay", || "continuous run differs from step-by-step".into(), || case.clone());
            } else {
                crate::run::say("  one continuous run gives the same table as step by step");
            }
            return;
        }
        let complaints = oracle.judge(ctx, &cfg, st);
        for (s, m) in &complaints {
            crate::run::say(&format!("  oracle [{s}]: {m}"));
        }
        rowmodel::report(ctx, "C11", &mname, &cfg, &actions, st, complaints, json!({"naircraft": n, "depth": depth}));
    });
}
