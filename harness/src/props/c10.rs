//! C10 - Comm-B data are shown only when valid, advertised and correctly decoded.
//! E2 gating machine (model GATE) + E1 register-content sweeps.

use super::Prop;
use super::rowmodel::{self, RowOracle, valid_bds50, valid_bds60};
use crate::engine::explore::{Action, Model, explore, replay_path};
use crate::engine::sweep::{Obs, Vector, run_vectors};
use crate::frames::{self, B40, B50, B60};
use crate::refmodel::bds;
use crate::refmodel::country::Lookup;
use crate::refmodel::sem::Slots;
use crate::report::{Ctx, Level, Partial, Tier};
use crate::run::Cfg;
use serde_json::{Value, json};

pub static PROP: Prop = Prop { id: "C10", level, run, replay, gate, both_profiles: false, serial: false };

const A: u32 = 0x4CA2D6;
const B: u32 = 0x3C6586;
const BASE: u32 = 0x680001;
const ALL_CAPS: u32 = frames::CAP_20 | frames::CAP_40 | frames::CAP_50 | frames::CAP_60;

fn level(t: Tier) -> Level {
    Level {
        category: "model_checking",
        rule: if t.thorough() { "model GATE (42 actions: DF11 CA 0/3/4/5/7, DF17, DF20/21 with empty MB, five BDS 1,7 advertisements, 1,7 with a reserved bit, 2,0, three 3,0, valid 4,0, 5,0 right/left turn, 6,0 climb/descent, 5,0 with a status bit clear, 4,0 with a reserved bit, an ADS-B velocity squitter, a slow 5,0, four replies with flight status 1/3/5/7, five BDS 1,0 reports, two DF18 squitters (CF 5 / 2), a westbound 5,0 shaped like a 6,0, bystander) all orders to depth 5 x {default,-R,-U,-U -R}; register sweeps: every value field of 4,0/5,0/6,0 over its whole range x 3 baselines, the full GS x TAS product, all 32 status-bit subsets, every single reserved bit, BDS 1,7 capability words (single bits, stride), under open and closed gates" } else { "model GATE (42 actions: DF11 CA 0/3/4/5/7, DF17, DF20/21 with empty MB, five BDS 1,7 advertisements, 1,7 with a reserved bit, 2,0, three 3,0, valid 4,0, 5,0 right/left turn, 6,0 climb/descent, 5,0 with a status bit clear, 4,0 with a reserved bit, an ADS-B velocity squitter, a slow 5,0, four replies with flight status 1/3/5/7, five BDS 1,0 reports, two DF18 squitters (CF 5 / 2), a westbound 5,0 shaped like a 6,0, bystander) all orders to depth 4 x {default,-U} and depth 3 x {-R,-U -R}; register sweeps: every value field of 4,0/5,0/6,0 over its whole range x 3 baselines, all 32 status-bit subsets, every single reserved bit, BDS 1,7 capability words (single bits, stride), under open and closed gates" },
        assumptions: vec![
            "oracle (refmodel/bds.rs): an MB-derived field group changes only if the reference gate of the implementation's own pre-state allows it (CA >= 4 recorded or -R; for 4,0/5,0/6,0 the register advertised or -R) and the MB passes the reference validity of the register the group belongs to, and then equals the Doc 9871 decoding (floor or truncation for signed values); conversely a plausible register (every status bit set, every value field non-zero, limits as stated) that is not weakly valid as an earlier register must be decoded".into(),
            "BDS 4,0 mode/source status bits are left unconstrained in the only-if direction; inputs on which strong and weak validity of an earlier register disagree take the lenient branch (counted as ':may')".into(),
            "E2 part: state = table snapshot; each transition is a run of the real reader thread (traces_validated_against_impl)".into(),
        ],
    }
}

fn gate(p: &Partial, _t: Tier) -> Result<(), String> {
    if p.states.len() < 500 {
        return Err(format!("only {} GATE states", p.states.len()));
    }
    for c in ["oracle:gate:capability-closed", "oracle:gate:5,0-not-advertised", "oracle:5,0:must", "oracle:6,0:must", "oracle:4,0:must", "oracle:1,7:must", "oracle:2,0", "oracle:3,0", "sweep:5,0:must", "sweep:6,0:must", "sweep:4,0:must", "sweep:gate:capability-closed", "sweep:5,0:may", "sweep:no-register-valid"] {
        super::need(p, c, 10)?;
    }
    Ok(())
}

fn gate_actions() -> Vec<Action> {
    let mut v = vec![];
    for ca in [0u32, 3, 4, 5, 7] {
        v.push(Action::line(&format!("DF11 CA{ca}"), &frames::df11(ca, A, 0)));
    }
    v.push(Action::line("DF17 ident CA5", &frames::df17(5, A, frames::me_ident(4, 3, frames::callsign_codes("EIN45F")))));
    let alt = frames::ac13_for_alt(7000);
    let sq = frames::id13_for_squawk(2101);
    v.push(Action::line("DF20 empty MB", &frames::df20(A, alt, 0)));
    for (n, caps) in [("2,0 only", frames::CAP_20), ("4,0", frames::CAP_20 | frames::CAP_40), ("5,0", frames::CAP_20 | frames::CAP_50), ("6,0", frames::CAP_20 | frames::CAP_60), ("all", ALL_CAPS)] {
        v.push(Action::line(&format!("DF20 BDS1,7 {n}"), &frames::df20(A, alt, frames::mb_bds17(caps))));
    }
    v.push(Action::line("DF20 BDS1,7 all + reserved bit 40", &frames::df20(A, alt, frames::mb_bds17(ALL_CAPS) | (1 << 16))));
    v.push(Action::line("DF21 BDS2,0 DLH4XY", &frames::df21(A, sq, frames::mb_bds20(frames::callsign_codes("DLH4XY")))));
    v.push(Action::line("DF20 BDS3,0 no threat", &frames::df20(A, alt, frames::mb_bds30(0, 0, 0, 0, 0, 0))));
    v.push(Action::line("DF20 BDS3,0 ARA", &frames::df20(A, alt, frames::mb_bds30(1 << 13, 0, 0, 0, 0, 0))));
    v.push(Action::line("DF20 BDS3,0 MTE", &frames::df20(A, alt, frames::mb_bds30(1 << 13, 0, 0, 1, 0, 0))));
    let b40 = B40 { s_mcp: 1, mcp: 2000, s_fms: 1, fms: 2250, s_baro: 1, baro: 2132, res1: 0, s_mode: 1, mode: 2, res2: 0, s_src: 1, src: 1 };
    v.push(Action::line("DF20 BDS4,0", &frames::df20(A, alt, frames::mb_bds40(&b40))));
    v.push(Action::line("DF20 BDS5,0 right turn", &frames::df20(A, alt, valid_bds50(false))));
    v.push(Action::line("DF21 BDS5,0 left turn", &frames::df21(A, sq, valid_bds50(true))));
    v.push(Action::line("DF20 BDS6,0 climb", &frames::df20(A, alt, valid_bds60(false))));
    v.push(Action::line("DF21 BDS6,0 descent", &frames::df21(A, sq, valid_bds60(true))));
    v.push(Action::line("DF20 BDS5,0 TAS status clear", &frames::df20(A, alt, valid_bds50(false) & !(1u64 << (56 - 46)))));
    v.push(Action::line("DF20 BDS4,0 reserved bit 44", &frames::df20(A, alt, frames::mb_bds40(&B40 { res1: 0x10, ..b40 }))));
    // cross-format context: an ADS-B velocity far from the Comm-B ground speed, a slow BDS 5,0,
    // and replies whose flight-status field (bits 6-8) is 4..7
    v.push(Action::line("DF17 TC19 450 kt", &frames::df17(5, A, frames::me_velocity(&frames::Vel { st: 1, dew: 0, vew: 451, dns: 0, vns: 1, vr: 5, ..Default::default() }))));
    v.push(Action::line("DF20 BDS5,0 120 kt", &frames::df20(A, alt, frames::mb_bds50(&B50 { s_roll: 1, roll_sign: 0, roll: 28, s_trk: 1, trk_sign: 0, trk: 300, s_gs: 1, gs: 60, s_tar: 1, tar_sign: 0, tar: 8, s_tas: 1, tas: 58 }))));
    v.push(Action::line("DF20 FS5 BDS2,0 SPI", &frames::long_ap(20, frames::surv_bits(5, 0, 0, alt), frames::mb_bds20(frames::callsign_codes("SPI5")), A)));
    v.push(Action::line("DF21 FS7 BDS5,0", &frames::long_ap(21, frames::surv_bits(7, 0, 0, sq), valid_bds50(false), A)));
    // flight status "on the ground" (1) and "alert, on the ground" (3): the register is decoded all the same
    v.push(Action::line("DF20 FS1 BDS5,0 left turn", &frames::long_ap(20, frames::surv_bits(1, 0, 0, alt), valid_bds50(true), A)));
    v.push(Action::line("DF21 FS3 BDS6,0 climb", &frames::long_ap(21, frames::surv_bits(3, 0, 0, sq), valid_bds60(false), A)));
    // BDS 1,0 data-link capability reports (every one of them leaves the listed parameters alone):
    // with and without the "Mode S specific services" bit (MB 25), the GICB-changed toggle (MB bit 36 = frame bit 68)
    for (n, mb) in [("plain", 0x10_0000_0000_0000u64), ("services", 0x10_0000_8000_0000), ("toggle36+services", 0x10_0000_8010_0000), ("toggle36", 0x10_0000_0010_0000), ("all-ones", 0x10_FFFF_FFFF_FFFF)] {
        v.push(Action::line(&format!("DF20 BDS1,0 {n}"), &frames::df20(A, alt, mb)));
    }
    // a westbound BDS 5,0 (240 kt) that also has every status bit of the 6,0 layout
    v.push(Action::line("DF20 BDS5,0 west 240 kt (also 6,0-shaped)", &frames::df20(A, alt, frames::mb_bds50(&B50 { s_roll: 1, roll_sign: 0, roll: 29, s_trk: 1, trk_sign: 1, trk: 600, s_gs: 1, gs: 120, s_tar: 1, tar_sign: 0, tar: 9, s_tas: 1, tas: 118 }))));
    // DF18 squitters: bits 6-8 are the control field CF (5 and 2 here), never a capability
    for cf in [5u32, 2] {
        v.push(Action::line(&format!("DF18 CF{cf} TC11"), &frames::es(18, cf, A, frames::me_airpos(11, 0, 0, frames::ac12_for_alt(7000), 0, 0, 93000, 51372))));
    }
    v.push(Action::line("B:DF11 CA5", &frames::df11(5, B, 0)));
    v.push(Action::line("B:DF20 BDS5,0", &frames::df20(B, alt, valid_bds50(false))));
    v
}

fn run_gate(ctx: &mut Ctx, opts: &[&str], depth: usize) {
    let cfg = Cfg::new(opts);
    let actions = gate_actions();
    let oracle = RowOracle { lookup: Lookup::new(), relaxed: opts.contains(&"-R"), probe_idempotence: false, prop: "C10" };
    let model = Model { cfg: &cfg, actions: &actions, depth, init: vec![], aux0: Slots::default() };
    explore(ctx, &model, rowmodel::aux_step, |ctx, st| {
        let complaints = oracle.judge(ctx, &cfg, st);
        ctx.out.traces_validated += 1;
        rowmodel::report(ctx, "C10", "GATE", &cfg, &actions, st, complaints, json!({"depth": depth}));
        crate::engine::explore::leaf_conformance(ctx, "C10/GATE", "GATE", &cfg, &[], &actions, st, depth, json!({"depth": depth}));
    });
    ctx.bound(&format!("GATE [{}]", cfg.label()), format!("depth {depth}, {} actions", actions.len()));
}

// ------------------------------------------------------------------ register sweeps

#[derive(Clone, Copy, Debug, PartialEq, Eq, Hash)]
enum Prefix {
    /// DF11 CA5 + BDS 1,7 advertising everything
    Open,
    /// DF11 CA3: no capability of 4 or more recorded
    CaClosed,
    /// DF11 CA5 + BDS 1,7 advertising 2,0 only
    NotAdvertised,
    /// DF11 CA0 (used with -R)
    Ca0,
    /// no DF11/DF17 ever: the row is created by a DF20 whose flight-status field is 5
    CreatedByFs5,
    /// Open, then an ADS-B velocity squitter (450 kt) and two BDS 1,0 reports with different toggle bits
    OpenAfterAdsbAnd10,
    /// DF11 CA5, then (order 0) 1,0 / 1,7 all / 1,0' or (order 1) 1,7 all / 1,0 / 1,0', where the second
    /// report differs from the first in MB bit `bit` only (base 0: all other bits clear, base 1: set)
    Toggle10 { order: u8, base: u8, bit: u8 },
    /// Open, then an unambiguous 5,0 (baseline `b`), then an unambiguous 6,0 that has the heading (less its
    /// last bit, which is the 5,0 track status) and the IAS of the dual-layout register that follows
    After50And60 { b: u8, hdg_ias_of: u64 },
    /// Open; the swept reply itself reports 38000 ft instead of 7000 ft
    OpenHigh,
    /// Open, then an ADS-B velocity squitter tuned to the register `of` that follows (a register valid in both
    /// layouts): mode 0 - track equal to its 6,0 heading, speed 200 kt above its 5,0 ground speed;
    /// mode 1 - speed equal to Mach x 600 of its 6,0 reading, track equal to its 5,0 track
    AfterTunedTc19 { mode: u8, of: u64 },
}

fn parse_prefix(s: &str) -> Prefix {
    if s == "OpenHigh" {
        return Prefix::OpenHigh;
    }
    if let Some(rest) = s.strip_prefix("AfterTunedTc19") {
        let n: Vec<u64> = rest.split(|c: char| !c.is_ascii_digit()).filter(|x| !x.is_empty()).filter_map(|x| x.parse().ok()).collect();
        if n.len() == 2 {
            return Prefix::AfterTunedTc19 { mode: n[0] as u8, of: n[1] };
        }
    }
    if let Some(rest) = s.strip_prefix("After50And60") {
        let n: Vec<u64> = rest.split(|c: char| !c.is_ascii_digit()).filter(|x| !x.is_empty()).filter_map(|x| x.parse().ok()).collect();
        if n.len() == 2 {
            return Prefix::After50And60 { b: n[0] as u8, hdg_ias_of: n[1] };
        }
    }
    if let Some(rest) = s.strip_prefix("Toggle10") {
        let n: Vec<u8> = rest.split(|c: char| !c.is_ascii_digit()).filter(|x| !x.is_empty()).filter_map(|x| x.parse().ok()).collect();
        if n.len() == 3 {
            return Prefix::Toggle10 { order: n[0], base: n[1], bit: n[2] };
        }
    }
    match s {
        "CaClosed" => Prefix::CaClosed,
        "NotAdvertised" => Prefix::NotAdvertised,
        "Ca0" => Prefix::Ca0,
        "CreatedByFs5" => Prefix::CreatedByFs5,
        "OpenAfterAdsbAnd10" => Prefix::OpenAfterAdsbAnd10,
        _ => Prefix::Open,
    }
}

fn prefix_lines(p: Prefix, addr: u32) -> Vec<Vec<u8>> {
    let alt = frames::ac13_for_alt(7000);
    match p {
        Prefix::Open => vec![frames::df11(5, addr, 0).hex().into_bytes(), frames::df20(addr, alt, frames::mb_bds17(ALL_CAPS)).hex().into_bytes()],
        Prefix::CaClosed => vec![frames::df11(3, addr, 0).hex().into_bytes()],
        Prefix::NotAdvertised => vec![frames::df11(5, addr, 0).hex().into_bytes(), frames::df20(addr, alt, frames::mb_bds17(frames::CAP_20)).hex().into_bytes()],
        Prefix::Ca0 => vec![frames::df11(0, addr, 0).hex().into_bytes()],
        Prefix::OpenAfterAdsbAnd10 => vec![
            frames::df11(5, addr, 0).hex().into_bytes(),
            frames::df20(addr, alt, 0x10_0000_8000_0000).hex().into_bytes(),
            frames::df20(addr, alt, frames::mb_bds17(ALL_CAPS)).hex().into_bytes(),
            frames::df17(5, addr, frames::me_velocity(&frames::Vel { st: 1, dew: 0, vew: 451, dns: 0, vns: 1, vr: 5, ..Default::default() })).hex().into_bytes(),
            frames::df20(addr, alt, 0x10_0000_0010_0000).hex().into_bytes(),
        ],
        Prefix::OpenHigh => vec![frames::df11(5, addr, 0).hex().into_bytes(), frames::df20(addr, alt, frames::mb_bds17(ALL_CAPS)).hex().into_bytes()],
        Prefix::AfterTunedTc19 { mode, of } => {
            let g = |s: u32, l: u32| frames::me_get(of, s, l) as f64;
            // readings of `of` in the two layouts
            let trk5 = { let v = g(14, 10) * 90.0 / 512.0; if g(13, 1) == 1.0 { v - 180.0 } else { v } }.rem_euclid(360.0);
            let gs5 = g(25, 10) * 2.0;
            let hdg6 = { let v = g(3, 10) * 90.0 / 512.0; if g(2, 1) == 1.0 { v - 180.0 } else { v } }.rem_euclid(360.0);
            let mach6 = g(25, 10) * 2.048 / 512.0;
            let (track, speed) = if mode == 0 { (hdg6, (gs5 + 200.0).min(1000.0)) } else { (trk5, (mach6 * 600.0).clamp(1.0, 1000.0)) };
            let (e, n) = (speed * track.to_radians().sin(), speed * track.to_radians().cos());
            let v = frames::Vel { st: 1, dew: (e < 0.0) as u32, vew: e.abs().round() as u32 + 1, dns: (n < 0.0) as u32, vns: n.abs().round() as u32 + 1, vr: 5, ..Default::default() };
            vec![
                frames::df11(5, addr, 0).hex().into_bytes(),
                frames::df20(addr, alt, frames::mb_bds17(ALL_CAPS)).hex().into_bytes(),
                frames::df17(5, addr, frames::me_velocity(&v)).hex().into_bytes(),
            ]
        }
        Prefix::After50And60 { b, hdg_ias_of } => {
            // the 6,0 "before": same bits 1-23 (heading, IAS) as the register that follows, heading LSB (= the 5,0
            // track status bit 12) cleared, and the Mach / rate fields of a plain descent
            let keep_hi: u64 = ((1u64 << 23) - 1) << (56 - 23);
            let plain = valid_bds60(true);
            let x = ((hdg_ias_of & keep_hi) & !(1u64 << (56 - 12))) | (plain & !keep_hi);
            vec![
                frames::df11(5, addr, 0).hex().into_bytes(),
                frames::df20(addr, alt, frames::mb_bds17(ALL_CAPS)).hex().into_bytes(),
                frames::df20(addr, alt, frames::mb_bds50(&b50_baselines()[b as usize % 3])).hex().into_bytes(),
                frames::df20(addr, alt, x).hex().into_bytes(),
            ]
        }
        Prefix::Toggle10 { order, base, bit } => {
            // two data-link capability reports that differ in exactly one MB bit, around a full BDS 1,7
            let keep: u64 = !(0x1Fu64 << (56 - 14)); // MB bits 10-14 stay zero (the report stays a BDS 1,0)
            let b0: u64 = if base == 0 { 0x10_0000_0000_0000 } else { 0x10_FFFF_FFFF_FFFF & keep };
            let b1 = b0 ^ (1u64 << (56 - bit as u32));
            let r0 = frames::df20(addr, alt, b0).hex().into_bytes();
            let r1 = frames::df20(addr, alt, b1).hex().into_bytes();
            let adv = frames::df20(addr, alt, frames::mb_bds17(ALL_CAPS)).hex().into_bytes();
            let first = frames::df11(5, addr, 0).hex().into_bytes();
            if order == 0 { vec![first, r0, adv, r1] } else { vec![first, adv, r0, r1] }
        }
        Prefix::CreatedByFs5 => vec![frames::long_ap(20, frames::surv_bits(5, 0, 0, alt), 0, addr).hex().into_bytes()],
    }
}

fn b50_baselines() -> [B50; 3] {
    [
        B50 { s_roll: 1, roll_sign: 0, roll: 28, s_trk: 1, trk_sign: 0, trk: 50, s_gs: 1, gs: 100, s_tar: 1, tar_sign: 0, tar: 5, s_tas: 1, tas: 95 },
        B50 { s_roll: 1, roll_sign: 0, roll: 57, s_trk: 1, trk_sign: 0, trk: 683, s_gs: 1, gs: 220, s_tar: 1, tar_sign: 0, tar: 32, s_tas: 1, tas: 215 },
        B50 { s_roll: 1, roll_sign: 1, roll: 512 - 280, s_trk: 1, trk_sign: 1, trk: 900, s_gs: 1, gs: 300, s_tar: 1, tar_sign: 1, tar: 512 - 100, s_tas: 1, tas: 250 },
    ]
}
fn b60_baselines() -> [B60; 3] {
    [
        B60 { s_hdg: 1, hdg_sign: 0, hdg: 20, s_ias: 1, ias: 120, s_mach: 1, mach: 50, s_baro: 1, baro_sign: 0, baro: 3, s_ivv: 1, ivv_sign: 0, ivv: 2 },
        B60 { s_hdg: 1, hdg_sign: 1, hdg: 398, s_ias: 1, ias: 280, s_mach: 1, mach: 195, s_baro: 1, baro_sign: 0, baro: 60, s_ivv: 1, ivv_sign: 0, ivv: 58 },
        B60 { s_hdg: 1, hdg_sign: 0, hdg: 1000, s_ias: 1, ias: 480, s_mach: 1, mach: 250, s_baro: 1, baro_sign: 1, baro: 512 - 187, s_ivv: 1, ivv_sign: 1, ivv: 512 - 180 },
    ]
}
fn b40_baselines() -> [B40; 3] {
    [
        B40 { s_mcp: 1, mcp: 100, s_fms: 1, fms: 120, s_baro: 1, baro: 50, res1: 0, s_mode: 1, mode: 1, res2: 0, s_src: 1, src: 1 },
        B40 { s_mcp: 1, mcp: 2000, s_fms: 1, fms: 2250, s_baro: 1, baro: 2132, res1: 0, s_mode: 1, mode: 2, res2: 0, s_src: 1, src: 2 },
        B40 { s_mcp: 1, mcp: 4000, s_fms: 1, fms: 4095, s_baro: 1, baro: 4095, res1: 0, s_mode: 1, mode: 7, res2: 0, s_src: 1, src: 3 },
    ]
}

/// registers that carry the status bits of BOTH 5,0 and 6,0 (bits 1,12,13,24,35,46): the precedence
/// 5,0 > 6,0 is decided by the plausibility of the 5,0 reading (|GS-TAS| < 200 etc.), so the fields
/// that the two layouts share are swept on a grid around those limits
pub fn dual_layout_mbs() -> Vec<u64> {
    let mut v: Vec<u64> = vec![];
    for b in b60_baselines() {
        for mach in [1u32, 25, 50, 55, 100, 150, 195, 250, 300] {
            for ivv_sign in 0..2 {
                let mut ivv = 0;
                while ivv < 512 {
                    for hdg_lsb_roll in [1u32, 57, 285, 301] {
                        // bit 12 = heading LSB must be 1 for the 5,0 track status; heading value odd
                        let hdg = (hdg_lsb_roll << 1 | 1) & 0x3FF;
                        v.push(frames::mb_bds60(&B60 { hdg_sign: 0, hdg, mach, ivv_sign, ivv, ..b }));
                    }
                    ivv += 7;
                }
            }
        }
    }
    v
}

/// the MB values of the register sweeps
pub fn sweep_mbs(thorough: bool) -> Vec<u64> {
    let mut v: Vec<u64> = vec![];
    for b in b40_baselines() {
        for x in 0..4096 {
            v.push(frames::mb_bds40(&B40 { mcp: x, ..b }));
            v.push(frames::mb_bds40(&B40 { fms: x, ..b }));
            v.push(frames::mb_bds40(&B40 { baro: x, ..b }));
        }
        for m in 0..8 {
            for s in 0..4 {
                v.push(frames::mb_bds40(&B40 { mode: m, src: s, ..b }));
            }
        }
        for bits in 0..32u32 {
            v.push(frames::mb_bds40(&B40 { s_mcp: bits & 1, s_fms: (bits >> 1) & 1, s_baro: (bits >> 2) & 1, s_mode: (bits >> 3) & 1, s_src: (bits >> 4) & 1, ..b }));
        }
        for r in 0..8 {
            v.push(frames::mb_bds40(&B40 { res1: 1 << r, ..b }));
        }
        for r in 0..2 {
            v.push(frames::mb_bds40(&B40 { res2: 1 << r, ..b }));
        }
    }
    for b in b50_baselines() {
        for s in 0..2 {
            for x in 0..512 {
                v.push(frames::mb_bds50(&B50 { roll_sign: s, roll: x, ..b }));
                v.push(frames::mb_bds50(&B50 { tar_sign: s, tar: x, ..b }));
            }
            for x in 0..1024 {
                v.push(frames::mb_bds50(&B50 { trk_sign: s, trk: x, ..b }));
            }
        }
        for x in 0..1024 {
            v.push(frames::mb_bds50(&B50 { gs: x, ..b }));
            v.push(frames::mb_bds50(&B50 { tas: x, ..b }));
        }
        for bits in 0..32u32 {
            v.push(frames::mb_bds50(&B50 { s_roll: bits & 1, s_trk: (bits >> 1) & 1, s_gs: (bits >> 2) & 1, s_tar: (bits >> 3) & 1, s_tas: (bits >> 4) & 1, ..b }));
        }
    }
    for b in b60_baselines() {
        for s in 0..2 {
            for x in 0..1024 {
                v.push(frames::mb_bds60(&B60 { hdg_sign: s, hdg: x, ..b }));
            }
            for x in 0..512 {
                v.push(frames::mb_bds60(&B60 { baro_sign: s, baro: x, ..b }));
                v.push(frames::mb_bds60(&B60 { ivv_sign: s, ivv: x, ..b }));
            }
        }
        for x in 0..1024 {
            v.push(frames::mb_bds60(&B60 { ias: x, ..b }));
            v.push(frames::mb_bds60(&B60 { mach: x, ..b }));
        }
        for bits in 0..32u32 {
            v.push(frames::mb_bds60(&B60 { s_hdg: bits & 1, s_ias: (bits >> 1) & 1, s_mach: (bits >> 2) & 1, s_baro: (bits >> 3) & 1, s_ivv: (bits >> 4) & 1, ..b }));
        }
    }
    v.extend(dual_layout_mbs());
    // BDS 1,7: single capability bits, pairs with the 2,0 bit, a stride of all 2^24 words, reserved bits
    for i in 0..24 {
        v.push(frames::mb_bds17(1 << i));
        v.push(frames::mb_bds17(frames::CAP_20 | (1 << i)));
    }
    let mut w = 1u32;
    while w < (1 << 24) {
        v.push(frames::mb_bds17(w));
        w += if thorough { 257 } else { 4099 };
    }
    for r in 25..=56u32 {
        v.push(frames::mb_bds17(ALL_CAPS) | (1u64 << (56 - r)));
    }
    // BDS 2,0 / 3,0 forms
    for cs in ["DLH4XY", "A", "12345678", "        "] {
        v.push(frames::mb_bds20(frames::callsign_codes(cs)));
    }
    for ara in [0u32, 1 << 13, 1 << 12, 0x3FFF] {
        for mte in 0..2 {
            for tti in 0..4 {
                v.push(frames::mb_bds30(ara, 0, 0, mte, tti, 0));
            }
        }
    }
    v.push(0);
    v.push(0x00FF_FFFF_FFFF_FFFF);
    if thorough {
        let b = b50_baselines()[1];
        for gs in 0..1024 {
            for tas in 0..1024 {
                v.push(frames::mb_bds50(&B50 { gs, tas, ..b }));
            }
        }
    }
    v
}

fn judge_mb(ctx: &mut Ctx, cfg: &Cfg, relaxed: bool, prefix: Prefix, df: u32, mb: u64, addr: u32, pre: &Obs, post: &Obs) {
    ctx.eval();
    let key = format!("mb={mb:014X}/{prefix:?}/DF{df}");
    let case = || json!({"kind": "mb", "mb": mb, "prefix": format!("{prefix:?}"), "df": df, "cfg": cfg.opts, "addr": addr});
    let (Obs::Row(pre), Obs::Row(post)) = (pre, post) else {
        ctx.violation(&format!("C10/sweep/run/{}", cfg.label()), &key, || format!("{key}: no row / crash: {pre:?} / {post:?}"), case);
        return;
    };
    let e = bds::expect_mb(pre, relaxed, mb);
    for b in &e.branch {
        ctx.count(&format!("sweep:{b}"));
    }
    ctx.outcome(&(e.branch.clone(), post.roll, post.track, post.grspeed, post.heading, post.selected_altitude));
    let bad = bds::check_mb(&e, pre, post);
    if !bad.is_empty() {
        ctx.violation(&format!("C10/sweep/{}/{}", e.branch.join("+"), cfg.label()), &key, || format!("MB {mb:014X} after {prefix:?} in DF{df}: {}", bad.join("; ")), case);
    }
}

fn mb_frame(df: u32, addr: u32, mb: u64) -> frames::Frame {
    mb_frame_at(df, addr, mb, 7000)
}
fn mb_frame_at(df: u32, addr: u32, mb: u64, alt_ft: i32) -> frames::Frame {
    if df == 20 { frames::df20(addr, frames::ac13_for_alt(alt_ft), mb) } else { frames::df21(addr, frames::id13_for_squawk(2101), mb) }
}
/// the altitude the swept reply itself reports (the register decoding does not depend on it)
fn reply_alt(p: Prefix) -> i32 {
    match p {
        Prefix::OpenHigh => 38000,
        _ => 7000,
    }
}

fn run_sweep(ctx: &mut Ctx, cfg: &Cfg, relaxed: bool, prefix: Prefix, df: u32, mbs: &[u64]) {
    for chunk in mbs.chunks(16384) {
        let pre_v: Vec<Vector> = chunk.iter().enumerate().map(|(i, _)| Vector { addr: BASE + i as u32, lines: prefix_lines(prefix, BASE + i as u32) }).collect();
        let post_v: Vec<Vector> = chunk
            .iter()
            .enumerate()
            .map(|(i, mb)| {
                let a = BASE + i as u32;
                let mut l = prefix_lines(prefix, a);
                l.push(mb_frame_at(df, a, *mb, reply_alt(prefix)).hex().into_bytes());
                Vector { addr: a, lines: l }
            })
            .collect();
        let pre = run_vectors(cfg, &pre_v);
        let post = run_vectors(cfg, &post_v);
        for (i, mb) in chunk.iter().enumerate() {
            judge_mb(ctx, cfg, relaxed, prefix, df, *mb, BASE + i as u32, &pre[i], &post[i]);
        }
    }
}

fn run(ctx: &mut Ctx) {
    squitterator::set_observer_coords_from_str(rowmodel::OBSERVER_STR);
    let thorough = ctx.tier.thorough();
    for opts in [&[][..], &["-R"][..], &["-U"][..], &["-U", "-R"][..]] {
        // quick: depth 4 where the gates matter (no -R), depth 3 under -R
        run_gate(ctx, opts, if thorough { 5 } else if opts.contains(&"-R") { 3 } else { 4 });
    }
    let mbs = sweep_mbs(thorough);
    let mut job = 0u64;
    for (opts, relaxed) in [(&[][..], false), (&["-R"][..], true), (&["-U"][..], false)] {
        let cfg = Cfg::new(opts);
        let prefixes: &[Prefix] = if relaxed { &[Prefix::Ca0, Prefix::Open] } else { &[Prefix::Open, Prefix::CaClosed, Prefix::NotAdvertised, Prefix::CreatedByFs5, Prefix::OpenAfterAdsbAnd10] };
        for &prefix in prefixes {
            for df in [20u32, 21] {
                if df == 21 && (opts.contains(&"-U") || prefix != Prefix::Open) {
                    continue;
                }
                for block in mbs.chunks(8192) {
                    job += 1;
                    if !ctx.mine(job) {
                        continue;
                    }
                    run_sweep(ctx, &cfg, relaxed, prefix, df, block);
                }
            }
        }
    }
    // data-link capability reports (BDS 1,0) that differ in one bit, before the registers: every MB bit
    // 9..56 outside 10-14, both polarities, 1,7 before or between the two reports
    let small: Vec<u64> = {
        let mut v = vec![];
        for b in b40_baselines() {
            v.push(frames::mb_bds40(&b));
        }
        for b in b50_baselines() {
            v.push(frames::mb_bds50(&b));
        }
        for b in b60_baselines() {
            v.push(frames::mb_bds60(&b));
        }
        v.push(frames::mb_bds20(frames::callsign_codes("DLH4XY")));
        v
    };
    for opts in [&[][..], &["-U"][..]] {
        let cfg = Cfg::new(opts);
        for order in 0..2u8 {
            for base in 0..2u8 {
                for bit in (9..=56u8).filter(|b| !(10..=14).contains(b)) {
                    job += 1;
                    if !ctx.mine(job) {
                        continue;
                    }
                    ctx.count("sweep:1,0-one-bit-context");
                    run_sweep(ctx, &cfg, false, Prefix::Toggle10 { order, base, bit }, 20, &small);
                }
            }
        }
    }
    // the reply itself reports a high altitude (the register decoding does not depend on the AC field of the reply)
    for opts in [&[][..], &["-U"][..]] {
        let cfg = Cfg::new(opts);
        let sub: Vec<u64> = mbs.iter().copied().enumerate().filter(|(i, _)| thorough || i % 3 == 0).map(|(_, m)| m).collect();
        for block in sub.chunks(8192) {
            job += 1;
            if !ctx.mine(job) {
                continue;
            }
            ctx.count("sweep:reply-at-38000ft");
            run_sweep(ctx, &cfg, false, Prefix::OpenHigh, 20, block);
        }
    }
    // an ADS-B velocity squitter tuned to the dual-layout register that follows: 5,0 keeps its precedence
    for opts in [&[][..], &["-U"][..], &["-R"][..]] {
        let cfg = Cfg::new(opts);
        for (k, d) in dual_layout_mbs().into_iter().enumerate() {
            if !thorough && k % 5 != 0 {
                continue;
            }
            job += 1;
            if !ctx.mine(job) {
                continue;
            }
            for mode in 0..2u8 {
                ctx.count("sweep:dual-layout after a tuned velocity squitter");
                run_sweep(ctx, &cfg, opts.contains(&"-R"), Prefix::AfterTunedTc19 { mode, of: d }, 20, &[d]);
            }
        }
    }
    // a register valid in both layouts after the row has seen an unambiguous 5,0 and an unambiguous 6,0 with
    // nearly the same heading and IAS (5,0 still has precedence, whatever the row holds)
    for opts in [&[][..], &["-U"][..]] {
        let cfg = Cfg::new(opts);
        for (k, d) in dual_layout_mbs().into_iter().enumerate() {
            if !ctx.tier.thorough() && k % 7 != 0 {
                continue;
            }
            job += 1;
            if !ctx.mine(job) {
                continue;
            }
            for b in 0..3u8 {
                ctx.count("sweep:dual-layout after unambiguous 5,0 and 6,0");
                run_sweep(ctx, &cfg, false, Prefix::After50And60 { b, hdg_ias_of: d }, 20, &[d]);
            }
        }
    }
    ctx.sample(|| json!({"GATE history": ["DF11 CA5", "DF20 BDS1,7 5,0", "DF21 BDS5,0 left turn"], "expected": "roll -10/-11, track 120, rate -1, GS 440, TAS 430 decoded"}));
    ctx.sample(|| json!({"sweep vector": [frames::df11(5, BASE, 0).hex(), frames::df20(BASE, frames::ac13_for_alt(7000), frames::mb_bds17(ALL_CAPS)).hex(), mb_frame(20, BASE, valid_bds60(true)).hex()], "expected": "heading 249, IAS 280, Mach 0.78, vertical rate -1920"}));
    ctx.bound("register sweep MB values", mbs.len());
    ctx.out.exhaustive = true;
}

fn replay(ctx: &mut Ctx, case: &Value) {
    squitterator::set_observer_coords_from_str(rowmodel::OBSERVER_STR);
    let opts: Vec<String> = case.get("cfg").and_then(|c| c.as_array()).map(|a| a.iter().filter_map(|x| x.as_str().map(String::from)).collect()).unwrap_or_default();
    let o: Vec<&str> = opts.iter().map(|s| s.as_str()).collect();
    let cfg = Cfg::new(&o);
    if case.get("kind").and_then(|x| x.as_str()) == Some("mb") {
        let mb = case.get("mb").and_then(|x| x.as_u64()).unwrap_or(0);
        let df = case.get("df").and_then(|x| x.as_u64()).unwrap_or(20) as u32;
        let addr = case.get("addr").and_then(|x| x.as_u64()).unwrap_or(BASE as u64) as u32;
        let prefix = parse_prefix(case.get("prefix").and_then(|x| x.as_str()).unwrap_or("Open"));
        let relaxed = o.contains(&"-R");
        let pre = run_vectors(&cfg, &[Vector { addr, lines: prefix_lines(prefix, addr) }]);
        let mut l = prefix_lines(prefix, addr);
        l.push(mb_frame_at(df, addr, mb, reply_alt(prefix)).hex().into_bytes());
        crate::run::say(&format!("lines {:?} cfg [{}]", l.iter().map(|x| String::from_utf8_lossy(x).into_owned()).collect::<Vec<_>>(), cfg.label()));
        let post = run_vectors(&cfg, &[Vector { addr, lines: l }]);
        if let (Some(a), Some(b)) = (pre[0].row(), post[0].row()) {
            crate::run::say(&format!("expectation branches {:?}; changes: {}", bds::expect_mb(a, relaxed, mb).branch, crate::snap::diff_fields(a, b).join("; ")));
        }
        judge_mb(ctx, &cfg, relaxed, prefix, df, mb, addr, &pre[0], &post[0]);
        return;
    }
    let depth = case.pointer("/extra/depth").and_then(|x| x.as_u64()).unwrap_or(3) as usize;
    let path: Vec<usize> = case.get("path").and_then(|p| p.as_array()).map(|a| a.iter().filter_map(|x| x.as_u64().map(|v| v as usize)).collect()).unwrap_or_default();
    let actions = gate_actions();
    let oracle = RowOracle { lookup: Lookup::new(), relaxed: o.contains(&"-R"), probe_idempotence: false, prop: "C10" };
    let model = Model { cfg: &cfg, actions: &actions, depth, init: vec![], aux0: Slots::default() };
    replay_path(ctx, &model, &path, rowmodel::aux_step, |ctx, st| {
        if crate::engine::explore::replay_leaf_conformance(ctx, case, "C10/GATE", &cfg, &[], &actions, st) {
            return;
        }
        let complaints = oracle.judge(ctx, &cfg, st);
        for (s, m) in &complaints {
            crate::run::say(&format!("  oracle [{s}]: {m}"));
        }
        rowmodel::report(ctx, "C10", "GATE", &cfg, &actions, st, complaints, json!({"depth": depth}));
    });
}
