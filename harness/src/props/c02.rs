//! C02 - a line is a frame iff its hex digits form a 56/112-bit frame of matching DF.

use super::Prop;
use crate::frames::{self, Frame};
use crate::refmodel::accept::{Verdict, classify_line};
use crate::report::{Ctx, Level, Partial, Tier};
use crate::run::{Cfg, Outcome, join_lines, run_file};
use crate::snap::{Snap, new_table, restore, snapshot};
use serde_json::{Value, json};
use squitterator::get_message;

pub static PROP: Prop = Prop { id: "C02", level, run, replay, gate, both_profiles: false, serial: false };

const A: u32 = 0x4CA2D6;
const P1: u32 = 0x3C6586;
const P2: u32 = 0xA1B2C3;

fn level(_t: Tier) -> Level {
    Level {
        category: "exploration",
        rule: "digit strings of every length 0..64 cut from three valid frames; every DF 0..31 at 14/26/28/40 digits in matching and mismatching length; every digit count behind each leading non-hex ASCII character; for each bare string every single insertion position x 14-symbol decoration alphabet (every non-hex ASCII character at the first, second, 13th, middle and last position) (pairs of positions for a 3-symbol alphabet in thorough), case variants, trailing CR, 12-digit prefix; each as a one-line run of the real reader on an empty and on a populated table (options default and -U); distinct_nontrivial = distinct (digit count, DF, verdict, decoration class) outcomes",
        assumptions: vec![
            "acceptance rule and reference address computed independently (refmodel::accept)".into(),
            "for DFs other than 0/4/5/11/16/17/18/20/21 the statements define no address: only no-crash, decoration invariance and length/DF agreement are judged".into(),
        ],
    }
}

fn gate(p: &Partial, t: Tier) -> Result<(), String> {
    super::default_gate(p, t)?;
    super::need(p, "accepted-frame", 200)?;
    super::need(p, "rejected-line", 500)?;
    super::need(p, "decorated-equal", 5000)?;
    super::need(p, "length-df-mismatch", 100)?;
    super::need(p, "aged-table-junk-stream", 4)?;
    Ok(())
}

fn populated() -> Vec<Snap> {
    let cfg = Cfg::new(&[]);
    let t = new_table();
    let lines: Vec<Vec<u8>> = [frames::df11(5, P1, 0), frames::df4(P1, frames::ac13_for_alt(9000)), frames::df11(5, P2, 0), frames::df5(P2, frames::id13_for_squawk(2101))].iter().map(|f| f.hex().into_bytes()).collect();
    assert!(run_file(&cfg, &join_lines(&lines), &t).is_ok());
    snapshot(&t)
}

/// a frame of format `df` in the given length (14 or 28 digits) whose parity/address is
/// consistent for its DF class under the reading "the length given is right"
fn frame_of(df: u32, long: bool) -> Frame {
    let nbits = if long { 112 } else { 56 };
    let mut f = Frame::zero(nbits);
    f.set(1, 5, df as u64);
    match df {
        11 | 17 | 18 => {
            f.set(6, 3, 5).set(9, 24, A as u64);
            if long {
                f.set(33, 56, frames::me_ident(4, 3, frames::callsign_codes("LEN56")));
            }
            f.seal(0);
        }
        _ => {
            f.set(6, 27, frames::surv_bits(0, 0, 0, frames::ac13_for_alt(31000)) as u64);
            if long {
                f.set(33, 56, 0x20_04D3_0C30_C30C);
            }
            f.seal(A);
        }
    }
    f
}

struct Env {
    pop: Vec<Snap>,
}

/// one-line run on `pre`; returns (outcome, table after)
fn one(cfg: &Cfg, pre: &[Snap], line: &[u8]) -> (Outcome, Vec<Snap>) {
    let t = restore(pre);
    let o = run_file(cfg, &join_lines(&[line.to_vec()]), &t);
    (o, snapshot(&t))
}

fn show(line: &[u8]) -> String {
    String::from_utf8_lossy(line).chars().flat_map(|c| c.escape_default()).collect()
}

/// oracle (i), (iii), (iv) on a bare or decorated line
fn judge_line(ctx: &mut Ctx, env: &Env, cfg: &Cfg, line: &[u8], class: &str) {
    let v = classify_line(line);
    let key = format!("{}/{}", show(line), cfg.label());
    let case = || json!({"line": line, "cfg": cfg.opts, "class": class});
    ctx.eval();
    ctx.outcome(&(crate::refmodel::accept::hex_digits(line).len(), &v, class));
    // (iv) public get_message
    if let Ok(s) = std::str::from_utf8(line) {
        let gm = std::panic::catch_unwind(|| get_message(s).is_some()).unwrap_or(true);
        let want = !matches!(v, Verdict::NotAFrame(_));
        if gm != want {
            ctx.violation("C02/get_message", &show(line), || format!("reference: {v:?}; get_message {}", if gm { "accepts" } else { "rejects" }), case);
            return;
        }
    }
    // how the line ends does not matter: last line without a line feed, CR LF, blank lines around it
    if !line.contains(&b'\n') {
        let (o_ref, ref_after) = one(cfg, &env.pop, line);
        let mut crlf = line.to_vec();
        crlf.extend_from_slice(b"\r\n");
        let mut framed = b"\n".to_vec();
        framed.extend_from_slice(line);
        framed.extend_from_slice(b"\n\n");
        for (tname, content) in [("no final line feed", line.to_vec()), ("CR LF", crlf), ("blank lines around", framed)] {
            let t = restore(&env.pop);
            let o = run_file(cfg, &content, &t);
            ctx.count("line-terminator-variant");
            if o != o_ref || snapshot(&t) != ref_after {
                ctx.violation(
                    &format!("C02/line-end/{tname}"),
                    &key,
                    || format!("line {} ({v:?}) ending with '{tname}': reader {} and {} rows; with a plain line feed: {} and {} rows", show(line), o.label(), snapshot(&t).len(), o_ref.label(), ref_after.len()),
                    || json!({"line": line, "cfg": cfg.opts, "class": class, "line_end": tname}),
                );
                return;
            }
        }
    }
    for (pname, pre) in [("empty", &vec![]), ("populated", &env.pop)] {
        let (o, after) = one(cfg, pre, line);
        if !o.is_ok() {
            ctx.violation(&format!("C02/run/{pname}"), &key, || format!("line {} ({v:?}): reader ended with {}", show(line), o.label()), case);
            return;
        }
        match &v {
            Verdict::NotAFrame(why) => {
                ctx.count("rejected-line");
                if *why == "length does not match DF" {
                    ctx.count("length-df-mismatch");
                }
                if after != *pre {
                    ctx.violation(&format!("C02/rejected-changes-table/{pname}"), &key, || format!("line {} is not a frame ({why}) but the {pname} table changed", show(line)), case);
                    return;
                }
            }
            Verdict::Frame { addr: 0, .. } => {
                ctx.count("zero-address");
                if after != *pre {
                    ctx.violation(&format!("C02/zero-address/{pname}"), &key, || format!("frame {} has address 0 but the table changed", show(line)), case);
                    return;
                }
            }
            Verdict::Frame { df, addr } => {
                ctx.count("accepted-frame");
                let keys_before: Vec<u32> = pre.iter().map(|s| s.key).collect();
                let mut want: Vec<u32> = keys_before.clone();
                if !want.contains(addr) {
                    want.push(*addr);
                    want.sort();
                }
                let keys_after: Vec<u32> = after.iter().map(|s| s.key).collect();
                if keys_after != want {
                    ctx.violation(&format!("C02/accepted-no-row/{pname}"), &key, || format!("DF{df} frame {} for {addr:06X}: rows before {keys_before:X?}, after {keys_after:X?}", show(line)), case);
                    return;
                }
            }
            Verdict::OtherFormat { .. } => {
                ctx.count("other-format(unconstrained)");
            }
        }
    }
}

/// oracle (ii): decorated line behaves exactly like the bare digit string
fn judge_decorated(ctx: &mut Ctx, env: &Env, cfg: &Cfg, bare: &[u8], decorated: &[u8], class: &str) {
    ctx.eval();
    let case = || json!({"line": decorated, "bare": bare, "cfg": cfg.opts, "class": class});
    for (pname, pre) in [("empty", &vec![]), ("populated", &env.pop)] {
        let (o1, a1) = one(cfg, pre, bare);
        let (o2, a2) = one(cfg, pre, decorated);
        ctx.count("decorated-equal");
        if o1 != o2 || a1 != a2 {
            ctx.violation(
                &format!("C02/decoration/{class}/{pname}"),
                &format!("{}/{}", show(decorated), cfg.label()),
                || format!("decorated line {} differs from its bare digits {}: {} / {} rows vs {} / {} rows", show(decorated), show(bare), o2.label(), a2.len(), o1.label(), a1.len()),
                case,
            );
            return;
        }
    }
    ctx.outcome(&(class, classify_line(bare)));
}

fn bare_strings() -> Vec<Vec<u8>> {
    let mut v: Vec<Vec<u8>> = vec![];
    let df17 = frames::df17(5, A, frames::me_ident(4, 3, frames::callsign_codes("EIN45F")));
    let df11 = frames::df11(5, A, 0);
    let df4 = frames::df4(A, frames::ac13_for_alt(31000));
    let df20 = frames::df20(A, frames::ac13_for_alt(7000), frames::mb_bds20(frames::callsign_codes("EIN45F")));
    for f in [&df17, &df11, &df4, &df20] {
        v.push(f.hex().into_bytes());
        v.push(format!("0123456789AB{}", f.hex()).into_bytes());
    }
    // the 12-digit time stamps receivers really produce at the extremes: all zeros, all ones, and the constant a
    // multilateration client puts in front of synthetic results
    for ts in ["000000000000", "FFFFFFFFFFFF", "FF004D4C4154", "ff004d4c4154"] {
        v.push(format!("{ts}{}", df17.hex()).into_bytes());
        v.push(format!("{ts}{}", df4.hex()).into_bytes());
    }
    // the smallest and the largest address in the address/parity formats and in a squitter
    for a in [0x000001u32, 0xFFFFFF, 0xFFFFFE, 0x800000] {
        v.push(frames::df0(a, frames::ac13_for_alt(3000)).hex().into_bytes());
        v.push(frames::df4(a, frames::ac13_for_alt(31000)).hex().into_bytes());
        v.push(frames::df20(a, frames::ac13_for_alt(7000), 0).hex().into_bytes());
        v.push(frames::df17(5, a, frames::me_ident(4, 3, frames::callsign_codes("EIN45F"))).hex().into_bytes());
    }
    // a short frame written twice on one line (28 digits announcing a 56-bit format), a short frame padded to 28
    // digits so that its last 24 bits are the short frame's own parity
    for f in [&df11, &df4] {
        v.push(format!("{0}{0}", f.hex()).into_bytes());
        v.push(format!("{}00000000000000{}", &f.hex()[..8], &f.hex()[8..]).into_bytes());
        v.push(format!("{0}{0}{0}", f.hex()).into_bytes()[..40].to_vec());
    }
    // rejected ones: 13, 15, 27, 29 digits, 14-digit prefix of a DF17, bad parity
    let h = df17.hex();
    v.push(h[..13].as_bytes().to_vec());
    v.push(h[..15].as_bytes().to_vec());
    v.push(h[..27].as_bytes().to_vec());
    v.push(format!("{h}A").into_bytes());
    v.push(h[..14].as_bytes().to_vec());
    let mut bad = df17;
    bad.flip(50);
    v.push(bad.hex().into_bytes());
    v.push(frames::df4(0, 100).hex().into_bytes());
    v
}

/// every ASCII character that is not a hexadecimal digit (and not LF), plus four multi-byte ones
fn decor() -> Vec<String> {
    let mut v: Vec<String> = (0u8..128).filter(|b| !b.is_ascii_hexdigit() && *b != b'\n').map(|b| (b as char).to_string()).collect();
    v.extend(["\u{e9}".to_string(), "\u{ff10}".to_string(), "\u{20ac}".to_string(), "\u{1d11e}".to_string()]);
    v
}

fn insert(bare: &[u8], pos: usize, d: &str) -> Vec<u8> {
    let mut v = bare[..pos].to_vec();
    v.extend_from_slice(d.as_bytes());
    v.extend_from_slice(&bare[pos..]);
    v
}

fn run(ctx: &mut Ctx) {
    let env = Env { pop: populated() };
    let cfgs = [Cfg::new(&[]), Cfg::new(&["-U"])];
    let mut job = 0u64;
    // S1: every digit count 0..64 cut from three patterns
    let pats: Vec<Vec<u8>> = vec![
        frames::df17(5, A, frames::me_ident(4, 3, frames::callsign_codes("EIN45F"))).hex().into_bytes(),
        frames::df11(5, A, 0).hex().into_bytes(),
        frames::df4(A, frames::ac13_for_alt(31000)).hex().into_bytes(),
    ];
    for cfg in &cfgs {
        for p in &pats {
            for n in 0..=64usize {
                job += 1;
                if !ctx.mine(job) {
                    continue;
                }
                let line: Vec<u8> = p.iter().cycle().take(n).copied().collect();
                judge_line(ctx, &env, cfg, &line, "length-sweep");
                // with a 12-digit prefix in front of the pattern
                let mut pl = b"00A1B2C3D4E5".to_vec();
                pl.extend(p.iter().cycle().take(n));
                judge_line(ctx, &env, cfg, &pl, "length-sweep+prefix");
            }
        }
        // S1b: every digit count 0..64 behind each leading non-hex ASCII character (framing markers
        // such as '*', '@', '<', ':' must never change which digit counts are frames)
        for (li, lead) in decor().iter().enumerate() {
            job += 1;
            if !ctx.mine(job) {
                continue;
            }
            let p = &pats[li % pats.len()];
            for n in 0..=64usize {
                let mut line: Vec<u8> = lead.as_bytes().to_vec();
                line.extend(p.iter().cycle().take(n));
                line.push(b';');
                judge_line(ctx, &env, cfg, &line, "leading-symbol");
            }
            // and in front of a valid long frame with 12 + 2 extra digits (42 digits: not a frame)
            let mut l42: Vec<u8> = lead.as_bytes().to_vec();
            l42.extend_from_slice(b"0123456789AB7F");
            l42.extend_from_slice(&pats[0]);
            judge_line(ctx, &env, cfg, &l42, "leading-symbol-42");
        }
        // S2: every DF x both lengths x with/without prefix
        for df in 0..32u32 {
            for long in [false, true] {
                job += 1;
                if !ctx.mine(job) {
                    continue;
                }
                let f = frame_of(df, long);
                judge_line(ctx, &env, cfg, f.hex().as_bytes(), "df-x-length");
                judge_line(ctx, &env, cfg, format!("0123456789AB{}", f.hex()).as_bytes(), "df-x-length+prefix");
                judge_line(ctx, &env, cfg, format!("*{};", f.hex().to_lowercase()).as_bytes(), "df-x-length+decor");
            }
        }
        // decorations
        for bare in bare_strings() {
            for pos in 0..=bare.len() {
                job += 1;
                if !ctx.mine(job) {
                    continue;
                }
                // every position gets the 14 classic symbols; the first, second, middle and last position get
                // every non-hex ASCII character
                let all = decor();
                let classic = ["*", "@", ";", " ", "\t", "\r", "-", ":", "g", "G", "x", "\u{e9}", "\u{ff10}", "\0"];
                if pos <= 1 || pos == bare.len() || pos == bare.len() / 2 || pos == 12 {
                    for d in &all {
                        judge_decorated(ctx, &env, cfg, &bare, &insert(&bare, pos, d), "single");
                    }
                } else {
                    for d in classic {
                        judge_decorated(ctx, &env, cfg, &bare, &insert(&bare, pos, d), "single");
                    }
                }
                if ctx.tier.thorough() {
                    for pos2 in pos..=bare.len() {
                        for (d1, d2) in [("*", ";"), (" ", "\r"), ("g", "\u{e9}")] {
                            let once = insert(&bare, pos2, d2);
                            judge_decorated(ctx, &env, cfg, &bare, &insert(&once, pos, d1), "pair");
                        }
                    }
                }
            }
            job += 1;
            if ctx.mine(job) {
                let s = String::from_utf8(bare.clone()).unwrap();
                let alt: String = s.chars().enumerate().map(|(i, c)| if i % 2 == 0 { c.to_ascii_lowercase() } else { c.to_ascii_uppercase() }).collect();
                for (d, class) in [
                    (s.to_lowercase(), "lower"),
                    (s.to_uppercase(), "upper"),
                    (alt, "alternating"),
                    (format!("{s}\r"), "trailing-CR"),
                    (format!("*{s};"), "avr"),
                    (format!("@{s};"), "sbs"),
                    (format!("  {s}  "), "blanks"),
                    (s.chars().map(|c| format!("{c} ")).collect::<String>(), "spaced"),
                ] {
                    judge_decorated(ctx, &env, cfg, &bare, d.as_bytes(), class);
                    judge_line(ctx, &env, cfg, d.as_bytes(), class);
                }
            }
        }
    }
    // every character of the Basic Multilingual Plane beyond ASCII (and a few beyond the BMP) as decoration in the
    // middle of an accepted 28-digit frame and at the end of a rejected 27-digit string: no character that is not
    // an ASCII hexadecimal digit ever counts as a digit
    {
        let cfg = &cfgs[0];
        let h = frames::df17(5, A, frames::me_ident(4, 3, frames::callsign_codes("EIN45F"))).hex();
        let good = h.as_bytes().to_vec();
        let short = h[..27].as_bytes().to_vec();
        let mut chars: Vec<char> = (0x80u32..=0xFFFF).filter_map(char::from_u32).collect();
        chars.extend(['\u{10141}', '\u{1D7D8}', '\u{1F130}', '\u{E0041}', '\u{10FF41}']);
        for block in chars.chunks(512) {
            job += 1;
            if !ctx.mine(job) {
                continue;
            }
            for c in block {
                let d = c.to_string();
                ctx.count("non-ascii-decoration");
                judge_decorated(ctx, &env, cfg, &good, &insert(&good, 14, &d), "non-ascii");
                judge_decorated(ctx, &env, cfg, &short, &insert(&short, 27, &d), "non-ascii");
            }
        }
    }
    // a table holding an expired aircraft, the table being redrawn after every line: 80 lines that are
    // not frames must leave it untouched (nothing but an accepted frame may trigger any table change)
    job += 1;
    if ctx.mine(job) {
        let mut aged = env.pop.clone();
        aged[0].tick(1_000_000);
        let junk: Vec<Vec<u8>> = (0..80).map(|k| match k % 4 { 0 => b"hello".to_vec(), 1 => pats[0][..27].to_vec(), 2 => vec![], _ => b"8D4CA2D6".to_vec() }).collect();
        for opts in [&["-i", "", "--update=-1"][..], &["-i", "aAews", "--update=-1", "-c"][..], &["-i", "", "--update=-1", "-d", "1", "-U"][..], &[][..]] {
            let cfg = Cfg::new(opts);
            let t = restore(&aged);
            let o = run_file(&cfg, &join_lines(&junk), &t);
            ctx.eval();
            ctx.count("aged-table-junk-stream");
            if !o.is_ok() || snapshot(&t) != aged {
                ctx.violation(
                    "C02/rejected-changes-table/aged",
                    &cfg.label(),
                    || format!("80 lines that are not frames, options [{}]: the table holding a long-silent aircraft changed ({} -> {} rows)", cfg.label(), aged.len(), snapshot(&t).len()),
                    || json!({"aged": true, "cfg": cfg.opts}),
                );
            }
        }
    }
    ctx.sample(|| json!({"line": "*8d4ca2d6...;", "rule": "same table as the bare upper-case digits"}));
    ctx.sample(|| json!({"line": String::from_utf8_lossy(&pats[0][..14]), "expected": "rejected: 14 digits announcing DF17"}));
    ctx.bound("digit counts", "0..64 (x3 patterns, with and without 12-digit prefix)");
    ctx.bound("DF x length", "32 x 2");
    ctx.out.exhaustive = true;
}

fn replay(ctx: &mut Ctx, case: &Value) {
    let env = Env { pop: populated() };
    if case.get("aged").is_some() {
        let opts: Vec<String> = case.get("cfg").and_then(|c| c.as_array()).map(|a| a.iter().filter_map(|x| x.as_str().map(String::from)).collect()).unwrap_or_default();
        let o: Vec<&str> = opts.iter().map(|s| s.as_str()).collect();
        let cfg = Cfg::new(&o);
        let mut aged = env.pop.clone();
        aged[0].tick(1_000_000);
        let p0 = frames::df17(5, A, frames::me_ident(4, 3, frames::callsign_codes("EIN45F"))).hex().into_bytes();
        let junk: Vec<Vec<u8>> = (0..80).map(|k| match k % 4 { 0 => b"hello".to_vec(), 1 => p0[..27].to_vec(), 2 => vec![], _ => b"8D4CA2D6".to_vec() }).collect();
        let t = restore(&aged);
        let oc = run_file(&cfg, &join_lines(&junk), &t);
        let same = snapshot(&t) == aged;
        crate::run::say(&format!("80 non-frame lines under [{}]: outcome {}, table unchanged: {same}", cfg.label(), oc.label()));
        if !oc.is_ok() || !same {
            ctx.violation("C02/rejected-changes-table/aged", "replay", || "table changed".into(), || case.clone());
        }
        return;
    }
    let bytes = |k: &str| -> Option<Vec<u8>> { case.get(k)?.as_array().map(|a| a.iter().filter_map(|x| x.as_u64().map(|b| b as u8)).collect()) };
    let opts: Vec<String> = case.get("cfg").and_then(|c| c.as_array()).map(|a| a.iter().filter_map(|x| x.as_str().map(String::from)).collect()).unwrap_or_default();
    let o: Vec<&str> = opts.iter().map(|s| s.as_str()).collect();
    let cfg = Cfg::new(&o);
    let Some(line) = bytes("line") else {
        ctx.machinery("replay without line");
        return;
    };
    crate::run::say(&format!("line {} -> reference verdict {:?}", show(&line), classify_line(&line)));
    if let Some(bare) = bytes("bare") {
        judge_decorated(ctx, &env, &cfg, &bare, &line, "replay");
    } else {
        judge_line(ctx, &env, &cfg, &line, "replay");
    }
}
