use crate::report::{Ctx, Level, Partial, Tier};
use serde_json::Value;

pub mod c01;
pub mod c02;
pub mod c03;
pub mod c04;
pub mod c05;
pub mod c06;
pub mod c07;
pub mod c08;
pub mod c09;
pub mod c10;
pub mod c11;
pub mod c12;
pub mod c13;
pub mod c14;
pub mod c15;
pub mod c16;
pub mod c17;
pub mod c18;
pub mod c19;
pub mod clitimed;
pub mod rowmodel;

pub struct Prop {
    pub id: &'static str,
    pub level: fn(Tier) -> Level,
    pub run: fn(&mut Ctx),
    pub replay: fn(&mut Ctx, &Value),
    pub gate: fn(&Partial, Tier) -> Result<(), String>,
    /// needs the overflow-checked harness build as well
    pub both_profiles: bool,
    /// must run in a single worker process
    pub serial: bool,
}

pub fn default_gate(p: &Partial, _t: Tier) -> Result<(), String> {
    if p.evals == 0 {
        return Err("no evaluations".into());
    }
    if p.outcomes.len() < 2 {
        return Err(format!("only {} distinct outcome(s) observed", p.outcomes.len()));
    }
    Ok(())
}

pub fn need(p: &Partial, counter: &str, min: u64) -> Result<(), String> {
    let n = p.counters.get(counter).copied().unwrap_or(0);
    if n < min { Err(format!("oracle branch '{counter}' taken {n} times (< {min})")) } else { Ok(()) }
}

pub static ALL: &[&Prop] = &[&c01::PROP, &c02::PROP, &c03::PROP, &c04::PROP, &c05::PROP, &c06::PROP, &c07::PROP, &c08::PROP, &c09::PROP, &c10::PROP, &c11::PROP, &c12::PROP, &c13::PROP, &c14::PROP, &c15::PROP, &c16::PROP, &c17::PROP, &c18::PROP, &c19::PROP];

pub fn lookup(id: &str) -> Option<&'static Prop> {
    ALL.iter().copied().find(|p| p.id == id)
}
