//! C07 - callsign and emitter category are decoded character-exactly (E1).

use super::Prop;
use crate::engine::cli;
use crate::engine::sweep::{CFG4, Obs, hexline, single, sweep};
use crate::frames::{self, Frame};
use crate::refmodel::fields;
use crate::report::{Ctx, Level, Partial, Tier};
use crate::run::{Cfg, capture_stdout, join_lines, run_file};
use crate::snap::new_table;
use serde_json::{Value, json};

pub static PROP: Prop = Prop { id: "C07", level, run, replay, gate, both_profiles: false, serial: false };

const BASE: u32 = 0x484001;
const SENT: &str = "ZZZZ9999";

fn level(_t: Tier) -> Level {
    Level {
        category: "exploration",
        rule: "every position 1..8 x every 6-bit code 0..63 with the other seven positions from 10 base fillings; all 64^2 code pairs for each of the 7 adjacent position pairs; TC 1..4 x CA 0..7; as first frame and as update of a row holding a sentinel callsign, under {default,-U,-R,-U -R}; the same 48-bit strings as BDS 2,0 in DF20 and DF21 under the capability states {row created by DF20 only, CA 0, CA 5}; the W column of the printed table for all TC x CA; distinct_nontrivial = distinct (carrier, callsign, category) outcomes",
        assumptions: vec!["oracle: 1-26 -> A-Z, 48-57 -> 0-9, every other code omitted, order kept; category = (TC, CA); wake letter table L S M H J R for TC 4 with CA 1,2,3,4,5,7".into(), "BDS 2,0 callsign only when the capability gate of C10 allows it (CA >= 4 recorded or -R), otherwise unchanged; an all-invalid callsign may show as empty or blank".into()],
    }
}

fn gate(p: &Partial, t: Tier) -> Result<(), String> {
    super::default_gate(p, t)?;
    super::need(p, "ident-checked", 100_000)?;
    super::need(p, "bds20-gate-open", 1000)?;
    super::need(p, "bds20-gate-closed", 1000)?;
    super::need(p, "wake-column", 32)?;
    Ok(())
}

#[derive(Clone, Copy, Debug, PartialEq, Eq, Hash)]
enum Carrier {
    Ident,           // DF17 TC1-4
    Bds20 { df: u32, pre: u32 }, // pre: 0 = row created by DF20 only, 1 = DF11 CA0, 2 = DF11 CA5
}

#[derive(Clone, Copy)]
struct V {
    chars: [u32; 8],
    tc: u32,
    ca: u32,
    update: bool,
    carrier: Carrier,
    /// Ident update only: the previous ident squitter (callsign, tc, ca); None = the sentinel
    prev: Option<([u32; 8], u32, u32)>,
}

fn bases() -> Vec<[u32; 8]> {
    let mut v = vec![[1u32; 8], [32u32; 8]];
    for c in [1u32, 26, 48, 57, 0, 63, 27, 47] {
        v.push([c; 8]);
    }
    v
}

fn frame(v: &V, addr: u32) -> Frame {
    match v.carrier {
        Carrier::Ident => frames::df17(5, addr, frames::me_ident(v.tc, v.ca, v.chars)),
        Carrier::Bds20 { df: 20, .. } => frames::df20(addr, frames::ac13_for_alt(7000), frames::mb_bds20(v.chars)),
        Carrier::Bds20 { .. } => frames::df21(addr, frames::id13_for_squawk(2101), frames::mb_bds20(v.chars)),
    }
}

fn lines(v: &V, addr: u32) -> Vec<Vec<u8>> {
    let mut l = vec![];
    match v.carrier {
        Carrier::Ident => {
            if v.update {
                l.push(hexline(&frames::df11(5, addr, 0)));
                match v.prev {
                    Some((c, tc, ca)) => l.push(hexline(&frames::df17(5, addr, frames::me_ident(tc, ca, c)))),
                    None => l.push(hexline(&frames::df17(5, addr, frames::me_ident(2, 6, frames::callsign_codes(SENT))))),
                }
            }
        }
        Carrier::Bds20 { pre, .. } => match pre {
            0 => l.push(hexline(&frames::df20(addr, frames::ac13_for_alt(7000), 0))),
            1 => l.push(hexline(&frames::df11(0, addr, 0))),
            3 => {
                // capability 5 and an identification squitter with another callsign before the reply
                l.push(hexline(&frames::df11(5, addr, 0)));
                l.push(hexline(&frames::df17(5, addr, frames::me_ident(4, 3, frames::callsign_codes(SENT)))));
            }
            _ => l.push(hexline(&frames::df11(5, addr, 0))),
        },
    }
    l.push(hexline(&frame(v, addr)));
    l
}

fn judge(ctx: &mut Ctx, cfg: &Cfg, v: &V, addr: u32, o: &Obs) {
    ctx.eval();
    let want = fields::callsign(&v.chars);
    let key = format!("chars={:?} tc{} ca{}", v.chars, v.tc, v.ca);
    let case = || json!({"chars": v.chars, "tc": v.tc, "ca": v.ca, "update": v.update, "prev": v.prev.map(|(c, t, a)| json!({"chars": c, "tc": t, "ca": a})), "carrier": match v.carrier { Carrier::Ident => json!("ident"), Carrier::Bds20 { df, pre } => json!({"df": df, "pre": pre}) }, "cfg": cfg.opts, "addr": addr});
    let Obs::Row(s) = o else {
        ctx.violation(&format!("C07/run/{}", cfg.label()), &key, || format!("{}: no row / crash: {o:?}", frame(v, addr).hex()), case);
        return;
    };
    let relaxed = cfg.opts.iter().any(|x| x == "-R");
    let ais_matches = |a: &Option<String>| -> bool { a.as_deref() == Some(want.as_str()) || (want.is_empty() && a.is_none()) };
    match v.carrier {
        Carrier::Ident => {
            ctx.count("ident-checked");
            ctx.outcome(&("ident", &s.ais, s.category));
            let site = format!("C07/ident/{}/{}", if v.update { "update" } else { "first" }, cfg.label());
            if !ais_matches(&s.ais) {
                ctx.violation(&site, &key, || format!("{} ({key}): expected callsign {want:?}, row shows {:?}", frame(v, addr).hex(), s.ais), case);
            } else if s.category != (v.tc, v.ca) {
                ctx.violation(&site, &key, || format!("{} ({key}): expected category ({},{}), row shows {:?}", frame(v, addr).hex(), v.tc, v.ca, s.category), case);
            }
        }
        Carrier::Bds20 { df, pre } => {
            let open = relaxed || pre >= 2;
            let site = format!("C07/bds20/DF{df}/pre{pre}/{}", cfg.label());
            ctx.outcome(&("bds20", &s.ais, open));
            if open {
                ctx.count("bds20-gate-open");
                if !ais_matches(&s.ais) {
                    ctx.violation(&site, &key, || format!("{} ({key}): gate open, expected callsign {want:?}, row shows {:?}", frame(v, addr).hex(), s.ais), case);
                }
            } else {
                ctx.count("bds20-gate-closed");
                if s.ais.is_some() && pre != 3 {
                    ctx.violation(&site, &key, || format!("{} ({key}): no capability >= 4 recorded and no -R, yet the row shows callsign {:?}", frame(v, addr).hex(), s.ais), case);
                }
            }
            let want_cat = if pre == 3 { (4, 3) } else { (0, 0) };
            if s.category != want_cat {
                ctx.violation(&site, &key, || format!("BDS 2,0 reply changed the emitter category to {:?}", s.category), case);
            }
        }
    }
}

fn char_vectors(thorough: bool) -> Vec<[u32; 8]> {
    let mut v = vec![];
    for b in bases() {
        for pos in 0..8 {
            for c in 0..64 {
                let mut x = b;
                x[pos] = c;
                v.push(x);
            }
        }
    }
    let pair_bases: Vec<[u32; 8]> = if thorough { vec![[1; 8], [32; 8], [57; 8]] } else { vec![[1; 8]] };
    for b in pair_bases {
        for pos in 0..7 {
            for c1 in 0..64 {
                for c2 in 0..64 {
                    let mut x = b;
                    x[pos] = c1;
                    x[pos + 1] = c2;
                    v.push(x);
                }
            }
        }
    }
    v.push(frames::callsign_codes("EIN45F"));
    v.push(frames::callsign_codes("BAW224U"));
    v
}

fn wake_column(ctx: &mut Ctx) {
    // W column of the printed table for all TC x CA (in-process print with stdout captured)
    let cfg = Cfg::new(&["-i", "", "--update=-1"]);
    for tc in 1..=4u32 {
        for ca in 0..8u32 {
            let f = frames::df17(5, 0x4CA2D6, frames::me_ident(tc, ca, frames::callsign_codes("WAKE")));
            let t = new_table();
            let (o, out) = capture_stdout(|| run_file(&cfg, &join_lines(&[f.hex().into_bytes()]), &t));
            ctx.eval();
            ctx.count("wake-column");
            let blocks = cli::blocks(&out);
            let row = blocks.last().and_then(|b| b.lines().find(|l| l.starts_with("4CA2D6")).map(|s| s.to_string()));
            let w = row.as_ref().and_then(|r| r.chars().nth(15));
            let want = fields::wake(tc, ca).unwrap_or(' ');
            let cs = row.as_ref().map(|r| r.chars().skip(17).take(8).collect::<String>());
            if !o.is_ok() || w != Some(want) || cs.as_deref().map(|s| s.trim_end()) != Some("WAKE") {
                ctx.violation("C07/wake-column", &format!("tc{tc} ca{ca}"), || format!("TC{tc} CA{ca}: expected W column {want:?} and callsign WAKE, printed row {row:?}"), || json!({"wake": true, "tc": tc, "ca": ca}));
            }
        }
    }
}

fn run(ctx: &mut Ctx) {
    let thorough = ctx.tier.thorough();
    let cv = char_vectors(thorough);
    let mut items: Vec<V> = vec![];
    for (i, chars) in cv.iter().enumerate() {
        for update in [false, true] {
            items.push(V { chars: *chars, tc: 1 + (i as u32 % 4), ca: (i as u32 / 4) % 8, update, carrier: Carrier::Ident, prev: None });
        }
    }
    // TC x CA complete
    for tc in 1..=4 {
        for ca in 0..8 {
            for update in [false, true] {
                items.push(V { chars: frames::callsign_codes("CAT"), tc, ca, update, carrier: Carrier::Ident, prev: None });
            }
        }
    }
    // same callsign, changed category / type code: every (tc1, ca1) -> (tc2, ca2)
    for cs in ["EIN45F", "A"] {
        let c = frames::callsign_codes(cs);
        for tc1 in 1..=4 {
            for ca1 in 0..8 {
                for tc2 in 1..=4 {
                    for ca2 in 0..8 {
                        items.push(V { chars: c, tc: tc2, ca: ca2, update: true, carrier: Carrier::Ident, prev: Some((c, tc1, ca1)) });
                    }
                }
            }
        }
    }
    // BDS 2,0 carriers: single-position family + named strings
    for (i, chars) in cv.iter().enumerate() {
        if i >= 10 * 8 * 64 && i % 7 != 0 {
            continue; // pairs: every 7th for the Comm-B carriers
        }
        for df in [20u32, 21] {
            for pre in 0..4u32 {
                if pre == 3 && fields::callsign(chars).is_empty() {
                    continue; // an empty BDS 2,0 callsign may leave the squitter's callsign in place
                }
                items.push(V { chars: *chars, tc: 0, ca: 0, update: true, carrier: Carrier::Bds20 { df, pre }, prev: None });
            }
        }
    }
    let mut job = 0u64;
    for opts in CFG4 {
        let cfg = Cfg::new(opts);
        for block in items.chunks(4096) {
            job += 1;
            if !ctx.mine(job) {
                continue;
            }
            let mut res: Vec<(V, u32, Obs)> = vec![];
            sweep(&cfg, block, BASE, lines, |v, a, o| res.push((*v, a, o.clone())));
            for (v, a, o) in &res {
                judge(ctx, &cfg, v, *a, o);
            }
        }
    }
    // diagonals: the callsign spells the aircraft's own address in hexadecimal, or the four digits of the squawk the
    // row shows (in a DF21 whose identity field and MB field say the same, and in a DF20 after a DF5)
    for opts in CFG4 {
        let cfg = Cfg::new(opts);
        job += 1;
        if ctx.mine(job) {
            let mut own: Vec<V> = vec![];
            for i in 0..1024u32 {
                let chars = frames::callsign_codes(&format!("{:06X}", BASE + i));
                own.push(V { chars, tc: 4, ca: 3, update: i % 2 == 1, carrier: if i % 4 < 2 { Carrier::Ident } else { Carrier::Bds20 { df: 20 + (i / 4) % 2, pre: 2 } }, prev: None });
            }
            let mut res: Vec<(V, u32, Obs)> = vec![];
            sweep(&cfg, &own, BASE, lines, |v, a, o| res.push((*v, a, o.clone())));
            for (v, a, o) in &res {
                ctx.count("diagonal:callsign-spells-address");
                judge(ctx, &cfg, v, *a, o);
            }
        }
        for block in 0..4u32 {
            job += 1;
            if !ctx.mine(job) {
                continue;
            }
            for s in (block * 1024)..((block + 1) * 1024) {
                let sq = (s >> 9 & 7) * 1000 + (s >> 6 & 7) * 100 + (s >> 3 & 7) * 10 + (s & 7);
                let digits = format!("{sq:04}");
                let chars = frames::callsign_codes(&digits);
                let addr = 0x48A000 + s;
                for form in 0..2 {
                    let l: Vec<Vec<u8>> = if form == 0 {
                        vec![hexline(&frames::df11(5, addr, 0)), hexline(&frames::df5(addr, frames::id13_for_squawk(sq))), hexline(&frames::df20(addr, frames::ac13_for_alt(7000), frames::mb_bds20(chars)))]
                    } else {
                        vec![hexline(&frames::df11(5, addr, 0)), hexline(&frames::df21(addr, frames::id13_for_squawk(sq), frames::mb_bds20(chars))), hexline(&frames::df21(addr, frames::id13_for_squawk(sq), frames::mb_bds20(chars)))]
                    };
                    let o = crate::engine::sweep::single(&cfg, addr, l);
                    ctx.eval();
                    ctx.count("diagonal:callsign-spells-squawk");
                    let got = o.row().and_then(|r| r.ais.clone());
                    if got.as_deref() != Some(digits.as_str()) {
                        ctx.violation(&format!("C07/diagonal-squawk/{}", cfg.label()), &format!("{digits}/form{form}"), || format!("an aircraft squawking {digits} reports the flight id \"{digits}\" by BDS 2,0 ({}): callsign shown {got:?}", if form == 0 { "DF5 then DF20" } else { "DF21 carrying both, twice" }), || json!({"diag_squawk": s, "form": form, "cfg": cfg.opts}));
                    }
                }
            }
        }
    }
    job += 1;
    if ctx.mine(job) {
        wake_column(ctx);
    }
    ctx.sample(|| json!({"line": frames::df17(5, BASE, frames::me_ident(4, 3, frames::callsign_codes("EIN45F"))).hex(), "expected": {"callsign": "EIN45F", "category": [4, 3], "W": "M"}}));
    ctx.sample(|| json!({"chars": [1, 26, 48, 57, 0, 63, 27, 47], "expected_callsign": "AZ09"}));
    ctx.bound("character vectors", cv.len());
    ctx.out.exhaustive = true;
}

fn replay_diag(ctx: &mut Ctx, case: &Value) -> bool {
    let Some(s) = case.get("diag_squawk").and_then(|x| x.as_u64()) else { return false };
    let s = s as u32;
    let form = case.get("form").and_then(|x| x.as_u64()).unwrap_or(0);
    let opts: Vec<String> = case.get("cfg").and_then(|c| c.as_array()).map(|a| a.iter().filter_map(|x| x.as_str().map(String::from)).collect()).unwrap_or_default();
    let o: Vec<&str> = opts.iter().map(|s| s.as_str()).collect();
    let cfg = Cfg::new(&o);
    let sq = (s >> 9 & 7) * 1000 + (s >> 6 & 7) * 100 + (s >> 3 & 7) * 10 + (s & 7);
    let digits = format!("{sq:04}");
    let chars = frames::callsign_codes(&digits);
    let addr = 0x48A000 + s;
    let l: Vec<Vec<u8>> = if form == 0 {
        vec![hexline(&frames::df11(5, addr, 0)), hexline(&frames::df5(addr, frames::id13_for_squawk(sq))), hexline(&frames::df20(addr, frames::ac13_for_alt(7000), frames::mb_bds20(chars)))]
    } else {
        vec![hexline(&frames::df11(5, addr, 0)), hexline(&frames::df21(addr, frames::id13_for_squawk(sq), frames::mb_bds20(chars))), hexline(&frames::df21(addr, frames::id13_for_squawk(sq), frames::mb_bds20(chars)))]
    };
    let got = crate::engine::sweep::single(&cfg, addr, l).row().and_then(|r| r.ais.clone());
    crate::run::say(&format!("squawk {digits} and flight id \"{digits}\" (form {form}), cfg [{}]: callsign shown {got:?}", cfg.label()));
    if got.as_deref() != Some(digits.as_str()) {
        ctx.violation("C07/diagonal-squawk", &digits, || format!("callsign {got:?}"), || case.clone());
    }
    true
}

fn replay(ctx: &mut Ctx, case: &Value) {
    if replay_diag(ctx, case) {
        return;
    }
    if case.get("wake").is_some() {
        wake_column(ctx);
        return;
    }
    let opts: Vec<String> = case.get("cfg").and_then(|c| c.as_array()).map(|a| a.iter().filter_map(|x| x.as_str().map(String::from)).collect()).unwrap_or_default();
    let o: Vec<&str> = opts.iter().map(|s| s.as_str()).collect();
    let cfg = Cfg::new(&o);
    let g = |k: &str| case.get(k).and_then(|x| x.as_u64()).unwrap_or(0) as u32;
    let mut chars = [0u32; 8];
    if let Some(a) = case.get("chars").and_then(|x| x.as_array()) {
        for (i, c) in a.iter().enumerate().take(8) {
            chars[i] = c.as_u64().unwrap_or(0) as u32;
        }
    }
    let carrier = match case.get("carrier") {
        Some(Value::String(_)) | None => Carrier::Ident,
        Some(c) => Carrier::Bds20 { df: c.get("df").and_then(|x| x.as_u64()).unwrap_or(20) as u32, pre: c.get("pre").and_then(|x| x.as_u64()).unwrap_or(0) as u32 },
    };
    let prev = case.get("prev").filter(|p| !p.is_null()).map(|p| {
        let mut c = [0u32; 8];
        if let Some(a) = p.get("chars").and_then(|x| x.as_array()) {
            for (i, x) in a.iter().enumerate().take(8) {
                c[i] = x.as_u64().unwrap_or(0) as u32;
            }
        }
        (c, p.get("tc").and_then(|x| x.as_u64()).unwrap_or(0) as u32, p.get("ca").and_then(|x| x.as_u64()).unwrap_or(0) as u32)
    });
    let v = V { chars, tc: g("tc"), ca: g("ca"), update: case.get("update").and_then(|x| x.as_bool()).unwrap_or(false), carrier, prev };
    let addr = case.get("addr").and_then(|x| x.as_u64()).map(|a| a as u32).unwrap_or(BASE);
    let ob = single(&cfg, addr, lines(&v, addr));
    crate::run::say(&format!("lines {:?} cfg [{}]: reference callsign {:?}; row callsign {:?} category {:?}", lines(&v, addr).iter().map(|l| String::from_utf8_lossy(l).into_owned()).collect::<Vec<_>>(), cfg.label(), fields::callsign(&chars), ob.row().map(|s| s.ais.clone()), ob.row().map(|s| s.category)));
    judge(ctx, &cfg, &v, addr, &ob);
}
