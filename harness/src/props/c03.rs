//! C03 - every frame is attributed to exactly the address it encodes; rows are isolated.

use super::Prop;
use super::rowmodel::{self, RowOracle};
use crate::engine::explore::{Model, explore, replay_path};
use crate::engine::sweep::{Obs, Vector, run_vectors};
use crate::frames::Frame;
use crate::refmodel::country::Lookup;
use crate::refmodel::sem::{Slots, ref_address};
use crate::report::{Ctx, Level, Partial, Tier};
use crate::run::Cfg;
use serde_json::{Value, json};
use squitterator::{get_downlink_format, get_icao, get_message};

pub static PROP: Prop = Prop { id: "C03", level, run, replay, gate, both_profiles: false, serial: false };

const FORMATS: [u32; 9] = [0, 4, 5, 11, 16, 17, 18, 20, 21];

fn level(t: Tier) -> Level {
    Level {
        category: "exploration",
        rule: if t.thorough() {
            "public get_icao on the nibble vector of frames built with an independent CRC-24: all 2^24 addresses x 9 formats x 3 payloads; all payloads of Hamming weight <= 2 x 30 addresses x 9 formats; the zero address per format; the same families at stride (every 257th address, weight <= 1) through get_message and the reader thread (row key); model ROW with 3 aircraft to depth 3 under default and (quick: 2 aircraft, thorough: 3) under -U, with continuous-run conformance at the leaves: only the row keyed by the frame's reference address may differ, key set grows by at most that key, row.icao == key; distinct_nontrivial = distinct (format, payload, verdict) outcomes + table states"
        } else {
            "public get_icao on the nibble vector of frames built with an independent CRC-24: all 2^24 addresses x 9 formats x 1 payload; all payloads of Hamming weight <= 1 (weight <= 2 for DF4/DF20/DF17) x 30 addresses x 9 formats; the zero address per format; the same families at stride (every 257th address, weight <= 1) through get_message and the reader thread (row key); model ROW with 3 aircraft to depth 3 under default and (quick: 2 aircraft, thorough: 3) under -U, with continuous-run conformance at the leaves: only the row keyed by the frame's reference address may differ, key set grows by at most that key, row.icao == key; distinct_nontrivial = distinct (format, payload, verdict) outcomes + table states"
        },
        assumptions: vec![
            "reference address: AA (bits 9-32) for DF11/17/18; last 24 bits XOR plain MSB-first bit-serial CRC-24 (0x1FFF409) of the preceding bits otherwise".into(),
            "formats other than the nine are outside the statement".into(),
        ],
    }
}

fn gate(p: &Partial, _t: Tier) -> Result<(), String> {
    if p.evals < 9 * (1 << 24) {
        return Err(format!("only {} evaluations", p.evals));
    }
    super::need(p, "get_icao:address-space", 9 * (1 << 24) - 100)?;
    super::need(p, "get_icao:payload-family", 10_000)?;
    super::need(p, "get_icao:region-pairs", 500)?;
    super::need(p, "xor-neighbour", 10_000)?;
    super::need(p, "zero-address-dropped", 9)?;
    super::need(p, "reader-seam:row-key", 100_000)?;
    super::need(p, "step:other-rows-present", 10_000)?;
    if p.states.len() < 1000 {
        return Err(format!("only {} ROW states", p.states.len()));
    }
    Ok(())
}

fn nibbles(f: &Frame) -> Vec<u32> {
    let n = (f.nbits / 4) as usize;
    (0..n).map(|i| ((f.v >> (4 * (n - 1 - i))) & 0xF) as u32).collect()
}

fn is_long(df: u32) -> bool {
    df >= 16
}

/// frame of format `df` for `addr` with the free bits (6..32 w/o AA, and MB/ME) given by `payload`
/// (payload bit i set => the i-th free bit set)
fn build(df: u32, addr: u32, payload: u128) -> Frame {
    let nbits = if is_long(df) { 112 } else { 56 };
    let mut f = Frame::zero(nbits);
    f.set(1, 5, df as u64);
    // free bit positions
    let mut pos: Vec<u32> = vec![];
    match df {
        11 | 17 | 18 => {
            pos.extend(6..=8);
            pos.extend(33..=(nbits - 24));
        }
        _ => pos.extend(6..=(nbits - 24)),
    }
    for (i, p) in pos.iter().enumerate() {
        if (payload >> i) & 1 == 1 {
            f.set(*p, 1, 1);
        }
    }
    match df {
        11 | 17 | 18 => {
            f.set(9, 24, addr as u64);
            f.seal(0);
        }
        _ => {
            f.seal(addr);
        }
    }
    f
}

fn free_bits(df: u32) -> u32 {
    let nbits = if is_long(df) { 112 } else { 56 };
    match df {
        11 | 17 | 18 => 3 + (nbits - 24 - 32),
        _ => nbits - 24 - 5,
    }
}

fn typical_payload(df: u32) -> u128 {
    let n = free_bits(df);
    let mut v: u128 = 0;
    let mut x: u64 = 0x9E3779B97F4A7C15;
    for i in 0..n {
        x ^= x << 13;
        x ^= x >> 7;
        x ^= x << 17;
        if x & 1 == 1 {
            v |= 1u128 << i;
        }
    }
    v
}

thread_local! {
    /// the frame decoded just before on this thread (a wrong answer may depend on it)
    /// (most recent last; consecutive frames with identical data bits are collapsed)
    static PREV: std::cell::RefCell<Vec<Frame>> = const { std::cell::RefCell::new(Vec::new()) };
}

fn check_icao(ctx: &mut Ctx, f: &Frame, want: u32, family: &'static str) {
    let msg = nibbles(f);
    let df = f.df();
    let got = get_icao(&msg, df);
    ctx.eval();
    ctx.count(family);
    let want_opt = if want == 0 { None } else { Some(want) };
    let prev: Vec<Frame> = PREV.with(|p| {
        let mut h = p.borrow_mut();
        let before: Vec<Frame> = h.iter().filter(|x| (x.v >> 24, x.nbits) != (f.v >> 24, f.nbits)).cloned().collect();
        if h.last().map(|x| (x.v >> 24, x.nbits)) != Some((f.v >> 24, f.nbits)) {
            h.push(*f);
            if h.len() > 4 {
                h.remove(0);
            }
        }
        before
    });
    if got != want_opt {
        let hex = f.hex();
        // does the wrong answer depend on what was decoded before? (a fresh thread has no history)
        let alone = {
            let m = msg.clone();
            std::thread::Builder::new().name("sqv-fresh".into()).spawn(move || get_icao(&m, df)).ok().and_then(|h| h.join().ok()).unwrap_or(None)
        };
        let history = alone == want_opt;
        let prevhex: Vec<String> = prev.iter().map(|p| p.hex()).collect();
        ctx.violation(
            &format!("C03/get_icao{}/DF{df}", if history { "-history" } else { "" }),
            &hex,
            || format!("{hex}: reference address {want_opt:06X?}, get_icao gives {got:06X?}{}", if history { format!(" when decoded right after {prevhex:?} (alone it gives the right address)") } else { String::new() }),
            || json!({"kind": "icao", "hex": hex, "prev": if history { prevhex.clone() } else { vec![] }}),
        );
    }
}

/// pairs of frames decoded back to back that agree everywhere except in one region of the
/// frame (and the address): any decoder state keyed on less than the whole frame shows up
fn region_pairs(ctx: &mut Ctx) {
    let regions: [(u32, u32); 7] = [(6, 8), (9, 19), (20, 24), (25, 32), (33, 56), (57, 88), (89, 112)];
    for &df in &FORMATS {
        let nbits = if is_long(df) { 112 } else { 56 };
        let a1 = 0x4CA2D6;
        let f1 = build(df, a1, typical_payload(df));
        for &(lo, hi) in &regions {
            if lo > nbits - 24 && !(lo == 89 && nbits == 112) {
                continue;
            }
            for variant in 0..4u32 {
                // f2 = f1 with the region replaced (flip all / flip lowest / flip highest / alternate), re-sealed for another address
                let mut f2 = f1;
                if hi <= nbits - 24 {
                    let w = hi - lo + 1;
                    let old = f2.get(lo, w);
                    let mask = match variant {
                        0 => (1u64 << w) - 1,
                        1 => 1,
                        2 => 1u64 << (w - 1),
                        _ => 0x5555_5555_5555_5555 & ((1u64 << w) - 1),
                    };
                    f2.set(lo, w, old ^ mask);
                }
                let a2 = 0x3C6586 + variant;
                let (want1, want2);
                match df {
                    11 | 17 | 18 => {
                        // AA lies in 9..32: for those regions the address itself changes; otherwise keep a1
                        f2.seal(0);
                        want1 = f1.get(9, 24) as u32;
                        want2 = f2.get(9, 24) as u32;
                    }
                    _ => {
                        if lo == 89 || hi <= nbits - 24 {
                            f2.seal(a2);
                        }
                        want1 = a1;
                        want2 = a2;
                    }
                }
                for order in 0..2 {
                    let seq = if order == 0 { [(f1, want1), (f2, want2)] } else { [(f2, want2), (f1, want1)] };
                    // a third frame far away first, so that the pair is really adjacent
                    let far = build(df, 0x123457, 0);
                    check_icao(ctx, &far, 0x123457, "get_icao:region-pairs");
                    for (f, w) in seq {
                        check_icao(ctx, &f, w, "get_icao:region-pairs");
                    }
                }
            }
        }
    }
}

/// run one family on a fresh thread: decoder-internal per-thread state starts empty and the
/// recorded decode history (PREV) covers everything that can influence an answer
fn on_fresh_thread(ctx: &mut Ctx, f: impl FnOnce(&mut Ctx) + Send) {
    std::thread::scope(|s| {
        std::thread::Builder::new().name("sqv-family".into()).spawn_scoped(s, || f(ctx)).expect("spawn").join().expect("family thread");
    });
}

fn family_addresses() -> Vec<u32> {
    let mut v = vec![1, 0x800000, 0xFFFFFF, 0x4CA123, 0xAAAAAA, 0x555555];
    for b in 0..24 {
        v.push(1u32 << b);
    }
    v.sort();
    v.dedup();
    v
}

fn run(ctx: &mut Ctx) {
    let thorough = ctx.tier.thorough();
    // (1) all 2^24 addresses x 9 formats x payload set
    let npay = if thorough { 3 } else { 1 };
    for &df in &FORMATS {
        let all_ones: u128 = (1u128 << free_bits(df)) - 1;
        let pays = [typical_payload(df), 0u128, all_ones];
        for pay in pays.iter().take(npay) {
            // the CRC of the data bits is constant over the address sweep for address/parity formats
            let base = build(df, 0, *pay);
            let pay = *pay;
            on_fresh_thread(ctx, |ctx| {
            let mut a = ctx.part as u32;
            while a < (1 << 24) {
                let f = match df {
                    11 | 17 | 18 => {
                        let mut f = base;
                        f.set(9, 24, a as u64);
                        // PI is not read for the address; keep it consistent every 4099th address
                        if a % 4099 == 0 {
                            f.seal(0);
                        }
                        f
                    }
                    _ => Frame { v: base.v ^ a as u128, nbits: base.nbits },
                };
                if a == 0 {
                    ctx.count("zero-address-dropped");
                }
                check_icao(ctx, &f, a, "get_icao:address-space");
                if a % 1_048_573 == 0 {
                    ctx.outcome(&(df, a >> 20, f.remainder() == 0));
                }
                a += ctx.nparts as u32;
            }
            });
            ctx.outcome(&(df, pay == 0, pay == all_ones));
        }
    }
    // (2) payload families of Hamming weight <= 1 / <= 2
    let addrs = family_addresses();
    let mut job = 0u64;
    for &df in &FORMATS {
        let n = free_bits(df);
        let w2 = thorough || matches!(df, 4 | 20 | 17);
        for i in 0..=n {
            job += 1;
            if !ctx.mine(job) {
                continue;
            }
            // i == n: the empty payload
            let p1: u128 = if i == n { 0 } else { 1u128 << i };
            let seconds: Vec<u128> = if w2 && i < n { std::iter::once(0u128).chain(((i + 1)..n).map(|j| 1u128 << j)).collect() } else { vec![0] };
            let addrs = &addrs;
            on_fresh_thread(ctx, |ctx| {
                for s in seconds {
                    for &a in addrs {
                        let f = build(df, a, p1 | s);
                        check_icao(ctx, &f, a, "get_icao:payload-family");
                    }
                }
            });
        }
    }
    job += 1;
    if ctx.mine(job) {
        on_fresh_thread(ctx, region_pairs);
    }
    // frames with algebraic structure with respect to the generator (a prefix that is itself a multiple of it,
    // zero / one / 0x5A fill): the address is still the reference one, in every format and for every first byte
    for &df in &FORMATS {
        job += 1;
        if !ctx.mine(job) {
            continue;
        }
        on_fresh_thread(ctx, |ctx| {
            let nbits = if df < 16 { 56 } else { 112 };
            for low3 in 0..8u8 {
                let first = ((df as u8) << 3) | low3;
                for lead in [[first, 0x4C, 0xA2, 0xD6, 0x58, 0x0F, 0x82, 0xDD, 0xDE, 0xCF, 0x5C], [first, 0xF8, 0xBA, 0x93, 0x00, 0x12, 0x34, 0x56, 0x78, 0x9A, 0xBC], [first, 0, 0, 1, 0, 0, 0, 0, 0, 0, 0]] {
                    for ap in [0u32, 0x4CA2D6] {
                        for f in crate::frames::crc_structured(&lead, nbits, ap) {
                            let want = ref_address(&f).unwrap_or(0);
                            check_icao(ctx, &f, want, "get_icao:crc-structured");
                        }
                    }
                }
            }
        });
    }
    // (3) binding to get_message and to the reader seam (row key) at stride
    let cfg = Cfg::new(&[]);
    for &df in &FORMATS {
        job += 1;
        if !ctx.mine(job) {
            continue;
        }
        let mut frames_: Vec<(u32, Frame)> = vec![];
        let mut a = 1u32;
        while a < (1 << 24) {
            frames_.push((a, build(df, a, typical_payload(df))));
            a += 257;
        }
        for i in 0..free_bits(df) {
            // distinct addresses so that every vector has its own row
            frames_.push((0x700000 + df * 256 + i, build(df, 0x700000 + df * 256 + i, 1u128 << i)));
        }
        for chunk in frames_.chunks(32768) {
            let vecs: Vec<Vector> = chunk.iter().map(|(a, f)| Vector { addr: *a, lines: vec![f.hex().into_bytes()] }).collect();
            let obs = run_vectors(&cfg, &vecs);
            for ((a, f), o) in chunk.iter().zip(obs.iter()) {
                ctx.eval();
                ctx.count("reader-seam:row-key");
                let hex = f.hex();
                let gm = get_message(&hex).and_then(|m| get_downlink_format(&m).and_then(|d| get_icao(&m, d)));
                let row_ok = matches!(o, Obs::Row(s) if s.icao == *a && s.key == *a);
                if gm != Some(*a) || !row_ok {
                    ctx.violation(
                        &format!("C03/reader/DF{df}"),
                        &hex,
                        || format!("{hex}: reference address {a:06X}; get_message+get_icao {gm:06X?}; row {:?}", o.row().map(|s| (s.key, s.icao))),
                        || json!({"kind": "reader", "hex": hex}),
                    );
                }
            }
        }
        // the frame whose address is zero creates no row
        let z = build(df, 0, typical_payload(df));
        let o = run_vectors(&cfg, &[Vector { addr: 0, lines: vec![z.hex().into_bytes()] }]);
        ctx.eval();
        if !matches!(o[0], Obs::NoRow) {
            ctx.violation(&format!("C03/reader/DF{df}"), &z.hex(), || format!("{}: address 0 must be dropped, got {:?}", z.hex(), o[0]), || json!({"kind": "reader", "hex": z.hex()}));
        }
    }
    // (3') XOR-neighbour isolation: aircraft A is in the table; a frame arrives from an address B that
    // differs from A by a "meaningful" XOR constant (one byte in any position - e.g. a BDS code -, the
    // CRC syndrome of a single data bit, a single bit). B must get its own row and A must not change.
    job += 1;
    if ctx.mine(job) {
        xor_neighbours(ctx);
    }
    // (3'') a tracked aircraft's address inside the PAYLOAD of another aircraft's frame (ACAS threat identity,
    // air-air replies, ...): the frame still belongs to its sender alone
    embedded_addresses(ctx, &mut job);
    // (3d) isolation does not depend on how many aircraft are tracked: n rows, then one frame of a new
    // aircraft - all n rows are still there, bit-identical (n around powers of two and table limits)
    for n in [1000usize, 4095, 4096, 4097, 5000, 32768, 65535, 65536, 65537] {
        for opts in [&[][..], &["-U"][..]] {
            job += 1;
            if ctx.mine(job) {
                ctx.eval();
                ctx.count("crowded-table-isolation");
                let cfg = Cfg::new(opts);
                if let Some(what) = crate::run::with_wedge_limit(180_000, || crowded_case(&cfg, n)) {
                    ctx.violation(&format!("C03/crowded/{}", cfg.label()), &format!("{n} aircraft"), || format!("{n} tracked aircraft, then one frame of a new one: {what}"), || json!({"kind": "crowded", "n": n, "cfg": cfg.opts}));
                }
            }
        }
    }
    // (4) row isolation over model ROW with three aircraft
    run_row(ctx, &[], 3, 3);
    if thorough {
        run_row(ctx, &["-U"], 3, 3);
    } else {
        run_row(ctx, &["-U"], 2, 3);
    }
    ctx.sample(|| json!({"frame": build(20, 0x4CA123, typical_payload(20)).hex(), "reference_address": "4CA123"}));
    ctx.sample(|| json!({"ROW history": ["A:DF4 31000ft", "B:TC19 v1", "C:DF20 BDS5,0"], "expected": "each frame touches only the row keyed by its own address"}));
    ctx.bound("addresses", "all 16777216 per format");
    ctx.out.exhaustive = true;
}

/// 56-bit payloads that carry the 24-bit address `a` at bit offset `o` (0-based), for every leading byte of
/// interest, with and without the bit after the leading byte (ACAS ARA), every value of the two bits in
/// front of the address (ACAS TTI) and zero / one fill
fn payloads_with_address(a: u32) -> Vec<u64> {
    let mut v = vec![];
    for b0 in [0x00u64, 0x10, 0x17, 0x20, 0x30, 0x40, 0x50, 0x60, 0xE1, 0xFF] {
        for ara in 0..2u64 {
            for o in 8..=32u32 {
                for pre2 in 0..4u64 {
                    for fill in [0u64, 1] {
                        let mut m: u64 = if fill == 1 { (1u64 << 48) - 1 } else { 0 };
                        m |= b0 << 48;
                        // bit 9 (first after the leading byte)
                        m = (m & !(1u64 << 47)) | (ara << 47);
                        // the address and the two bits before it
                        let sh = 56 - o - 24;
                        m = (m & !(0xFF_FFFFu64 << sh)) | ((a as u64) << sh);
                        if o >= 10 {
                            m = (m & !(3u64 << (sh + 24))) | (pre2 << (sh + 24));
                        }
                        v.push(m & ((1u64 << 56) - 1));
                    }
                }
            }
        }
    }
    v.sort();
    v.dedup();
    v
}

fn embedded_case(cfg: &Cfg, fmt: usize, payload: u64) -> (bool, String, String) {
    use crate::frames;
    use crate::run::{join_lines, run_file};
    use crate::snap::{new_table, snapshot};
    let (a, b, c) = (0x4CA2D6u32, 0x4CA2D7u32, 0x3C6586u32);
    let seed: Vec<Vec<u8>> = vec![
        frames::df11(5, a, 0).hex().into_bytes(),
        frames::df20(a, frames::ac13_for_alt(7000), frames::mb_bds17(0xFFFFFF)).hex().into_bytes(),
        frames::df17(5, a, frames::me_ident(4, 3, frames::callsign_codes("ALPHA"))).hex().into_bytes(),
        frames::df11(5, b, 0).hex().into_bytes(),
        frames::df4(b, frames::ac13_for_alt(9000)).hex().into_bytes(),
        frames::df11(5, c, 0).hex().into_bytes(),
    ];
    let t0 = new_table();
    let _ = run_file(cfg, &join_lines(&seed), &t0);
    let before = snapshot(&t0);
    let alt = frames::ac13_for_alt(31000);
    let sq = frames::id13_for_squawk(4521);
    let f = match fmt {
        0 => frames::df20(c, alt, payload),
        1 => frames::df21(c, sq, payload),
        2 => frames::df16(c, alt, payload),
        3 => frames::df17(5, c, payload),
        _ => frames::es(18, 2, c, payload),
    };
    let o = run_file(cfg, &join_lines(&[f.hex().into_bytes()]), &t0);
    let after = snapshot(&t0);
    let others_same = [a, b].iter().all(|k| before.iter().find(|r| r.key == *k) == after.iter().find(|r| r.key == *k));
    let ok = o.is_ok() && others_same && after.len() == 3;
    let d = [a, b]
        .iter()
        .filter_map(|k| {
            let (x, y) = (before.iter().find(|r| r.key == *k)?, after.iter().find(|r| r.key == *k)?);
            if x == y { None } else { Some(format!("{k:06X}: {}", crate::snap::diff_fields(x, y).join("; "))) }
        })
        .collect::<Vec<_>>()
        .join(" | ");
    (ok, f.hex(), d)
}

fn crowded_case(cfg: &Cfg, n: usize) -> Option<String> {
    use crate::frames;
    use crate::run::{join_lines, run_file};
    use crate::snap::{new_table, snapshot};
    let lines: Vec<Vec<u8>> = (0..n as u32).map(|i| if i % 2 == 0 { frames::df11(5, 0x100001 + i, 0) } else { frames::df4(0x100001 + i, frames::ac13_for_alt(1000 + (i as i32 % 400) * 100)) }.hex().into_bytes()).collect();
    let t = new_table();
    let o = run_file(cfg, &join_lines(&lines), &t);
    let before = snapshot(&t);
    if !o.is_ok() || before.len() != n {
        return Some(format!("after the {n} frames the table has {} rows (reader {})", before.len(), o.label()));
    }
    let newcomer = frames::df17(5, 0x3C6586, frames::me_ident(4, 3, frames::callsign_codes("NEWONE")));
    let o = run_file(cfg, &join_lines(&[newcomer.hex().into_bytes()]), &t);
    let after = snapshot(&t);
    if !o.is_ok() || after.len() != n + 1 {
        return Some(format!("after the newcomer's frame the table has {} rows, expected {} (reader {})", after.len(), n + 1, o.label()));
    }
    let idx: std::collections::HashMap<u32, &crate::snap::Snap> = after.iter().map(|r| (r.key, r)).collect();
    let changed = before.iter().filter(|r| idx.get(&r.key).copied() != Some(*r)).count();
    if changed > 0 { Some(format!("{changed} of the {n} rows changed or vanished")) } else { None }
}

fn embedded_addresses(ctx: &mut Ctx, job: &mut u64) {
    let names = ["DF20", "DF21", "DF16", "DF17", "DF18"];
    for opts in [&[][..], &["-U"][..], &["-R"][..], &["-U", "-R"][..]] {
        let cfg = Cfg::new(opts);
        for target in [0x4CA2D6u32, 0x4CA2D7] {
            for (pi, payload) in payloads_with_address(target).into_iter().enumerate() {
                if pi % 64 == 0 {
                    *job += 1;
                }
                if !ctx.mine(*job) {
                    continue;
                }
                for fmt in 0..names.len() {
                    let (ok, hex, d) = embedded_case(&cfg, fmt, payload);
                    ctx.eval();
                    ctx.count("address-in-payload");
                    if !ok {
                        ctx.violation(
                            &format!("C03/address-in-payload/{}", cfg.label()),
                            &format!("{} payload {payload:014X}", names[fmt]),
                            || format!("{} frame {hex} of 3C6586 whose payload contains the address {target:06X} of a tracked aircraft changed another row: {d}", names[fmt]),
                            || json!({"kind": "embedded", "fmt": fmt, "payload": payload, "cfg": cfg.opts}),
                        );
                    }
                }
            }
        }
    }
}

fn xor_neighbours(ctx: &mut Ctx) {
    use crate::frames;
    use crate::run::{join_lines, run_file};
    use crate::snap::{new_table, snapshot};
    let a: u32 = 0x4CA2D6;
    // frames of B by format (address/parity formats and squitters), incl. Comm-B registers
    let mk = |b: u32| -> Vec<(&'static str, Frame)> {
        let alt = frames::ac13_for_alt(31000);
        let sq = frames::id13_for_squawk(4521);
        vec![
            ("DF0", frames::df0(b, alt)),
            ("DF4", frames::df4(b, alt)),
            ("DF5", frames::df5(b, sq)),
            ("DF16", frames::df16(b, alt, 0)),
            ("DF20 empty", frames::df20(b, alt, 0)),
            ("DF20 BDS1,0", frames::df20(b, alt, 0x10_0000_8000_0000)),
            ("DF20 BDS1,7", frames::df20(b, alt, frames::mb_bds17(0xFFFFFF))),
            ("DF21 BDS2,0", frames::df21(b, sq, frames::mb_bds20(frames::callsign_codes("XORNB")))),
            ("DF20 BDS3,0", frames::df20(b, alt, frames::mb_bds30(1 << 13, 0, 0, 0, 0, 0))),
            ("DF20 BDS4,0", frames::df20(b, alt, frames::mb_bds40(&frames::B40 { s_mcp: 1, mcp: 2000, s_fms: 1, fms: 2250, s_baro: 1, baro: 2132, s_mode: 1, mode: 2, s_src: 1, src: 1, ..Default::default() }))),
            ("DF20 BDS5,0", frames::df20(b, alt, super::rowmodel::valid_bds50(false))),
            ("DF21 BDS6,0", frames::df21(b, sq, super::rowmodel::valid_bds60(true))),
            ("DF11", frames::df11(5, b, 0)),
            ("DF17", frames::df17(5, b, frames::me_ident(4, 3, frames::callsign_codes("XORNB")))),
        ]
    };
    let mut deltas: Vec<u32> = vec![];
    for d in 1..=255u32 {
        deltas.extend([d, d << 8, d << 16]);
    }
    // CRC syndromes of single data bits (56- and 112-bit frames)
    for nbits in [56u32, 112] {
        for k in 0..(nbits - 24) {
            deltas.push(frames::crc24(1u128 << k, nbits - 24));
        }
    }
    deltas.sort();
    deltas.dedup();
    for opts in [&[][..], &["-U"][..], &["-R"][..]] {
        let cfg = Cfg::new(opts);
        // the state of A alone (capability 5, all registers advertised, callsign, altitude)
        let seed: Vec<Vec<u8>> = vec![
            frames::df11(5, a, 0).hex().into_bytes(),
            frames::df20(a, frames::ac13_for_alt(7000), frames::mb_bds17(0xFFFFFF)).hex().into_bytes(),
            frames::df17(5, a, frames::me_ident(4, 3, frames::callsign_codes("ALPHA"))).hex().into_bytes(),
            frames::df20(a, frames::ac13_for_alt(7000), super::rowmodel::valid_bds50(true)).hex().into_bytes(),
        ];
        let t0 = new_table();
        let _ = run_file(&cfg, &join_lines(&seed), &t0);
        let a_alone = snapshot(&t0);
        for &d in &deltas {
            let b = a ^ d;
            if b == 0 {
                continue;
            }
            for (name, f) in mk(b) {
                let t = crate::snap::restore(&a_alone);
                let o = run_file(&cfg, &join_lines(&[f.hex().into_bytes()]), &t);
                let after = snapshot(&t);
                ctx.eval();
                ctx.count("xor-neighbour");
                let a_after = after.iter().find(|r| r.key == a);
                let b_row = after.iter().find(|r| r.key == b);
                if !o.is_ok() || a_after != a_alone.first() || b_row.is_none() || after.len() != 2 {
                    let hex = f.hex();
                    ctx.violation(
                        &format!("C03/xor-neighbour/{}", cfg.label()),
                        &format!("{name} from {b:06X} (= {a:06X} xor {d:06X})"),
                        || format!("{name} frame {hex} from {b:06X} while {a:06X} is tracked: rows afterwards {:X?}, row of {a:06X} unchanged: {}", after.iter().map(|r| r.key).collect::<Vec<_>>(), a_after == a_alone.first()),
                        || json!({"kind": "xor", "hex": hex, "cfg": cfg.opts}),
                    );
                }
            }
        }
    }
}

fn run_row(ctx: &mut Ctx, opts: &[&str], naircraft: usize, depth: usize) {
    let cfg = Cfg::new(opts);
    let actions = rowmodel::row_alphabet(naircraft);
    let oracle = RowOracle { lookup: Lookup::new(), relaxed: false, probe_idempotence: false, prop: "C03" };
    let model = Model { cfg: &cfg, actions: &actions, depth, init: vec![], aux0: Slots::default() };
    explore(ctx, &model, rowmodel::aux_step, |ctx, st| {
        let complaints: Vec<(String, String)> = oracle.judge(ctx, &cfg, st).into_iter().filter(|(s, _)| matches!(s.as_str(), "key-set" | "cross-talk" | "row-address" | "crash" | "rejected-changes-table")).collect();
        rowmodel::report(ctx, "C03", "ROW", &cfg, &actions, st, complaints, json!({"naircraft": naircraft, "depth": depth}));
        crate::engine::explore::leaf_conformance(ctx, "C03/ROW", "ROW", &cfg, &[], &actions, st, depth, json!({"naircraft": naircraft, "depth": depth}));
    });
    ctx.bound(&format!("ROW [{}]", cfg.label()), format!("{naircraft} aircraft, depth {depth}, {} actions", actions.len()));
}

fn replay(ctx: &mut Ctx, case: &Value) {
    match case.get("kind").and_then(|x| x.as_str()) {
        Some("xor") => {
            use crate::frames;
            use crate::run::{join_lines, run_file};
            use crate::snap::{new_table, snapshot};
            let a: u32 = 0x4CA2D6;
            let opts: Vec<String> = case.get("cfg").and_then(|c| c.as_array()).map(|a| a.iter().filter_map(|x| x.as_str().map(String::from)).collect()).unwrap_or_default();
            let o: Vec<&str> = opts.iter().map(|s| s.as_str()).collect();
            let cfg = Cfg::new(&o);
            let hex = case.get("hex").and_then(|x| x.as_str()).unwrap_or("").to_string();
            let seed: Vec<Vec<u8>> = vec![
                frames::df11(5, a, 0).hex().into_bytes(),
                frames::df20(a, frames::ac13_for_alt(7000), frames::mb_bds17(0xFFFFFF)).hex().into_bytes(),
                frames::df17(5, a, frames::me_ident(4, 3, frames::callsign_codes("ALPHA"))).hex().into_bytes(),
                frames::df20(a, frames::ac13_for_alt(7000), super::rowmodel::valid_bds50(true)).hex().into_bytes(),
            ];
            let t0 = new_table();
            let _ = run_file(&cfg, &join_lines(&seed), &t0);
            let a_alone = snapshot(&t0);
            let t = crate::snap::restore(&a_alone);
            let oc = run_file(&cfg, &join_lines(&[hex.clone().into_bytes()]), &t);
            let after = snapshot(&t);
            let b = Frame::from_hex(&hex).and_then(|f| ref_address(&f)).unwrap_or(0);
            let ok = oc.is_ok() && after.iter().find(|r| r.key == a) == a_alone.first() && after.iter().any(|r| r.key == b) && after.len() == 2;
            crate::run::say(&format!("{hex} (reference address {b:06X}) while {a:06X} is tracked, cfg [{}]: rows afterwards {:X?}; isolated: {ok}", cfg.label(), after.iter().map(|r| r.key).collect::<Vec<_>>()));
            if !ok {
                ctx.violation("C03/xor-neighbour", &hex, || "frame of a neighbouring address touched another row or got no row".into(), || case.clone());
            }
        }
        Some("crowded") => {
            let opts: Vec<String> = case.get("cfg").and_then(|c| c.as_array()).map(|a| a.iter().filter_map(|x| x.as_str().map(String::from)).collect()).unwrap_or_default();
            let o: Vec<&str> = opts.iter().map(|s| s.as_str()).collect();
            let cfg = Cfg::new(&o);
            let n = case.get("n").and_then(|x| x.as_u64()).unwrap_or(1000) as usize;
            let r = crate::run::with_wedge_limit(180_000, || crowded_case(&cfg, n));
            crate::run::say(&format!("{n} tracked aircraft, then one frame of a new one, cfg [{}]: {}", cfg.label(), r.clone().unwrap_or_else(|| "all rows kept bit-identical".into())));
            if let Some(what) = r {
                ctx.violation("C03/crowded", &format!("{n}"), || what, || case.clone());
            }
        }
        Some("embedded") => {
            let opts: Vec<String> = case.get("cfg").and_then(|c| c.as_array()).map(|a| a.iter().filter_map(|x| x.as_str().map(String::from)).collect()).unwrap_or_default();
            let o: Vec<&str> = opts.iter().map(|s| s.as_str()).collect();
            let cfg = Cfg::new(&o);
            let fmt = case.get("fmt").and_then(|x| x.as_u64()).unwrap_or(0) as usize;
            let payload = case.get("payload").and_then(|x| x.as_u64()).unwrap_or(0);
            let (ok, hex, d) = embedded_case(&cfg, fmt, payload);
            crate::run::say(&format!("frame {hex} of 3C6586 while 4CA2D6 and 4CA2D7 are tracked, cfg [{}]: other rows untouched: {ok} {d}", cfg.label()));
            if !ok {
                ctx.violation("C03/address-in-payload", &hex, || "a frame changed the row of an aircraft whose address it carries in its payload".into(), || case.clone());
            }
        }
        Some("icao") | Some("reader") => {
            let hex = case.get("hex").and_then(|x| x.as_str()).unwrap_or("").to_string();
            let Some(f) = Frame::from_hex(&hex) else {
                ctx.machinery("bad hex");
                return;
            };
            let want = ref_address(&f).unwrap_or(0);
            for p in case.get("prev").and_then(|x| x.as_array()).cloned().unwrap_or_default().iter().filter_map(|x| x.as_str()).filter_map(Frame::from_hex) {
                let g = get_icao(&nibbles(&p), p.df());
                crate::run::say(&format!("decoded before: {} -> {g:06X?}", p.hex()));
            }
            let got = get_icao(&nibbles(&f), f.df());
            let cfg = Cfg::new(&[]);
            let o = run_vectors(&cfg, &[Vector { addr: want, lines: vec![hex.clone().into_bytes()] }]);
            crate::run::say(&format!("{hex}: reference address {want:06X}, get_icao {got:06X?}, row {:?}", o[0].row().map(|s| (s.key, s.icao))));
            let want_opt = if want == 0 { None } else { Some(want) };
            let row_ok = if want == 0 { matches!(o[0], Obs::NoRow) } else { matches!(&o[0], Obs::Row(s) if s.icao == want) };
            if got != want_opt || !row_ok {
                ctx.violation("C03/replay", &hex, || "address attribution differs from the reference".into(), || case.clone());
            }
        }
        _ => {
            let opts: Vec<String> = case.get("cfg").and_then(|c| c.as_array()).map(|a| a.iter().filter_map(|x| x.as_str().map(String::from)).collect()).unwrap_or_default();
            let o: Vec<&str> = opts.iter().map(|s| s.as_str()).collect();
            let cfg = Cfg::new(&o);
            let n = case.pointer("/extra/naircraft").and_then(|x| x.as_u64()).unwrap_or(3) as usize;
            let depth = case.pointer("/extra/depth").and_then(|x| x.as_u64()).unwrap_or(3) as usize;
            let path: Vec<usize> = case.get("path").and_then(|p| p.as_array()).map(|a| a.iter().filter_map(|x| x.as_u64().map(|v| v as usize)).collect()).unwrap_or_default();
            let actions = rowmodel::row_alphabet(n);
            let oracle = RowOracle { lookup: Lookup::new(), relaxed: false, probe_idempotence: false, prop: "C03" };
            let model = Model { cfg: &cfg, actions: &actions, depth, init: vec![], aux0: Slots::default() };
            replay_path(ctx, &model, &path, rowmodel::aux_step, |ctx, st| {
                if crate::engine::explore::replay_leaf_conformance(ctx, case, "C03/ROW", &cfg, &[], &actions, st) {
                    return;
                }
                let complaints: Vec<(String, String)> = oracle.judge(ctx, &cfg, st).into_iter().filter(|(s, _)| matches!(s.as_str(), "key-set" | "cross-talk" | "row-address" | "crash" | "rejected-changes-table")).collect();
                for (s, m) in &complaints {
                    crate::run::say(&format!("  oracle [{s}]: {m}"));
                }
                rowmodel::report(ctx, "C03", "ROW", &cfg, &actions, st, complaints, json!({"naircraft": n, "depth": depth}));
            });
        }
    }
}
