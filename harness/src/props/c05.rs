//! C05 - barometric altitude equals the Mode S altitude-code decoding (E1, whole domain).

use super::Prop;
use crate::engine::sweep::{CFG4, Obs, hexline, single, sweep};
use crate::frames::{self, Frame};
use crate::refmodel::fields::{self, Alt};
use crate::report::{Ctx, Level, Partial, Tier};
use crate::run::Cfg;
use serde_json::{Value, json};

pub static PROP: Prop = Prop { id: "C05", level, run, replay, gate, both_profiles: false, serial: false };

const SENTINEL_ALT: u32 = 12325;
const BASE: u32 = 0x500001;

fn level(_t: Tier) -> Level {
    Level {
        category: "exploration",
        rule: "all 2^13 AC13 codes in DF4 and DF20, all 2^12 AC12 codes for each TC 9..18, x base sets of the other payload bits x {first frame, update of a row holding the sentinel altitude 12325 ft} x option sets {default,-U,-R,-U -R}; each vector has its own address and runs through the real reader thread; distinct_nontrivial = distinct (format, decoded altitude) outcomes",
        assumptions: vec![
            "oracle: Q=1 -> 25N-1000 if >= 0; all-zero or negative -> none; Q=0 -> Gillham decoder validated by round trip against an independently written encoder (1280 legal codes); M=1 skipped and counted".into(),
            "on an update 'no altitude' admits {blank, previous value}; a DF20 that creates the row may contribute the address only".into(),
        ],
    }
}

fn gate(p: &Partial, t: Tier) -> Result<(), String> {
    super::default_gate(p, t)?;
    super::need(p, "value-expected", 100_000)?;
    super::need(p, "none-expected", 10_000)?;
    super::need(p, "metric-skipped", 1000)?;
    Ok(())
}

#[derive(Clone, Copy)]
struct V {
    /// 4, 20 or 17
    df: u32,
    tc: u32,
    code: u32,
    base: u32,
    update: bool,
    /// how the row came to exist (update only): 0 = DF11 CA5, 1 = DF11 CA0, 2 = by the sentinel DF4 alone, 3 = by a DF21,
    /// 4 = DF11 CA5, sentinel DF4, then a surface squitter (which blanks the altitude) - the sentinel is gone
    pre: u32,
}

fn frame(v: &V, addr: u32) -> Frame {
    match v.df {
        4 => frames::short_ap(4, b6_for(v.base, v.code), addr),
        20 => {
            let b6 = b6_for(v.base, v.code);
            let mb = match v.base.min(99) {
                0 => 0,
                1 => 0x00FF_FFFF_FFFF_FFFF,
                2 => frames::mb_bds20(frames::callsign_codes("ALT20")),
                // plausible registers of every kind the program knows
                60 => frames::mb_bds45(1, 40, 1025, 50),
                61 => frames::mb_bds45(3, 100, 1100, 156),
                62 => frames::mb_bds44(30, 100, 80, 1013, 1, 30),
                63 => crate::props::rowmodel::valid_bds50(false),
                64 => crate::props::rowmodel::valid_bds60(true),
                65 => frames::mb_bds30(1 << 13, 0, 0, 1, 1, 0x4CA2D6 << 2),
                66 => frames::mb_bds17(0xFFFFFF),
                k => 1u64 << (55 - ((k as u64 - 3) * 4)),
            };
            frames::long_ap(20, b6, mb, addr)
        }
        _ => {
            let me = match v.base {
                0 => frames::me_airpos(v.tc, 0, 0, v.code, 0, 0, 93000, 51372),
                1 => frames::me_airpos(v.tc, 3, 1, v.code, 1, 1, 0x1FFFF, 0x1FFFF),
                2 => frames::me_airpos(v.tc, 1, 0, v.code, 0, 1, 0, 0),
                // one of the other ME bits set: SS(2) SAF(1) | T F LAT(17) LON(17), every 3rd
                k => {
                    let j = (k - 3) as u64;
                    let bit = if j < 3 { 50 - j } else { 35 - (j - 3) * 3 };
                    frames::me_airpos(v.tc, 0, 0, v.code, 0, 0, 0, 0) | (1u64 << bit)
                }
            };
            frames::df17(5, addr, me)
        }
    }
}

fn b6_for(base: u32, code: u32) -> u32 {
    match base {
        0 => frames::surv_bits(0, 0, 0, code),
        1 | 2 => frames::surv_bits(7, 31, 63, code),
        // every flight-status value on its own (on the ground, alert, SPI)
        k if k >= 100 => frames::surv_bits(k - 100, 0, 0, code),
        60..=66 => frames::surv_bits(0, 0, 0, code),
        k => (1u32 << (13 + (k - 3))) | code,
    }
}

fn lines(v: &V, addr: u32) -> Vec<Vec<u8>> {
    let mut l = vec![];
    if v.update {
        match v.pre {
            0 => l.push(hexline(&frames::df11(5, addr, 0))),
            1 => l.push(hexline(&frames::df11(0, addr, 0))),
            3 => l.push(hexline(&frames::df21(addr, frames::id13_for_squawk(1234), 0))),
            _ => {}
        }
        l.push(hexline(&frames::df4(addr, frames::ac13_for_alt(SENTINEL_ALT as i32))));
        if v.pre == 5 {
            // the sentinel altitude came with the very position (same parity, same CPR fields) that the frame under
            // test repeats with another altitude
            l.clear();
            l.push(hexline(&frames::df11(5, addr, 0)));
            l.push(hexline(&frames::df17(5, addr, frames::me_airpos(v.tc, 0, 0, frames::ac12_for_alt(SENTINEL_ALT as i32), 0, 0, 93000, 51372))));
        }
        if v.pre == 6 {
            // the row shows a squawk whose 13-bit identity field is the very bit pattern of the altitude code under test
            l.push(hexline(&frames::df5(addr, v.code & 0x1FFF)));
        }
        if v.pre == 7 || v.pre == 8 {
            // after a surface squitter of a STOPPED aircraft (movement code 1; 8: movement 0 = no information)
            l.insert(0, hexline(&frames::df11(5, addr, 0)));
            l.push(hexline(&frames::df17(5, addr, frames::me_surfpos(7, if v.pre == 7 { 1 } else { 0 }, 0, 0, 0, 0, 93006, 51380))));
        }
        if v.pre == 4 {
            l.insert(0, hexline(&frames::df11(5, addr, 0)));
            l.push(hexline(&frames::df17(5, addr, frames::me_surfpos(6, 20, 1, 60, 0, 0, 93006, 51380))));
        }
    }
    l.push(hexline(&frame(v, addr)));
    l
}

fn reference(v: &V) -> Alt {
    if v.df == 17 { fields::alt_ac12(v.code) } else { fields::alt_ac13(v.code) }
}

fn qbit(v: &V) -> u32 {
    if v.df == 17 { (v.code >> 4) & 1 } else { (v.code >> 4) & 1 }
}

fn judge(ctx: &mut Ctx, cfg: &Cfg, v: &V, addr: u32, o: &Obs) {
    ctx.eval();
    let want = reference(v);
    let fmt = if v.df == 17 { format!("DF17-TC{}", v.tc) } else { format!("DF{}", v.df) };
    let field = if v.df == 17 { "ac12" } else { "ac13" };
    let site = format!("C05/q{}/{}/{}/{}/{}", qbit(v), field, fmt, if v.update { format!("update-pre{}", v.pre) } else { "first".to_string() }, cfg.label());
    let key = format!("{}={:04X}", field, v.code);
    let case = || json!({"df": v.df, "tc": v.tc, "code": v.code, "base": v.base, "update": v.update, "pre": v.pre, "cfg": cfg.opts, "addr": addr});
    let Obs::Row(s) = o else {
        ctx.violation(&site, &key, || format!("{fmt} {field} {:04X} ({}): no row / crash: {o:?}", v.code, frame(v, addr).hex()), case);
        return;
    };
    if v.df == 20 && !v.update {
        ctx.count("df20-creates-row(unconstrained)");
        return;
    }
    match want {
        Alt::Metric => ctx.count("metric-skipped"),
        Alt::Feet(ft) => {
            ctx.count("value-expected");
            ctx.outcome_sample(&(v.df, s.altitude), &format!("{fmt} {:04X}", v.code), || json!({"line": frame(v, addr).hex(), "altitude": s.altitude}));
            if s.altitude != Some(ft) {
                ctx.violation(&site, &key, || format!("{fmt} {field} {:04X} ({}): expected {ft} ft, row shows {:?}", v.code, frame(v, addr).hex(), s.altitude), case);
            }
        }
        Alt::None => {
            ctx.count("none-expected");
            ctx.outcome(&(v.df, "none", s.altitude.is_some()));
            let ok = s.altitude.is_none() || (v.update && v.pre != 4 && s.altitude == Some(SENTINEL_ALT));
            if s.altitude == Some(SENTINEL_ALT) {
                ctx.count("lenient:kept-previous");
            }
            if !ok {
                ctx.violation(&site, &key, || format!("{fmt} {field} {:04X} ({}): no altitude expected, row shows {:?}", v.code, frame(v, addr).hex(), s.altitude), case);
            }
        }
    }
}

fn run(ctx: &mut Ctx) {
    let nb: u32 = if ctx.tier.thorough() { 15 } else { 3 };
    let mut items: Vec<V> = vec![];
    for df in [4u32, 20] {
        for base in 0..nb {
            if df == 4 && base == 2 {
                continue;
            }
            for (update, pre) in [(false, 0u32), (true, 0), (true, 1), (true, 2), (true, 3), (true, 4), (true, 6), (true, 7), (true, 8)] {
                if pre > 0 && base > 0 {
                    continue;
                }
                if base >= 3 && df == 4 && base > 16 {
                    continue;
                }
                for code in 0..8192 {
                    items.push(V { df, tc: 0, code, base, update, pre });
                }
            }
        }
        // DF20 whose MB field is a plausible register (4,5 / 4,4 / 5,0 / 6,0 / 3,0 / 1,7), on a row with CA 5 and under -R
        if df == 20 {
            for base in 60..=66u32 {
                for update in [false, true] {
                    let step = if ctx.tier.thorough() { 1 } else { 3 };
                    for code in (0..8192).step_by(step) {
                        items.push(V { df, tc: 0, code, base, update, pre: 0 });
                    }
                }
            }
        }
        // flight status 1..7 (the altitude is the same whatever the status says)
        for fs in 1..8u32 {
            for update in [false, true] {
                let step = if ctx.tier.thorough() { 1 } else { 5 };
                for code in (0..8192).step_by(step) {
                    items.push(V { df, tc: 0, code, base: 100 + fs, update, pre: 0 });
                }
            }
        }
    }
    for tc in 9..=18 {
        for base in 0..nb {
            for (update, pre) in [(false, 0u32), (true, 0), (true, 2), (true, 4), (true, 5)] {
                if pre > 0 && base > 0 {
                    continue;
                }
                for code in 0..4096 {
                    items.push(V { df: 17, tc, code, base, update, pre });
                }
            }
        }
    }
    let mut idx = 0u64;
    for opts in CFG4 {
        let cfg = Cfg::new(opts);
        for block in items.chunks(4096) {
            idx += 1;
            if !ctx.mine(idx) {
                continue;
            }
            let mut res: Vec<(V, u32, Obs)> = vec![];
            sweep(&cfg, block, BASE, lines, |v, a, o| res.push((*v, a, o.clone())));
            for (v, a, o) in &res {
                judge(ctx, &cfg, v, *a, o);
            }
        }
    }
    ctx.sample(|| {
        let v = V { df: 4, tc: 0, code: frames::ac13_for_alt(38000), base: 0, update: true, pre: 0 };
        json!({"vector": "DF4 update", "lines": lines(&v, BASE).iter().map(|l| String::from_utf8_lossy(l).into_owned()).collect::<Vec<_>>(), "expected_altitude": 38000})
    });
    ctx.sample(|| {
        let v = V { df: 17, tc: 11, code: 0x010, base: 0, update: false, pre: 0 };
        json!({"vector": "DF17 TC11 first, AC12=010 (Q=1, N=0 -> -1000 ft)", "line": frame(&v, BASE).hex(), "expected_altitude": null})
    });
    ctx.bound("AC13", "all 8192 codes x DF4, DF20");
    ctx.bound("AC12", "all 4096 codes x TC 9..18");
    ctx.out.exhaustive = true;
}

fn replay(ctx: &mut Ctx, case: &Value) {
    let opts: Vec<String> = case.get("cfg").and_then(|c| c.as_array()).map(|a| a.iter().filter_map(|x| x.as_str().map(String::from)).collect()).unwrap_or_default();
    let o: Vec<&str> = opts.iter().map(|s| s.as_str()).collect();
    let cfg = Cfg::new(&o);
    let g = |k: &str| case.get(k).and_then(|x| x.as_u64()).unwrap_or(0) as u32;
    let v = V { df: g("df"), tc: g("tc"), code: g("code"), base: g("base"), update: case.get("update").and_then(|x| x.as_bool()).unwrap_or(false), pre: g("pre") };
    let addr = case.get("addr").and_then(|x| x.as_u64()).map(|a| a as u32).unwrap_or(BASE);
    let ob = single(&cfg, addr, lines(&v, addr));
    crate::run::say(&format!(
        "lines {:?} cfg [{}]: reference {:?}, row altitude {:?}",
        lines(&v, addr).iter().map(|l| String::from_utf8_lossy(l).into_owned()).collect::<Vec<_>>(),
        cfg.label(),
        reference(&v),
        ob.row().map(|s| s.altitude)
    ));
    judge(ctx, &cfg, &v, addr, &ob);
}
