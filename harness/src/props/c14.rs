//! C14 - printed rows render the table faithfully under their column headers (E4).

use super::Prop;
use crate::engine::cli;
use crate::frames;
use crate::refmodel::render;
use crate::report::{Ctx, Level, Partial, Tier};
use crate::run::{Cfg, capture_stdout, join_lines, run_file};
use crate::snap::{Snap, new_table, restore, snapshot};
use clap::Parser;
use serde_json::{Value, json};
use squitterator::{Args, DisplayFlags, LegendHeaders, Planes};

pub static PROP: Prop = Prop { id: "C14", level, run, replay, gate, both_profiles: false, serial: false };

fn level(_t: Tier) -> Level {
    Level {
        category: "exploration",
        rule: "all 32 subsets of the five -i groups (three spellings: one string, repeated -i, with blanks) x row states: all-blank, all-filled, and for each printable field each value class {blank, minimum, largest that fits, typical, negative where signed, fractional} with the remaining fields all blank and all filled, last-contact ages {0,7,59,99} s, through Planes::print with stdout captured; the same check on tables reached by frames through the real release CLI (--update=-1, frozen clock); distinct_nontrivial = distinct (flag set, printed row) outcomes",
        assumptions: vec![
            "oracle: independent column list per -i letters; row, header and separator have equal display width (Unicode scalar count) whenever every value fits; cutting the row at the header's column boundaries yields per column the expected parameter (numbers parsed back and right-aligned, text exact and left-aligned, blank when unknown)".into(),
            "the one-character source markers printed in the separator position after ALT B, ALT S, VRATE, TRK, HDG and the threat flag after SQWK are not judged".into(),
        ],
    }
}

fn gate(p: &Partial, t: Tier) -> Result<(), String> {
    super::default_gate(p, t)?;
    super::need(p, "row-checked", 10_000)?;
    super::need(p, "all-values-fit", 10_000)?;
    super::need(p, "cli-row-checked", 20)?;
    Ok(())
}

fn base_blank() -> Snap {
    let mut s = Snap::of(0x4CA2D6, &squitterator::Plane::new());
    s.icao = 0x4CA2D6;
    s.key = 0x4CA2D6;
    s.reg = "IE".into();
    s
}

fn base_filled() -> Snap {
    let mut s = base_blank();
    s.ca = 5;
    s.category = (4, 3);
    s.ais = Some("EIN45F".into());
    s.altitude = Some(36000);
    s.altitude_gnss = Some(36275);
    s.selected_altitude = Some(37008);
    s.baro_setting = Some(1013);
    s.target_altitude_source = '\u{2081}';
    s.squawk = Some(4521);
    s.surveillance_status = 'N';
    s.threat = Some('\u{2071}');
    s.vrate = Some(-1920);
    s.vrate_source = '\u{2086}';
    s.lat = 52.25721f64.to_bits();
    s.lon = (-3.91937f64).to_bits();
    s.dist = Some(321.4f64.to_bits());
    s.grspeed = Some(440);
    s.tas = Some(430);
    s.ias = Some(280);
    s.mach = Some(0.78f64.to_bits());
    s.track = Some(120);
    s.track_source = '\u{2085}';
    s.heading = Some(249);
    s.heading_source = '\u{2086}';
    s.roll = Some(-10);
    s.tar = Some(-1);
    s.temperature = Some((-56.5f64).to_bits());
    s.wind = Some((85, 270));
    s.turbulence = Some(2);
    s.humidity = Some(45);
    s.pressure = Some(226);
    s.pos_age = Some(12_000);
    s.track_age = Some(25_000);
    s.heading_age = Some(151_000);
    s.last_tc = 11;
    s.last_df = 17;
    s.adsb_version = Some(2);
    s
}

/// (field name, variants) - each variant is a mutation of one field
fn field_variants() -> Vec<(&'static str, Vec<Box<dyn Fn(&mut Snap)>>)> {
    fn b(f: impl Fn(&mut Snap) + 'static) -> Box<dyn Fn(&mut Snap)> {
        Box::new(f)
    }
    fn f(x: f64) -> u64 {
        x.to_bits()
    }
    vec![
        ("icao", vec![b(|s| { s.icao = 1; s.key = 1; }), b(|s| { s.icao = 0xFFFFFF; s.key = 0xFFFFFF; }), b(|s| { s.icao = 0x00ABCD; s.key = 0x00ABCD; })]),
        ("reg", vec![b(|s| s.reg = "??".into()), b(|s| s.reg = "US".into()), b(|s| s.reg = "".into())]),
        ("squawk", vec![b(|s| s.squawk = None), b(|s| s.squawk = Some(0)), b(|s| s.squawk = Some(7777)), b(|s| s.squawk = Some(21)), b(|s| s.squawk = Some(7500)), b(|s| s.squawk = Some(7600)), b(|s| s.squawk = Some(7700)), b(|s| s.squawk = Some(1200)), b(|s| s.squawk = Some(7000))]),
        ("threat", vec![b(|s| s.threat = None), b(|s| s.threat = Some('\u{2072}'))]),
        ("category", vec![b(|s| s.category = (0, 0)), b(|s| s.category = (4, 1)), b(|s| s.category = (4, 5)), b(|s| s.category = (4, 7)), b(|s| s.category = (4, 6)), b(|s| s.category = (2, 3)), b(|s| s.category = (4, 0))]),
        ("ais", vec![b(|s| s.ais = None), b(|s| s.ais = Some("A".into())), b(|s| s.ais = Some("ABCD1234".into())), b(|s| s.ais = Some("".into()))]),
        ("position", vec![b(|s| { s.lat = f(0.0); s.lon = f(0.0); }), b(|s| { s.lat = f(-89.99999); s.lon = f(-179.99999); }), b(|s| { s.lat = f(89.99999); s.lon = f(179.99999); }), b(|s| { s.lat = f(0.00001); s.lon = f(-0.00001); }), b(|s| { s.lat = f(52.123456789); s.lon = f(4.987654321); }),
            // values whose fifth decimal rounds up into the next whole degree, and what decoding yields on exact degrees
            b(|s| { s.lat = f(40.99999897); s.lon = f(-0.999996); }), b(|s| { s.lat = f(-40.999999999999972); s.lon = f(9.99999999999997); }), b(|s| { s.lat = f(0.999995); s.lon = f(99.999995); }), b(|s| { s.lat = f(-9.9999951); s.lon = f(-99.9999951); }),
            // signed values whose whole part is zero (the sign lives in the fraction only), next to whole and half degrees
            b(|s| { s.lat = f(-0.125); s.lon = f(78.5); }), b(|s| { s.lat = f(0.125); s.lon = f(-0.125); }), b(|s| { s.lat = f(-0.5); s.lon = f(-0.5); }), b(|s| { s.lat = f(-0.99999); s.lon = f(0.99999); }),
            b(|s| { s.lat = f(0.99999); s.lon = f(-0.99999); }), b(|s| { s.lat = f(-0.000004); s.lon = f(-0.000004); }), b(|s| { s.lat = f(-0.000006); s.lon = f(-0.000006); }), b(|s| { s.lat = f(-1.0); s.lon = f(-1.0); }),
            b(|s| { s.lat = f(-1.5); s.lon = f(-100.5); }), b(|s| { s.lat = f(-10.0); s.lon = f(-10.0); }), b(|s| { s.lat = f(-45.5); s.lon = f(-9.5); })]),
        ("dist", vec![b(|s| s.dist = None), b(|s| s.dist = Some(f(0.0))), b(|s| s.dist = Some(f(999.9))), b(|s| s.dist = Some(f(10.25))), b(|s| s.dist = Some(f(0.04))), b(|s| s.dist = Some(f(9.96))), b(|s| s.dist = Some(f(99.95))), b(|s| s.dist = Some(f(0.95)))]),
        ("altitude", vec![b(|s| s.altitude = None), b(|s| s.altitude = Some(0)), b(|s| s.altitude = Some(99975)), b(|s| s.altitude = Some(25))]),
        ("altitude_gnss", vec![b(|s| s.altitude_gnss = None), b(|s| s.altitude_gnss = Some(0)), b(|s| s.altitude_gnss = Some(99999))]),
        ("selected_altitude", vec![b(|s| s.selected_altitude = None), b(|s| s.selected_altitude = Some(16)), b(|s| s.selected_altitude = Some(65520))]),
        ("baro", vec![b(|s| s.baro_setting = None), b(|s| s.baro_setting = Some(800)), b(|s| s.baro_setting = Some(1209))]),
        ("vrate", vec![b(|s| s.vrate = None), b(|s| s.vrate = Some(0)), b(|s| s.vrate = Some(-9984)), b(|s| s.vrate = Some(32704)), b(|s| s.vrate = Some(-64))]),
        ("track", vec![b(|s| s.track = None), b(|s| s.track = Some(0)), b(|s| s.track = Some(359))]),
        ("heading", vec![b(|s| s.heading = None), b(|s| s.heading = Some(0)), b(|s| s.heading = Some(359))]),
        ("grspeed", vec![b(|s| s.grspeed = None), b(|s| s.grspeed = Some(0)), b(|s| s.grspeed = Some(999)), b(|s| s.grspeed = Some(7))]),
        ("tas", vec![b(|s| s.tas = None), b(|s| s.tas = Some(2)), b(|s| s.tas = Some(500))]),
        ("ias", vec![b(|s| s.ias = None), b(|s| s.ias = Some(1)), b(|s| s.ias = Some(999))]),
        ("mach", vec![b(|s| s.mach = None), b(|s| s.mach = Some(f(0.004))), b(|s| s.mach = Some(f(1.0))), b(|s| s.mach = Some(f(0.856)))]),
        ("roll", vec![b(|s| s.roll = None), b(|s| s.roll = Some(0)), b(|s| s.roll = Some(-50)), b(|s| s.roll = Some(50))]),
        ("tar", vec![b(|s| s.tar = None), b(|s| s.tar = Some(0)), b(|s| s.tar = Some(-16)), b(|s| s.tar = Some(15))]),
        ("temperature", vec![b(|s| s.temperature = None), b(|s| s.temperature = Some(f(-80.0))), b(|s| s.temperature = Some(f(60.0))), b(|s| s.temperature = Some(f(-0.25))), b(|s| s.temperature = Some(f(12.75)))]),
        ("wind", vec![b(|s| s.wind = None), b(|s| s.wind = Some((0, 0))), b(|s| s.wind = Some((300, 358)))]),
        ("humidity", vec![b(|s| s.humidity = None), b(|s| s.humidity = Some(0)), b(|s| s.humidity = Some(100))]),
        ("pressure", vec![b(|s| s.pressure = None), b(|s| s.pressure = Some(0)), b(|s| s.pressure = Some(2047))]),
        ("turbulence", vec![b(|s| s.turbulence = None), b(|s| s.turbulence = Some(0)), b(|s| s.turbulence = Some(15))]),
        ("last_df", vec![b(|s| s.last_df = 0), b(|s| s.last_df = 4), b(|s| s.last_df = 21)]),
        ("last_tc", vec![b(|s| s.last_tc = 0), b(|s| s.last_tc = 4), b(|s| s.last_tc = 31)]),
        ("adsb_version", vec![b(|s| s.adsb_version = None), b(|s| s.adsb_version = Some(0)), b(|s| s.adsb_version = Some(7))]),
        ("surveillance_status", vec![b(|s| s.surveillance_status = ' '), b(|s| s.surveillance_status = 'P'), b(|s| s.surveillance_status = 'S')]),
        ("ages", vec![b(|s| { s.pos_age = None; s.track_age = None; s.heading_age = None; }), b(|s| { s.pos_age = Some(0); s.track_age = Some(9_999); s.heading_age = Some(10_000); }), b(|s| { s.pos_age = Some(159_000); s.track_age = None; s.heading_age = Some(90_000); }),
            // the one-digit age markers wrap every 160 s: ages at, just past and far beyond the wrap, one marker at a time
            b(|s| { s.pos_age = Some(160_000); s.track_age = Some(0); s.heading_age = Some(0); }), b(|s| { s.pos_age = Some(0); s.track_age = Some(165_000); s.heading_age = Some(0); }), b(|s| { s.pos_age = Some(0); s.track_age = Some(0); s.heading_age = Some(160_000); }),
            b(|s| { s.pos_age = Some(159_999); s.track_age = Some(319_999); s.heading_age = Some(1_000_000); }), b(|s| { s.pos_age = Some(86_400_000); s.track_age = Some(86_400_000); s.heading_age = Some(4_000_000_000); })]),
        ("lc", vec![b(|s| s.age = 0), b(|s| s.age = 7_000), b(|s| s.age = 59_000), b(|s| s.age = 99_000)]),
    ]
}

/// rows with values too wide for their column (the width rule does not apply to them, but printing them
/// must neither crash nor disturb the other rows)
fn overflow_states() -> Vec<(String, Snap)> {
    let mut v = vec![];
    let muts: Vec<(&str, Box<dyn Fn(&mut Snap)>)> = vec![
        ("vrate-6", Box::new(|s: &mut Snap| s.vrate = Some(-12736))),
        ("dist-7", Box::new(|s: &mut Snap| s.dist = Some(18318.4f64.to_bits()))),
        ("alt-6", Box::new(|s: &mut Snap| s.altitude = Some(126700))),
        ("gs-4", Box::new(|s: &mut Snap| s.grspeed = Some(4092))),
        ("ais-9", Box::new(|s: &mut Snap| s.ais = Some("ABCDEFGHI".into()))),
        ("mach-5", Box::new(|s: &mut Snap| s.mach = Some(10.236f64.to_bits()))),
        ("lc-3", Box::new(|s: &mut Snap| s.age = 100_000)),
        ("hdg-4", Box::new(|s: &mut Snap| s.heading = Some(1023))),
        ("ias-4", Box::new(|s: &mut Snap| s.ias = Some(1000))),
        ("tas-4", Box::new(|s: &mut Snap| s.tas = Some(2046))),
        ("many", Box::new(|s: &mut Snap| { s.vrate = Some(-12736); s.dist = Some(18318.4f64.to_bits()); s.heading = Some(1023); s.altitude = Some(126700); })),
    ];
    for (n, m) in muts {
        for (bn, base) in [("blank", base_blank()), ("filled", base_filled())] {
            let mut s = base;
            m(&mut s);
            v.push((format!("overflow:{n}/{bn}"), s));
        }
    }
    v
}

fn row_states() -> Vec<(String, Snap)> {
    let mut v = vec![("all-blank".to_string(), base_blank()), ("all-filled".to_string(), base_filled())];
    v.extend(overflow_states());
    for (name, vars) in field_variants() {
        for (i, m) in vars.iter().enumerate() {
            for (bn, base) in [("blank", base_blank()), ("filled", base_filled())] {
                let mut s = base;
                m(&mut s);
                v.push((format!("{name}#{i}/{bn}"), s));
            }
        }
    }
    v
}

/// the five spellings of a flag subset
fn spellings(letters: &str) -> Vec<Vec<String>> {
    let one = vec!["-i".to_string(), letters.to_string()];
    let mut rep = vec![];
    for c in letters.chars() {
        rep.push("-i".to_string());
        rep.push(c.to_string());
    }
    if rep.is_empty() {
        rep = one.clone();
    }
    let spaced = vec!["-i".to_string(), letters.chars().map(|c| format!("{c} ")).collect::<String>()];
    // every letter given twice (in one string, and as the whole string repeated): a group is requested or not,
    // however often its letter occurs
    let doubled = vec!["-i".to_string(), letters.chars().map(|c| format!("{c}{c}")).collect::<String>()];
    let mut twice = one.clone();
    twice.extend(one.clone());
    vec![one, rep, spaced, doubled, twice]
}

fn subsets() -> Vec<String> {
    let g = ['a', 'A', 'e', 'w', 's'];
    (0..32u32).map(|m| g.iter().enumerate().filter(|(i, _)| (m >> i) & 1 == 1).map(|(_, c)| *c).collect()).collect()
}

fn print_rows(args: &Args, rows: &[Snap]) -> (String, String, Vec<String>, String) {
    let flags_str = args.display_info.concat();
    let flags = DisplayFlags::from_arg_str(&flags_str);
    let headers = LegendHeaders::from_display_flags(&flags);
    let planes = Planes { aircrafts: restore(rows) };
    let (res, out) = capture_stdout(|| std::panic::catch_unwind(std::panic::AssertUnwindSafe(|| planes.print(args, &flags))));
    let txt = String::from_utf8_lossy(&out).into_owned();
    let mut lines: Vec<String> = txt.lines().map(|s| s.to_string()).collect();
    if res.is_err() {
        lines = vec!["<<print panicked>>".to_string()];
    }
    (headers.header.clone(), headers.separator.clone(), lines, flags_str)
}

fn check_state(ctx: &mut Ctx, letters: &str, spelling: &[String], sname: &str, s: &Snap) {
    let mut argv = vec!["squitterator".to_string(), "-o".to_string(), "".to_string()];
    argv.extend(spelling.iter().cloned());
    let args = match Args::try_parse_from(&argv) {
        Ok(a) => a,
        Err(e) => {
            ctx.machinery(format!("args {argv:?}: {e}"));
            return;
        }
    };
    let (header, sep, rows, _fs) = print_rows(&args, std::slice::from_ref(s));
    ctx.eval();
    ctx.count("row-checked");
    let key = format!("-i {letters:?} ({}) / {sname}", spelling.join(" "));
    let case = || json!({"letters": letters, "spelling": spelling, "state": sname});
    if rows.first().map(|r| r.as_str()) == Some("<<print panicked>>") {
        ctx.violation("C14/print-crash", &key, || format!("{key}: printing the table panicked"), case);
        return;
    }
    if rows.len() != 1 {
        ctx.violation("C14/print", &key, || format!("{key}: {} lines printed for one aircraft", rows.len()), case);
        return;
    }
    let cols = render::parse_header(&header, &sep).unwrap_or_default();
    if render::fits(&cols, s) {
        ctx.count("all-values-fit");
    }
    ctx.outcome(&(letters, &rows[0]));
    // a value too wide for its column still has to be THAT value: its digits / characters appear in the row in full
    if let Some(which) = sname.strip_prefix("overflow:").and_then(|x| x.split('/').next()) {
        let wide: Vec<(&str, String)> = match which {
            "vrate-6" => vec![("VRATE", "-12736".into())],
            "dist-7" => vec![("DIST", "18318.4".into())],
            "alt-6" => vec![("ALT B", "126700".into())],
            "gs-4" => vec![("GSP", "4092".into())],
            "ais-9" => vec![("CALLSIGN", "ABCDEFGHI".into())],
            "hdg-4" => vec![("HDG", "1023".into())],
            "ias-4" => vec![("IAS", "1000".into())],
            "tas-4" => vec![("TAS", "2046".into())],
            "many" => vec![("VRATE", "-12736".into()), ("DIST", "18318.4".into()), ("HDG", "1023".into()), ("ALT B", "126700".into())],
            _ => vec![],
        };
        for (col, text) in wide {
            if cols.iter().any(|(n, _, _)| n == col) {
                ctx.count("over-wide-value-shown");
                if !rows[0].contains(text.as_str()) {
                    ctx.violation("C14/over-wide-value", &key, || format!("{key}: the {col} value {text} does not fit its column, and the row does not show it at all\n  row   : {}", rows[0]), case);
                    return;
                }
            }
        }
    }
    let bad = render::check_row(&header, &sep, &rows[0], s, letters);
    if !bad.is_empty() {
        ctx.violation("C14/row", &key, || format!("{key}: {}\n  header: {}\n  row   : {}", bad.join("; "), header.trim_end(), rows[0]), case);
    }
}

/// frame sequences that fill many columns; run through the real CLI and compared with the
/// in-process table rendered by the same oracle
fn cli_histories() -> Vec<Vec<String>> {
    let a = 0x4CA2D6u32;
    let b = 0x3C6586u32;
    let h = |f: frames::Frame| f.hex();
    let rich = vec![
        h(frames::df11(5, a, 0)),
        h(frames::df17(5, a, frames::me_ident(4, 3, frames::callsign_codes("EIN45F")))),
        h(super::rowmodel::pos_frame(17, a, 11, 36000, super::rowmodel::P1, false)),
        h(super::rowmodel::pos_frame(17, a, 11, 36000, super::rowmodel::P1, true)),
        h(frames::df17(5, a, frames::me_velocity(&frames::Vel { st: 1, dew: 1, vew: 9, dns: 1, vns: 160, vrsign: 1, vr: 14, diff: 10, ..Default::default() }))),
        h(frames::df5(a, frames::id13_for_squawk(4521))),
        h(frames::df20(a, frames::ac13_for_alt(36000), frames::mb_bds17(frames::CAP_20 | frames::CAP_40 | frames::CAP_50 | frames::CAP_60))),
        h(frames::df20(a, frames::ac13_for_alt(36000), super::rowmodel::valid_bds50(true))),
        h(frames::df21(a, frames::id13_for_squawk(4521), super::rowmodel::valid_bds60(true))),
        h(frames::df17(5, a, frames::me_tc31(2))),
        h(frames::df4(b, frames::ac13_for_alt(900))),
        h(frames::df17(5, b, frames::me_surfpos(6, 20, 1, 60, 0, 0, 93006, 51380))),
    ];
    let mut v = vec![];
    for n in 1..=rich.len() {
        v.push(rich[..n].to_vec());
    }
    v
}

fn check_cli(ctx: &mut Ctx, letters: &str, hist: &[String]) {
    for (si, sp) in spellings(letters).iter().enumerate() {
        check_cli_spelled(ctx, letters, hist, si, sp);
    }
}

fn check_cli_spelled(ctx: &mut Ctx, letters: &str, hist: &[String], si: usize, spelling: &[String]) {
    let mut opts: Vec<&str> = spelling.iter().map(|s| s.as_str()).collect();
    opts.extend(["--update=-1", "-o", ""]);
    let content = join_lines(&hist.iter().map(|s| s.as_bytes().to_vec()).collect::<Vec<_>>());
    let c = match cli::run_cli(true, &opts, &content, "c14") {
        Ok(c) => c,
        Err(e) => {
            ctx.machinery(e);
            return;
        }
    };
    // the same history in-process
    let cfg = Cfg::new(&["-i", "Q"]);
    let t = new_table();
    squitterator::set_observer_coords_from_str("52.66411442720024, -8.622299905360963");
    let o = run_file(&cfg, &content, &t);
    let rows = snapshot(&t);
    ctx.eval();
    ctx.out.traces_validated += 1;
    let key = format!("-i {letters:?} (spelling {si}: {}) / history of {} frames", spelling.join(" "), hist.len());
    let case = || json!({"cli": true, "letters": letters, "history": hist});
    let blocks = cli::blocks(&c.stdout);
    let last: Vec<&str> = blocks.last().map(|b| b.lines().collect()).unwrap_or_default();
    if c.code != Some(0) || !o.is_ok() || last.len() < 3 + rows.len() {
        ctx.violation("C14/cli-run", &key, || format!("{key}: CLI exit {:?}, {} lines in the last refresh for {} rows", c.code, last.len(), rows.len()), case);
        return;
    }
    let (header, sep) = (last[0], last[1]);
    for (i, r) in rows.iter().enumerate() {
        ctx.count("cli-row-checked");
        let line = last[2 + i];
        ctx.outcome(&(letters, line));
        let bad = render::check_row(header, sep, line, r, letters);
        if !bad.is_empty() {
            ctx.violation("C14/cli-row", &key, || format!("{key}: row {i} of the CLI table: {}\n  header: {header}\n  row   : {line}", bad.join("; ")), case);
            return;
        }
    }
}

fn run(ctx: &mut Ctx) {
    if let Err(e) = cli::available() {
        ctx.machinery(e);
        return;
    }
    let states = row_states();
    let mut job = 0u64;
    for letters in subsets() {
        for (si, sp) in spellings(&letters).iter().enumerate() {
            job += 1;
            if !ctx.mine(job) {
                continue;
            }
            for (sname, s) in &states {
                // the two alternative spellings only on every third state
                if !ctx.tier.thorough() && si > 0 && (sname.len() + si) % 3 != 0 {
                    continue;
                }
                check_state(ctx, &letters, sp, sname, s);
            }
        }
    }
    // other epochs (shim::EPOCH_VARIANTS): the ages shown in LC and in the one-digit age markers reach back
    // across midnight / the year / the 32-bit time_t wrap and have sub-second parts
    job += 1;
    if ctx.mine(job) {
        for (es, ens, _) in crate::shim::EPOCH_VARIANTS {
            crate::shim::set_epoch(es, ens);
            for letters in ["aAews", "e", ""] {
                let sp = spellings(letters);
                for (sname, s) in states.iter().filter(|(n, _)| n.contains("ages") || n.contains("lc")) {
                    ctx.count("row-checked-under-other-epoch");
                    check_state(ctx, letters, &sp[0], sname, s);
                }
            }
            crate::shim::reset_epoch();
        }
    }
    // the empty table: header and separator alone, no row and no blank line
    job += 1;
    if ctx.mine(job) {
        for letters in subsets() {
            let argv = vec!["squitterator".to_string(), "-o".to_string(), "".to_string(), "-i".to_string(), letters.clone()];
            let args = Args::try_parse_from(&argv).expect("args");
            let flags = DisplayFlags::from_arg_str(&args.display_info.concat());
            let planes = Planes { aircrafts: crate::snap::restore(&[]) };
            let ((), out) = crate::run::capture_stdout(|| planes.print(&args, &flags));
            ctx.eval();
            ctx.count("empty-table-printed");
            if !out.is_empty() {
                ctx.violation("C14/empty-table", &format!("-i {letters:?}"), || format!("-i {letters:?}: printing the empty table writes {:?} - one line per aircraft means no line at all", String::from_utf8_lossy(&out)), || json!({"letters": letters, "empty_table": true}));
            }
        }
    }
    // an over-wide row next to an ordinary one: the ordinary row must be rendered as if it were alone
    job += 1;
    if ctx.mine(job) {
        for letters in ["aAews", "", "e"] {
            for (sname, ov) in overflow_states() {
                let mut other = base_filled();
                other.icao = 0x3C6586;
                other.key = 0x3C6586;
                other.reg = "DE".into();
                let argv = vec!["squitterator".to_string(), "-o".to_string(), "".to_string(), "-i".to_string(), letters.to_string()];
                let args = Args::try_parse_from(&argv).expect("args");
                let (header, sep, rows, _) = print_rows(&args, &[other.clone(), ov.clone()]);
                ctx.eval();
                ctx.count("row-checked");
                let key = format!("-i {letters:?} / ordinary row next to {sname}");
                let case = || json!({"letters": letters, "pair": sname});
                let line = rows.iter().find(|r| r.starts_with("3C6586"));
                match line {
                    None => ctx.violation("C14/pair", &key, || format!("{key}: the ordinary row is missing ({} lines: {:?})", rows.len(), rows.first()), case),
                    Some(l) => {
                        let bad = render::check_row(&header, &sep, l, &other, letters);
                        if !bad.is_empty() {
                            ctx.violation("C14/pair", &key, || format!("{key}: {}", bad.join("; ")), case);
                        }
                    }
                }
            }
        }
    }
    let hists = cli_histories();
    for letters in subsets() {
        let full = letters.len() == 5 || letters.is_empty() || ctx.tier.thorough();
        for (hi, h) in hists.iter().enumerate() {
            if !full && hi + 1 != hists.len() {
                continue;
            }
            job += 1;
            if ctx.mine(job) {
                check_cli(ctx, &letters, h);
            }
        }
    }
    ctx.sample(|| json!({"flags": "aAews", "state": "all-filled", "expected": "161-column row whose cells match the header columns"}));
    ctx.sample(|| json!({"row state fields": states.iter().take(8).map(|(n, _)| n.clone()).collect::<Vec<_>>()}));
    ctx.bound("row states", states.len());
    ctx.bound("flag subsets", 32);
    ctx.out.exhaustive = true;
}

fn replay(ctx: &mut Ctx, case: &Value) {
    let letters = case.get("letters").and_then(|x| x.as_str()).unwrap_or("").to_string();
    if case.get("empty_table").is_some() {
        let argv = vec!["squitterator".to_string(), "-o".to_string(), "".to_string(), "-i".to_string(), letters.clone()];
        let args = Args::try_parse_from(&argv).expect("args");
        let flags = DisplayFlags::from_arg_str(&args.display_info.concat());
        let planes = Planes { aircrafts: crate::snap::restore(&[]) };
        let ((), out) = crate::run::capture_stdout(|| planes.print(&args, &flags));
        crate::run::say(&format!("printing the empty table under -i {letters:?} writes {:?}", String::from_utf8_lossy(&out)));
        if !out.is_empty() {
            ctx.violation("C14/empty-table", &letters, || "the empty table prints something".into(), || case.clone());
        }
        return;
    }
    if let Some(sname) = case.get("pair").and_then(|x| x.as_str()) {
        for (n, ov) in overflow_states() {
            if n == sname {
                let mut other = base_filled();
                other.icao = 0x3C6586;
                other.key = 0x3C6586;
                other.reg = "DE".into();
                let argv = vec!["squitterator".to_string(), "-o".to_string(), "".to_string(), "-i".to_string(), letters.clone()];
                let args = Args::try_parse_from(&argv).expect("args");
                let (header, sep, rows, _) = print_rows(&args, &[other.clone(), ov.clone()]);
                crate::run::say(&format!("printed: {rows:?}"));
                let bad = rows.iter().find(|r| r.starts_with("3C6586")).map(|l| render::check_row(&header, &sep, l, &other, &letters)).unwrap_or(vec!["ordinary row missing".into()]);
                if !bad.is_empty() {
                    ctx.violation("C14/pair", sname, || bad.join("; "), || case.clone());
                }
            }
        }
        return;
    }
    if case.get("cli").is_some() {
        let hist: Vec<String> = case.get("history").and_then(|h| h.as_array()).map(|a| a.iter().filter_map(|x| x.as_str().map(String::from)).collect()).unwrap_or_default();
        check_cli(ctx, &letters, &hist);
        return;
    }
    let spelling: Vec<String> = case.get("spelling").and_then(|h| h.as_array()).map(|a| a.iter().filter_map(|x| x.as_str().map(String::from)).collect()).unwrap_or_default();
    let sname = case.get("state").and_then(|x| x.as_str()).unwrap_or("");
    for (n, s) in row_states() {
        if n == sname {
            check_state(ctx, &letters, &spelling, &n, &s);
        }
    }
}
