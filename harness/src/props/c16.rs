//! C16 - DF filter admits only the listed formats; DF counters are exact.
//! Sequence enumeration over a 15-symbol alphabet; every prefix prints its counter line
//! (--update=-1 -c), stdout is the observation point.

use super::Prop;
use crate::engine::cli;
use crate::frames::{self, Frame};
use crate::report::{Ctx, Level, Partial, Tier};
use crate::run::{Cfg, capture_stdout, join_lines, run_file};
use crate::snap::{new_table, snapshot};
use serde_json::{Value, json};
use std::collections::BTreeMap;

pub static PROP: Prop = Prop { id: "C16", level, run, replay, gate, both_profiles: false, serial: false };

const A: u32 = 0x4CA2D6;
const B: u32 = 0x3C6586;

fn level(t: Tier) -> Level {
    Level {
        category: "model_checking",
        rule: if t.thorough() { "all sequences of length 5 over a 15-symbol alphabet x 15 filter sets (lists given in non-ascending order on the command line: -f 21 -f 4, -f 18 -f 11 -f 17)" } else { "all sequences of length 4 over a 15-symbol alphabet x 15 filter sets (lists given in non-ascending order on the command line: -f 21 -f 4, -f 18 -f 11 -f 17)" },
        assumptions: vec![
            "state = (per-DF counter map, table); transition = one input line; each sequence is one run of the real reader thread with stdout captured, every prefix prints its counter line (--update=-1 -c)".into(),
            "reference: fold counting accepted, non-zero-address, filter-passing frames per DF; which symbols are accepted is known by construction (valid CRC / corrupted / zero address / junk)".into(),
            "traces_validated_against_impl = sequences (length <= 3) whose complete stdout was also produced by the real release CLI binary under the frozen-clock shim and compared byte for byte".into(),
        ],
    }
}

fn gate(p: &Partial, _t: Tier) -> Result<(), String> {
    if p.states.len() < 50 {
        return Err(format!("only {} distinct counter states", p.states.len()));
    }
    super::need(p, "counter-line-checked", 10_000)?;
    super::need(p, "filtered-out-frame", 1000)?;
    super::need(p, "rejected-line", 1000)?;
    super::need(p, "filter-table-equal", 1000)?;
    super::need(p, "no-counter-line-without-c", 100)?;
    super::need(p, "aged-table-untouched", 50)?;
    if p.traces_validated < 1000 {
        return Err(format!("only {} CLI traces validated", p.traces_validated));
    }
    Ok(())
}

struct Sym {
    name: &'static str,
    line: Vec<u8>,
    /// Some(df) when the line is an accepted frame with non-zero address
    df: Option<u32>,
}

fn alphabet() -> Vec<Sym> {
    let f = |fr: Frame| fr.hex().into_bytes();
    let mut bad = frames::df17(5, A, frames::me_ident(4, 3, frames::callsign_codes("BADCRC")));
    bad.flip(40);
    vec![
        Sym { name: "DF0(A)", line: f(frames::df0(A, frames::ac13_for_alt(3000))), df: Some(0) },
        Sym { name: "DF4(A)", line: f(frames::df4(A, frames::ac13_for_alt(31000))), df: Some(4) },
        Sym { name: "DF5(A)", line: f(frames::df5(A, frames::id13_for_squawk(4521))), df: Some(5) },
        Sym { name: "DF11(A)", line: f(frames::df11(5, A, 0)), df: Some(11) },
        Sym { name: "DF16(A)", line: f(frames::df16(A, frames::ac13_for_alt(3000), 0x30_0000_0000_0000)), df: Some(16) },
        Sym { name: "DF17(A)", line: f(frames::df17(5, A, frames::me_ident(4, 3, frames::callsign_codes("EIN45F")))), df: Some(17) },
        Sym { name: "DF18(A)", line: f(frames::df18(2, A, frames::me_airpos(11, 0, 0, frames::ac12_for_alt(7000), 0, 0, 93000, 51372))), df: Some(18) },
        Sym { name: "DF20(A)", line: f(frames::df20(A, frames::ac13_for_alt(7000), 0)), df: Some(20) },
        Sym { name: "DF21(A)", line: f(frames::df21(A, frames::id13_for_squawk(1000), 0)), df: Some(21) },
        Sym { name: "DF24(A)", line: f(frames::long_ap(24, A, 0x1234_5678_9ABC, A)), df: Some(24) },
        Sym { name: "DF17(B)", line: f(frames::df17(5, B, frames::me_velocity(&frames::Vel { st: 1, vew: 301, vns: 77, vr: 20, ..Default::default() }))), df: Some(17) },
        Sym { name: "DF4(B)", line: f(frames::df4(B, frames::ac13_for_alt(9000))), df: Some(4) },
        Sym { name: "DF4(addr 0)", line: f(frames::df4(0, frames::ac13_for_alt(9000))), df: None },
        Sym { name: "DF17(bad parity)", line: f(bad), df: None },
        Sym { name: "junk", line: b"hello world".to_vec(), df: None },
    ]
}

fn filter_sets() -> Vec<Option<Vec<u32>>> {
    let mut v: Vec<Option<Vec<u32>>> = vec![None];
    for d in [0u32, 4, 5, 11, 16, 17, 18, 20, 21, 24] {
        v.push(Some(vec![d]));
    }
    v.push(Some(vec![21, 4]));
    v.push(Some(vec![18, 11, 17]));
    v.push(Some(vec![0, 16]));
    v.push(Some(vec![99]));
    v
}

fn opts_for(filter: &Option<Vec<u32>>, count: bool, quiet: bool) -> Vec<String> {
    let mut o: Vec<String> = vec![];
    if quiet {
        o.extend(["-i".into(), "Q".into()]);
    } else {
        o.extend(["-i".into(), "".into(), "--update=-1".into()]);
    }
    if count {
        o.push("-c".into());
    }
    if let Some(f) = filter {
        for d in f {
            o.push("-f".into());
            o.push(d.to_string());
        }
    }
    o
}

fn counter_line(m: &BTreeMap<u32, u32>) -> String {
    m.iter().map(|(d, c)| format!("DF{d}:{c}")).collect::<Vec<_>>().join(" ")
}

/// the counter line of a refresh block: the line after the second separator
fn block_counter_line(block: &str) -> Option<String> {
    let lines: Vec<&str> = block.lines().collect();
    let seps: Vec<usize> = lines.iter().enumerate().filter(|(_, l)| l.starts_with("------")).map(|(i, _)| i).collect();
    if seps.len() < 2 {
        return None;
    }
    lines.get(seps[1] + 1).map(|s| s.split_whitespace().collect::<Vec<_>>().join(" "))
}

fn seq_of(mut idx: u64, len: usize, n: u64) -> Vec<usize> {
    let mut s = vec![0; len];
    for k in (0..len).rev() {
        s[k] = (idx % n) as usize;
        idx /= n;
    }
    s
}

struct Env {
    syms: Vec<Sym>,
    filters: Vec<Option<Vec<u32>>>,
    cfgs: Vec<(Vec<String>, Cfg)>,
    quiet: Cfg,
    wide: bool,
}

impl Env {
    fn new() -> Env {
        let filters = filter_sets();
        let cfgs = filters
            .iter()
            .map(|f| {
                let o = opts_for(f, true, false);
                let ov: Vec<&str> = o.iter().map(|s| s.as_str()).collect();
                let c = Cfg::new(&ov);
                (o, c)
            })
            .collect();
        Env { syms: alphabet(), filters, cfgs, quiet: Cfg::new(&[]), wide: false }
    }
}

fn leak(s: String) -> &'static str {
    Box::leak(s.into_boxed_str())
}

/// the wide alphabet: one frame for EVERY five-bit format value 0..31 (address A under both the address/parity
/// and the AA reading, so it is an accepted frame with non-zero address whatever the format), and accepted
/// frames in the decorated line forms of C02 (12-digit time stamp with and without '@', '*...;', leading blank)
fn wide_alphabet() -> Vec<Sym> {
    let mut v = vec![];
    for d in 0..32u32 {
        let nbits = if d < 16 { 56 } else { 112 };
        let mut f = Frame::zero(nbits);
        f.set(1, 5, d as u64).set(9, 24, A as u64);
        if nbits == 112 {
            f.set(33, 56, 0x2004_1234_5678_9Au64);
        }
        match d {
            11 | 17 | 18 => f.seal(0),
            _ => f.seal(A),
        };
        v.push(Sym { name: leak(format!("DF{d}(A)")), line: f.hex().into_bytes(), df: Some(d) });
    }
    // the largest and the smallest non-zero address are addresses like any other
    v.push(Sym { name: "DF17(FFFFFF)", line: frames::df17(5, 0xFFFFFF, frames::me_ident(4, 3, frames::callsign_codes("ALLONES"))).hex().into_bytes(), df: Some(17) });
    v.push(Sym { name: "DF4(FFFFFF)", line: frames::df4(0xFFFFFF, frames::ac13_for_alt(9000)).hex().into_bytes(), df: Some(4) });
    v.push(Sym { name: "DF11(000001)", line: frames::df11(5, 1, 0).hex().into_bytes(), df: Some(11) });
    let df17 = frames::df17(5, B, frames::me_ident(4, 3, frames::callsign_codes("EIN45F"))).hex();
    let df4 = frames::df4(B, frames::ac13_for_alt(9000)).hex();
    let df21 = frames::df21(B, frames::id13_for_squawk(1000), 0).hex();
    for (n, l, d) in [
        ("ts+DF17(B)", format!("0123456789AB{df17}"), 17u32),
        ("@ts+DF17(B);", format!("@0123456789AB{df17};"), 17),
        ("*DF17(B);", format!("*{df17};"), 17),
        (" @ts+DF4(B);", format!(" @A0123456789B{df4};"), 4),
        ("ts+DF4(B)", format!("8D23456789AB{df4}"), 4),
        ("*ts+DF21(B);", format!("*20AA456789AB{df21};"), 21),
    ] {
        v.push(Sym { name: n, line: l.into_bytes(), df: Some(d) });
    }
    v
}

fn wide_filters() -> Vec<Option<Vec<u32>>> {
    let mut v: Vec<Option<Vec<u32>>> = vec![None];
    for d in 0..32u32 {
        v.push(Some(vec![d]));
    }
    v.push(Some(vec![31, 17]));
    v.push(Some(vec![4, 25, 21]));
    v
}

impl Env {
    fn wide() -> Env {
        let filters = wide_filters();
        let cfgs = filters
            .iter()
            .map(|f| {
                let o = opts_for(f, true, false);
                let ov: Vec<&str> = o.iter().map(|s| s.as_str()).collect();
                let c = Cfg::new(&ov);
                (o, c)
            })
            .collect();
        Env { syms: wide_alphabet(), filters, cfgs, quiet: Cfg::new(&[]), wide: true }
    }
}

/// evaluate one (sequence, filter set); `with_cli`: also compare with the CLI
fn eval_seq(ctx: &mut Ctx, env: &Env, seq: &[usize], fi: usize, with_cli: bool) {
    let filter = &env.filters[fi];
    let names: Vec<&str> = seq.iter().map(|&s| env.syms[s].name).collect();
    let content = join_lines(&seq.iter().map(|&s| env.syms[s].line.clone()).collect::<Vec<_>>());
    let flabel = match filter {
        None => "none".to_string(),
        Some(f) => f.iter().map(|d| d.to_string()).collect::<Vec<_>>().join(","),
    };
    let key = format!("[{}]/f={}", names.join(" "), flabel);
    let case = || json!({"seq": seq, "filter": fi, "wide": env.wide});
    let (o, cfg) = &env.cfgs[fi];
    let ov: Vec<&str> = o.iter().map(|s| s.as_str()).collect();
    let table = new_table();
    let (outcome, out) = capture_stdout(|| run_file(cfg, &content, &table));
    ctx.eval();
    if !outcome.is_ok() {
        ctx.violation("C16/run", &key, || format!("reader ended with {}", outcome.label()), case);
        return;
    }
    let blocks = cli::blocks(&out);
    // blocks[0] = before first clear, blocks[1] = legend, then one per refresh
    let refreshes: Vec<&String> = blocks.iter().skip(2).collect();
    let mut refc: BTreeMap<u32, u32> = BTreeMap::new();
    let mut k = 0usize;
    for &s in seq {
        let sym = &env.syms[s];
        ctx.out.transitions += 1;
        match sym.df {
            Some(df) if filter.as_ref().is_none_or(|f| f.contains(&df)) => {
                *refc.entry(df).or_insert(0) += 1;
                ctx.state(crate::snap::hash_state(&refc));
                ctx.count("counter-line-checked");
                let want = counter_line(&refc);
                let got = refreshes.get(k).and_then(|b| block_counter_line(b));
                ctx.outcome(&want);
                if got.as_deref() != Some(want.as_str()) {
                    ctx.violation("C16/counter-line", &key, || format!("after {} (refresh {}): expected counter line '{want}', printed {:?}", sym.name, k + 1, got), case);
                    return;
                }
                k += 1;
            }
            Some(_) => ctx.count("filtered-out-frame"),
            None => ctx.count("rejected-line"),
        }
    }
    if refreshes.len() != k {
        ctx.violation("C16/refresh-count", &key, || format!("{} refreshes printed for {k} accepted filter-passing frames", refreshes.len()), case);
        return;
    }
    // with -f the final table equals the table of the filtered sub-stream (no -f)
    if filter.is_some() && (seq.len() < 4 || (seq[0] + seq[1] * 3 + seq[3]) % 3 == 0) {
        let sub: Vec<Vec<u8>> = seq.iter().filter(|&&s| env.syms[s].df.is_some_and(|d| filter.as_ref().unwrap().contains(&d))).map(|&s| env.syms[s].line.clone()).collect();
        let t2 = new_table();
        let o2 = run_file(&env.quiet, &join_lines(&sub), &t2);
        ctx.count("filter-table-equal");
        if !o2.is_ok() || snapshot(&t2) != snapshot(&table) {
            ctx.violation("C16/filter-table", &key, || "table with -f differs from the table of the filtered sub-stream".to_string(), case);
            return;
        }
    }
    if with_cli {
        match cli::run_cli(true, &ov, &content, "c16") {
            Ok(c) => {
                ctx.out.traces_validated += 1;
                if c.code != Some(0) || c.stdout != out {
                    ctx.violation("C16/cli", &key, || format!("release CLI (exit {:?}) stdout differs from the in-process reader's stdout", c.code), case);
                }
            }
            Err(e) => ctx.machinery(format!("CLI run failed: {e}")),
        }
    }
}

fn large_counts(thorough: bool) -> Vec<(u32, usize)> {
    let mut v = vec![(17u32, 9_999usize), (17, 99_999), (17, 100_000), (4, 99_999), (4, 100_000)];
    if thorough {
        v.extend([(17, 999_999), (17, 1_000_000), (4, 1_000_000), (21, 1_234_567)]);
        // past the range of a 32-bit signed counter (a receiver that hears 1000 frames a second gets there in 25
        // days); streamed, about 40 minutes on one core - the other workers are long finished by then
        // (SQV_HUGE_N overrides the length - used to try the mechanism out with a shorter stream)
        v.push((11, std::env::var("SQV_HUGE_N").ok().and_then(|x| x.parse().ok()).unwrap_or((1usize << 31) + 5)));
    }
    v
}

/// `n` all-call replies of one aircraft streamed through a FIFO in portions of 2^20 lines, the clock moved
/// before one last frame of another aircraft: the counter line must read DF11:n+1
fn huge_count_case(ctx: &mut Ctx, k: usize, n: usize) {
    use crate::run::{TimedStep, run_timed_iter};
    let line = { let mut l = frames::df11(5, A, 0).hex().into_bytes(); l.push(b'\n'); l };
    let block: Vec<u8> = line.iter().copied().cycle().take(line.len() << 20).collect();
    let full = n >> 20;
    let rest = n & ((1 << 20) - 1);
    let last = join_lines(&[frames::df11(5, B, 0).hex().into_bytes()]);
    let mut i = 0usize;
    let mut steps = std::iter::from_fn(|| {
        i += 1;
        if i <= full {
            Some(TimedStep { bytes: block.clone(), advance_ms: 0 })
        } else if i == full + 1 {
            Some(TimedStep { bytes: block[..rest * line.len()].to_vec(), advance_ms: 10_000 })
        } else if i == full + 2 {
            Some(TimedStep { bytes: last.clone(), advance_ms: 0 })
        } else {
            None
        }
    });
    let cfg = Cfg::named(&["-i", "", "-c", "-u", "3"], "hugecount.fifo");
    let t = new_table();
    crate::run::describe_current(&format!("C16 {n} frames of one format, streamed"));
    // two thousand million lines: the per-line log statements (installed at trace level in every worker) are
    // switched off for this one run, as they are in the real binary without -l
    let level = log::max_level();
    log::set_max_level(log::LevelFilter::Off);
    let (rep, out) = capture_stdout(|| run_timed_iter(&cfg, &mut steps, &t, |_| {}));
    log::set_max_level(level);
    ctx.eval();
    if let Some(m) = rep.machinery {
        ctx.machinery(format!("C16 huge count: {m}"));
        return;
    }
    let blocks = cli::blocks(&out);
    let got = blocks.last().and_then(|b| block_counter_line(b));
    let want = format!("DF11:{}", n as u64 + 1);
    if !rep.outcome.is_ok() || got.as_deref() != Some(want.as_str()) {
        ctx.violation(
            "C16/large-count",
            &format!("{n} x DF11"),
            || format!("{n} DF11 of one aircraft, then (10 s later) one more DF11: expected the counter line '{want}', printed {got:?} (reader {})", rep.outcome.label()),
            || json!({"large_count": k}),
        );
    }
}

fn large_count_case(ctx: &mut Ctx, k: usize, df: u32, n: usize) {
    use crate::run::{TimedStep, run_timed};
    if n > (1 << 30) || (k == 9 && std::env::var("SQV_HUGE_N").is_ok()) {
        return huge_count_case(ctx, k, n);
    }
    let mk = |df: u32, i: u32| -> Vec<u8> {
        match df {
            17 => frames::df17(5, A, frames::me_velocity(&frames::Vel { st: 1, vew: 1 + i % 700, vns: 5, vr: 1 + i % 100, ..Default::default() })),
            4 => frames::df4(A, frames::ac13_for_alt(100 * (i as i32 % 300))),
            _ => frames::df21(A, frames::id13_for_squawk(1000 + i % 7), 0),
        }
        .hex()
        .into_bytes()
    };
    let mut first: Vec<Vec<u8>> = (0..3).map(|_| frames::df11(5, A, 0).hex().into_bytes()).collect();
    first.extend((0..n as u32).map(|i| mk(df, i)));
    let steps = vec![TimedStep { bytes: join_lines(&first), advance_ms: 10_000 }, TimedStep { bytes: join_lines(&[frames::df11(5, B, 0).hex().into_bytes()]), advance_ms: 0 }];
    let cfg = Cfg::named(&["-i", "", "-c", "-u", "3"], "count.fifo");
    let t = new_table();
    crate::run::describe_current(&format!("C16 {n} frames of DF{df}, table drawn at the end"));
    let (rep, out) = capture_stdout(|| run_timed(&cfg, &steps, &t));
    ctx.eval();
    if let Some(m) = rep.machinery {
        ctx.machinery(format!("C16 large count: {m}"));
        return;
    }
    let blocks = cli::blocks(&out);
    let got = blocks.last().and_then(|b| block_counter_line(b));
    let mut refc: BTreeMap<u32, u32> = BTreeMap::new();
    refc.insert(11, 4);
    *refc.entry(df).or_insert(0) += n as u32;
    let want = counter_line(&refc);
    if !rep.outcome.is_ok() || blocks.len() < 3 || got.as_deref() != Some(want.as_str()) {
        ctx.violation(
            "C16/large-count",
            &format!("{n} x DF{df}"),
            || format!("3 DF11, {n} DF{df}, then (10 s later) one more DF11: expected the counter line '{want}', printed {got:?} ({} refreshes, reader {})", blocks.len().saturating_sub(2), rep.outcome.label()),
            || json!({"large_count": k}),
        );
    }
}

fn eval_no_c(ctx: &mut Ctx, env: &Env, seq: &[usize]) {
    let content = join_lines(&seq.iter().map(|&s| env.syms[s].line.clone()).collect::<Vec<_>>());
    let o = opts_for(&None, false, false);
    let ov: Vec<&str> = o.iter().map(|s| s.as_str()).collect();
    let cfg = Cfg::new(&ov);
    let table = new_table();
    let (_oc, out) = capture_stdout(|| run_file(&cfg, &content, &table));
    ctx.eval();
    ctx.count("no-counter-line-without-c");
    let txt = String::from_utf8_lossy(&out);
    if txt.lines().any(|l| l.trim_start().starts_with("DF") && l.contains(':') && !l.contains("Downlink")) {
        let names: Vec<&str> = seq.iter().map(|&s| env.syms[s].name).collect();
        ctx.violation("C16/no-c", &format!("[{}]", names.join(" ")), || "a counter line is printed without -c".to_string(), || json!({"seq": seq, "noc": true}));
    }
}

fn run(ctx: &mut Ctx) {
    if let Err(e) = cli::available() {
        ctx.machinery(e);
        return;
    }
    let env = Env::new();
    let n = env.syms.len() as u64;
    let len = if ctx.tier.thorough() { 5 } else { 4 };
    let total = n.pow(len as u32);
    let mut job = 0u64;
    for fi in 0..env.filters.len() {
        // thorough: length 5 for the unfiltered set and three filters, length 4 for the others
        let l = if ctx.tier.thorough() && !(fi == 0 || fi == 6 || fi == 11 || fi == 12) { 4 } else { len };
        let tot = if l == len { total } else { n.pow(4) };
        for idx in 0..tot {
            job += 1;
            if !ctx.mine(job) {
                continue;
            }
            let seq = seq_of(idx, l, n);
            eval_seq(ctx, &env, &seq, fi, false);
        }
    }
    // CLI conformance on all sequences of length <= 3 (no filter) and length <= 2 for every filter set
    for l in 1..=3usize {
        for idx in 0..n.pow(l as u32) {
            job += 1;
            if !ctx.mine(job) {
                continue;
            }
            let seq = seq_of(idx, l, n);
            eval_seq(ctx, &env, &seq, 0, true);
            if l <= 2 {
                for fi in 1..env.filters.len() {
                    eval_seq(ctx, &env, &seq, fi, true);
                }
                eval_no_c(ctx, &env, &seq);
            }
        }
    }
    // the wide alphabet (every format value 0..31, decorated line forms) x every one-format filter: all
    // sequences of length 1 and 2
    {
        let wenv = Env::wide();
        let wn = wenv.syms.len() as u64;
        for l in 1..=2usize {
            for idx in 0..wn.pow(l as u32) {
                job += 1;
                if !ctx.mine(job) {
                    continue;
                }
                let seq = seq_of(idx, l, wn);
                for fi in 0..wenv.filters.len() {
                    // length 2: under the filters that concern one of the two lines, and no filter
                    if l == 2 && fi != 0 && !wenv.filters[fi].as_ref().is_some_and(|f| seq.iter().any(|&s| wenv.syms[s].df.is_some_and(|d| f.contains(&d)))) && fi % 8 != 1 {
                        continue;
                    }
                    ctx.count("wide-alphabet");
                    eval_seq(ctx, &wenv, &seq, fi, false);
                }
            }
        }
    }
    // large counts: n frames of one format, the table drawn once at the end (timed run: the clock is moved
    // before the last frame) - the counter line shows the exact numbers however many digits they have
    for (k, (df, n)) in large_counts(ctx.tier.thorough()).into_iter().enumerate() {
        job += 1;
        if ctx.mine(job) && crate::run::file_source_streams() {
            ctx.count("large-count");
            large_count_case(ctx, k, df, n);
        }
    }
    // on a table whose rows are 30 s old: a line that is rejected or whose DF is not in the -f list
    // leaves the table bit-identical (in particular it does not restart the last-contact age)
    job += 1;
    if ctx.mine(job) {
        let seed_cfg = Cfg::new(&[]);
        let t = new_table();
        let _ = run_file(&seed_cfg, &join_lines(&[env.syms[5].line.clone(), env.syms[1].line.clone(), env.syms[10].line.clone()]), &t);
        let mut aged = snapshot(&t);
        crate::snap::tick_all(&mut aged, 30_000);
        for (fi, filter) in env.filters.iter().enumerate() {
            for (si, sym) in env.syms.iter().enumerate() {
                let passes = sym.df.is_some_and(|d| filter.as_ref().is_none_or(|f| f.contains(&d)));
                if passes {
                    continue;
                }
                let o = opts_for(filter, true, true);
                let ov: Vec<&str> = o.iter().map(|s| s.as_str()).collect();
                let cfg = Cfg::new(&ov);
                let t = crate::snap::restore(&aged);
                let oc = run_file(&cfg, &join_lines(&[sym.line.clone()]), &t);
                ctx.eval();
                ctx.count("aged-table-untouched");
                if !oc.is_ok() || snapshot(&t) != aged {
                    ctx.violation(
                        "C16/filtered-frame-touches-table",
                        &format!("{}/f={fi}", sym.name),
                        || format!("{} with filter set #{fi}: the frame is not applied, yet the 30 s old table changed: {}", sym.name, snapshot(&t).iter().zip(aged.iter()).filter(|(a, b)| a != b).map(|(a, b)| crate::snap::diff_fields(b, a).join("; ")).collect::<Vec<_>>().join(" | ")),
                        || json!({"aged": true, "sym": si, "filter": fi}),
                    );
                }
            }
        }
    }
    ctx.sample(|| json!({"sequence": ["DF17(A)", "junk", "DF4(B)", "DF17(B)"], "filter": "none", "expected_counter_lines": ["DF17:1", "DF4:1 DF17:1", "DF4:1 DF17:2"]}));
    ctx.sample(|| json!({"symbol_lines": env.syms.iter().map(|s| json!([s.name, String::from_utf8_lossy(&s.line)])).collect::<Vec<_>>()}));
    ctx.bound("sequence length", len);
    ctx.bound("alphabet", n);
    ctx.bound("filter sets", env.filters.len());
    ctx.out.exhaustive = true;
}

fn replay(ctx: &mut Ctx, case: &Value) {
    if let Err(e) = cli::available() {
        ctx.machinery(e);
        return;
    }
    if let Some(k) = case.get("large_count").and_then(|x| x.as_u64()) {
        let all = large_counts(true);
        let (df, n) = all[k as usize % all.len()];
        crate::run::say(&format!("{n} frames of DF{df}, table drawn at the end"));
        large_count_case(ctx, k as usize, df, n);
        return;
    }
    let env = Env::new();
    if case.get("aged").is_some() {
        let (si, fi) = (case.get("sym").and_then(|x| x.as_u64()).unwrap_or(0) as usize, case.get("filter").and_then(|x| x.as_u64()).unwrap_or(0) as usize);
        let seed_cfg = Cfg::new(&[]);
        let t = new_table();
        let _ = run_file(&seed_cfg, &join_lines(&[env.syms[5].line.clone(), env.syms[1].line.clone(), env.syms[10].line.clone()]), &t);
        let mut aged = snapshot(&t);
        crate::snap::tick_all(&mut aged, 30_000);
        let o = opts_for(&env.filters[fi], true, true);
        let ov: Vec<&str> = o.iter().map(|s| s.as_str()).collect();
        let cfg = Cfg::new(&ov);
        let t = crate::snap::restore(&aged);
        let oc = run_file(&cfg, &join_lines(&[env.syms[si].line.clone()]), &t);
        let same = snapshot(&t) == aged;
        crate::run::say(&format!("{} under [{}] on a 30 s old table: outcome {}, table unchanged: {same}", env.syms[si].name, cfg.label(), oc.label()));
        if !oc.is_ok() || !same {
            ctx.violation("C16/filtered-frame-touches-table", "replay", || "table changed".into(), || case.clone());
        }
        return;
    }
    let seq: Vec<usize> = case.get("seq").and_then(|s| s.as_array()).map(|a| a.iter().filter_map(|x| x.as_u64().map(|v| v as usize)).collect()).unwrap_or_default();
    if case.get("noc").is_some() {
        eval_no_c(ctx, &env, &seq);
        return;
    }
    let fi = case.get("filter").and_then(|x| x.as_u64()).unwrap_or(0) as usize;
    let env = if case.get("wide").and_then(|x| x.as_bool()) == Some(true) { Env::wide() } else { env };
    for &s in &seq {
        crate::run::say(&format!("line {:<18} {}", env.syms[s].name, String::from_utf8_lossy(&env.syms[s].line)));
    }
    eval_seq(ctx, &env, &seq, fi, true);
}
