//! The reader seam: every verdict comes from `spawn_reader_thread` run over a file
//! (or a TCP peer) with the table shared through the public `Planes.aircrafts` Arc.

use crate::snap::Table;
use clap::Parser;
use squitterator::{Args, Planes, spawn_reader_thread};
use std::io::Write;
use std::os::fd::AsRawFd;
use std::path::PathBuf;
use std::sync::atomic::{AtomicBool, AtomicU64, Ordering::SeqCst};
use std::sync::{Arc, Mutex, OnceLock};
use std::time::Instant;

#[derive(Clone, Debug, PartialEq, Eq, Hash)]
pub enum Outcome {
    Ok,
    IoErr(String),
    Panic(String),
}

impl Outcome {
    pub fn is_ok(&self) -> bool {
        matches!(self, Outcome::Ok)
    }
    pub fn label(&self) -> String {
        match self {
            Outcome::Ok => "ok".into(),
            Outcome::IoErr(e) => format!("io-error: {e}"),
            Outcome::Panic(m) => format!("PANIC: {m}"),
        }
    }
}

static LAST_PANIC: Mutex<String> = Mutex::new(String::new());
static SCRATCH: OnceLock<PathBuf> = OnceLock::new();
static RUNS: AtomicU64 = AtomicU64::new(0);

/// watchdog state: what is running and since when (monotonic ms since process start)
static WD_BUSY: AtomicBool = AtomicBool::new(false);
static WD_SINCE_MS: AtomicU64 = AtomicU64::new(0);
static WD_WHAT: Mutex<String> = Mutex::new(String::new());
static START: OnceLock<Instant> = OnceLock::new();
pub const WEDGE_LIMIT_MS: u64 = 20_000;
/// the limit in force (ms): `WEDGE_LIMIT_MS` except inside `with_wedge_limit`
static WD_LIMIT_MS: AtomicU64 = AtomicU64::new(WEDGE_LIMIT_MS);

/// Runs that are known to be heavy (tens of thousands of aircraft: the program's sweep is quadratic there) get a
/// longer watchdog limit, so that a loaded machine does not turn them into a "wedge".
pub fn with_wedge_limit<R>(ms: u64, f: impl FnOnce() -> R) -> R {
    let old = WD_LIMIT_MS.swap(ms, SeqCst);
    let r = f();
    WD_LIMIT_MS.store(old, SeqCst);
    r
}

fn mono_ms() -> u64 {
    // real monotonic time: the watchdog must not be fooled by the virtual offset
    let _ = START.get_or_init(Instant::now);
    crate::shim::real_mono_ns() / 1_000_000
}

pub fn runs_done() -> u64 {
    RUNS.load(SeqCst)
}

pub fn scratch_dir() -> &'static PathBuf {
    SCRATCH.get_or_init(|| {
        let base = if std::path::Path::new("/dev/shm").is_dir() {
            PathBuf::from("/dev/shm")
        } else {
            std::env::temp_dir()
        };
        let d = base.join(format!("sqv-{}", std::process::id()));
        let _ = std::fs::create_dir_all(&d);
        d
    })
}

pub fn cleanup_scratch() {
    if let Some(d) = SCRATCH.get() {
        let _ = std::fs::remove_dir_all(d);
    }
}

/// Install the panic hook (records the message, prints nothing) and the wedge watchdog.
/// `on_wedge` is called from the watchdog thread with the description of the run that
/// exceeded the limit; it must persist what it wants and the process then exits with 4.
pub fn init(on_wedge: Option<Box<dyn Fn(&str) + Send + Sync>>) {
    let _ = mono_ms();
    std::panic::set_hook(Box::new(|info| {
        let msg = if let Some(s) = info.payload().downcast_ref::<&str>() {
            s.to_string()
        } else if let Some(s) = info.payload().downcast_ref::<String>() {
            s.clone()
        } else {
            "panic".to_string()
        };
        let loc = info
            .location()
            .map(|l| {
                let f = l.file();
                let f = f.rsplit("/src/").next().unwrap_or(f);
                format!(" @ {}:{}", f, l.line())
            })
            .unwrap_or_default();
        let on_reader = std::thread::current().name().is_none();
        if on_reader {
            if let Ok(mut g) = LAST_PANIC.lock() {
                *g = format!("{msg}{loc}");
            }
        } else {
            // a panic of harness code itself must be visible
            eprintln!("harness panic: {msg}{loc}");
        }
    }));
    std::thread::Builder::new()
        .name("sqv-watchdog".into())
        .spawn(move || {
            loop {
                crate::shim::real_sleep_us(250_000);
                if WD_BUSY.load(SeqCst) && mono_ms().saturating_sub(WD_SINCE_MS.load(SeqCst)) > WD_LIMIT_MS.load(SeqCst) {
                    let what = WD_WHAT.lock().map(|g| g.clone()).unwrap_or_default();
                    if let Some(f) = &on_wedge {
                        f(&what);
                    }
                    eprintln!("WEDGE: reader did not finish within {} ms: {what}", WD_LIMIT_MS.load(SeqCst));
                    unsafe { libc::_exit(4) };
                }
            }
        })
        .expect("watchdog");
}

pub fn describe_current(what: &str) {
    if let Ok(mut g) = WD_WHAT.lock() {
        g.clear();
        g.push_str(what);
    }
}

/// A parsed option set bound to this process's scratch input file.
pub struct Cfg {
    pub args: Arc<Args>,
    pub opts: Vec<String>,
    pub path: PathBuf,
}

impl Cfg {
    /// `opts` = extra CLI options (e.g. ["-U","-R"]); `-i Q` is added unless an -i is given.
    pub fn new(opts: &[&str]) -> Cfg {
        Self::named(opts, "in.txt")
    }
    pub fn named(opts: &[&str], fname: &str) -> Cfg {
        let path = scratch_dir().join(fname);
        let mut argv: Vec<String> = vec!["squitterator".into(), "-s".into(), path.to_string_lossy().into_owned()];
        if !opts.iter().any(|o| *o == "-i" || o.starts_with("--display-info") || (o.starts_with("-i") && o.len() > 2)) {
            argv.push("-i".into());
            argv.push("Q".into());
        }
        argv.extend(opts.iter().map(|s| s.to_string()));
        let args = Args::try_parse_from(&argv).unwrap_or_else(|e| panic!("bad option set {opts:?}: {e}"));
        Cfg { args: Arc::new(args), opts: opts.iter().map(|s| s.to_string()).collect(), path }
    }
    pub fn tcp(opts: &[&str], addr: &str) -> Cfg {
        let mut argv: Vec<String> = vec!["squitterator".into(), "-t".into(), addr.into()];
        if !opts.iter().any(|o| *o == "-i") {
            argv.push("-i".into());
            argv.push("Q".into());
        }
        argv.extend(opts.iter().map(|s| s.to_string()));
        let args = Args::try_parse_from(&argv).unwrap_or_else(|e| panic!("bad option set {opts:?}: {e}"));
        Cfg { args: Arc::new(args), opts: opts.iter().map(|s| s.to_string()).collect(), path: PathBuf::new() }
    }
    pub fn label(&self) -> String {
        if self.opts.is_empty() { "default".into() } else { self.opts.join(" ") }
    }
}

/// Run the real reader thread over `content` against `table`; join it.
pub fn run_file(cfg: &Cfg, content: &[u8], table: &Table) -> Outcome {
    {
        let mut f = std::fs::File::create(&cfg.path).expect("scratch file");
        f.write_all(content).expect("scratch write");
    }
    run_path(cfg, table)
}

pub fn run_path(cfg: &Cfg, table: &Table) -> Outcome {
    RUNS.fetch_add(1, SeqCst);
    let planes = Planes { aircrafts: table.clone() };
    WD_SINCE_MS.store(mono_ms(), SeqCst);
    WD_BUSY.store(true, SeqCst);
    let h = spawn_reader_thread(cfg.args.clone(), planes);
    let r = h.join();
    WD_BUSY.store(false, SeqCst);
    match r {
        Ok(Ok(())) => Outcome::Ok,
        Ok(Err(e)) => Outcome::IoErr(e.to_string()),
        Err(_) => {
            let m = LAST_PANIC.lock().map(|g| g.clone()).unwrap_or_default();
            Outcome::Panic(m)
        }
    }
}

/// join lines with '\n' (each line is raw bytes)
pub fn join_lines<T: AsRef<[u8]>>(lines: &[T]) -> Vec<u8> {
    let mut v = Vec::new();
    for l in lines {
        v.extend_from_slice(l.as_ref());
        v.push(b'\n');
    }
    v
}

// ---------------------------------------------------------------- stdout capture

static SAVED_OUT: OnceLock<i32> = OnceLock::new();

/// Redirect fd 1 to /dev/null for the whole process, keeping a copy of the original
/// for the harness's own reporting (`say`).
pub fn silence_stdout() {
    SAVED_OUT.get_or_init(|| unsafe {
        let _ = std::io::stdout().flush();
        let saved = libc::dup(1);
        let null = std::fs::OpenOptions::new().write(true).open("/dev/null").expect("/dev/null");
        libc::dup2(null.as_raw_fd(), 1);
        saved
    });
}

/// print on the real stdout
pub fn say(s: &str) {
    let fd = *SAVED_OUT.get().unwrap_or(&1);
    let line = format!("{s}\n");
    let b = line.as_bytes();
    let mut off = 0;
    while off < b.len() {
        let n = unsafe { libc::write(fd, b[off..].as_ptr() as *const libc::c_void, b.len() - off) };
        if n <= 0 {
            break;
        }
        off += n as usize;
    }
}

static CAP_FD: OnceLock<i32> = OnceLock::new();

/// Run `f` with fd 1 redirected into a memfd and return what was written.
/// (Process-global: callers are serial inside one worker process.)
pub fn capture_stdout<R>(f: impl FnOnce() -> R) -> (R, Vec<u8>) {
    silence_stdout();
    let cap = *CAP_FD.get_or_init(|| unsafe { libc::memfd_create(c"sqv-stdout".as_ptr(), 0) });
    assert!(cap >= 0, "memfd_create");
    let _ = std::io::stdout().flush();
    unsafe {
        libc::ftruncate(cap, 0);
        libc::lseek(cap, 0, libc::SEEK_SET);
    }
    let prev = unsafe { libc::dup(1) };
    unsafe { libc::dup2(cap, 1) };
    let r = f();
    let _ = std::io::stdout().flush();
    unsafe {
        libc::dup2(prev, 1);
        libc::close(prev);
    }
    let len = unsafe { libc::lseek(cap, 0, libc::SEEK_END) };
    let mut out = vec![0u8; len.max(0) as usize];
    let mut off = 0usize;
    while off < out.len() {
        let n = unsafe { libc::pread(cap, out[off..].as_mut_ptr() as *mut libc::c_void, out.len() - off, off as libc::off_t) };
        if n <= 0 {
            break;
        }
        off += n as usize;
    }
    out.truncate(off);
    (r, out)
}

// ---------------------------------------------------------------- timed continuous runs (E5)

/// one portion of a timed stream: the bytes are written, the harness waits until the reader has taken and
/// processed them (it is blocked in a read on an empty pipe), then virtual time advances by `advance_ms`
#[derive(Clone, Debug)]
pub struct TimedStep {
    pub bytes: Vec<u8>,
    pub advance_ms: i64,
}

/// What a timed run observed: outcome of the reader, virtual milliseconds that passed, and whether every
/// portion was seen consumed before the clock moved (false = the reader was gone or never blocked again).
pub struct TimedRun {
    pub outcome: Outcome,
    pub elapsed_ms: i64,
    pub all_consumed: bool,
    pub machinery: Option<String>,
}

static FIFO_SEQ: AtomicU64 = AtomicU64::new(0);
static STREAMS: OnceLock<bool> = OnceLock::new();

/// Does the reader process a file source incrementally (line by line as the bytes arrive)? Timed runs only
/// mean something if it does: a reader that first reads its whole input (legitimate for a file) would see
/// every line at the final instant. Probed once per process: two portions, the table is inspected between them.
pub fn file_source_streams() -> bool {
    *STREAMS.get_or_init(|| {
        let cfg = Cfg::named(&[], "probe.fifo");
        let t = crate::snap::new_table();
        let a = crate::frames::df11(5, 0x4CA2D6, 0).hex().into_bytes();
        let b = crate::frames::df11(5, 0x3C6586, 0).hex().into_bytes();
        let seen = std::sync::Arc::new(AtomicBool::new(false));
        let steps = vec![TimedStep { bytes: join_lines(&[a]), advance_ms: 1 }, TimedStep { bytes: join_lines(&[b]), advance_ms: 0 }];
        let (t2, seen2) = (t.clone(), seen.clone());
        let rep = run_timed_with(&cfg, &steps, &t, move |i| {
            if i == 0 && t2.read().map(|g| g.contains_key(&0x4CA2D6)).unwrap_or(false) {
                seen2.store(true, SeqCst);
            }
        });
        rep.machinery.is_none() && rep.outcome.is_ok() && seen.load(SeqCst)
    })
}

/// the fd (other than `mine`) of this process that has `path` open
fn other_fd_on(path: &std::path::Path, mine: i32) -> Option<i32> {
    for e in std::fs::read_dir("/proc/self/fd").ok()?.flatten() {
        let Some(fd) = e.file_name().to_str().and_then(|x| x.parse::<i32>().ok()) else { continue };
        if fd == mine {
            continue;
        }
        if std::fs::read_link(e.path()).ok().as_deref() == Some(path) {
            return Some(fd);
        }
    }
    None
}

/// a thread of this process is blocked in read(fd, ..) and nothing is left in the pipe
fn pipe_drained_and_reader_blocked(rfd: i32) -> bool {
    let mut inq: libc::c_int = 0;
    if unsafe { libc::ioctl(rfd, libc::FIONREAD, &mut inq) } != 0 || inq != 0 {
        return false;
    }
    std::fs::read_dir("/proc/self/task").ok().into_iter().flatten().flatten().any(|e| {
        std::fs::read_to_string(e.path().join("syscall")).ok().is_some_and(|l| {
            let mut it = l.split_whitespace();
            let nr = it.next().and_then(|x| x.parse::<i64>().ok());
            let a0 = it.next().and_then(|x| i64::from_str_radix(x.trim_start_matches("0x"), 16).ok());
            nr == Some(libc::SYS_read) && a0 == Some(rfd as i64)
        })
    })
}

/// Run the real reader thread over a FIFO (file source) that the harness feeds portion by portion while it
/// owns the clock: the wall clock and CLOCK_MONOTONIC stand still while a portion is processed and jump by
/// `advance_ms` between portions. The table's time stamps are real `Utc::now()` values of that virtual time,
/// so fields the harness does not know (and cannot shift in a snapshot) age too. Ends with EOF; joins.
pub fn run_timed(cfg: &Cfg, steps: &[TimedStep], table: &Table) -> TimedRun {
    run_timed_with(cfg, steps, table, |_| {})
}

/// as `run_timed`; `after(i)` is called when portion i has been consumed, before the clock moves
pub fn run_timed_with(cfg: &Cfg, steps: &[TimedStep], table: &Table, after: impl Fn(usize)) -> TimedRun {
    run_timed_iter(cfg, &mut steps.iter().cloned(), table, after)
}

/// as `run_timed_with`, the portions being produced on demand (streams too long to hold in memory)
pub fn run_timed_iter(cfg: &Cfg, steps: &mut dyn Iterator<Item = TimedStep>, table: &Table, after: impl Fn(usize)) -> TimedRun {
    use crate::shim;
    let mut rep = TimedRun { outcome: Outcome::Ok, elapsed_ms: 0, all_consumed: true, machinery: None };
    let _ = std::fs::remove_file(&cfg.path);
    let cpath = std::ffi::CString::new(cfg.path.to_string_lossy().as_bytes()).expect("path");
    if unsafe { libc::mkfifo(cpath.as_ptr(), 0o600) } != 0 {
        rep.machinery = Some(format!("mkfifo {}: {}", cfg.path.display(), std::io::Error::last_os_error()));
        return rep;
    }
    RUNS.fetch_add(1, SeqCst);
    shim::wall_follows_virtual_time(true);
    let planes = Planes { aircrafts: table.clone() };
    WD_SINCE_MS.store(mono_ms(), SeqCst);
    WD_BUSY.store(true, SeqCst);
    let h = spawn_reader_thread(cfg.args.clone(), planes);
    // open the write end once the reader has the read end open (a non-blocking open fails with ENXIO before)
    let t0 = mono_ms();
    let wfd = loop {
        let fd = unsafe { libc::open(cpath.as_ptr(), libc::O_WRONLY | libc::O_NONBLOCK) };
        if fd >= 0 {
            break fd;
        }
        if h.is_finished() || mono_ms() - t0 > 5_000 {
            break -1;
        }
        shim::real_sleep_us(50);
    };
    if wfd >= 0 {
        unsafe {
            let fl = libc::fcntl(wfd, libc::F_GETFL);
            libc::fcntl(wfd, libc::F_SETFL, fl & !libc::O_NONBLOCK);
        }
        // the reader is counted as a reader of the FIFO before its open() has returned and installed the fd
        let t_fd = mono_ms();
        let mut rfd = other_fd_on(&cfg.path, wfd);
        while rfd.is_none() && !h.is_finished() && mono_ms() - t_fd < 2_000 {
            shim::real_sleep_us(20);
            rfd = other_fd_on(&cfg.path, wfd);
        }
        for (si, s) in steps.enumerate() {
            WD_SINCE_MS.store(mono_ms(), SeqCst);
            let mut off = 0usize;
            while off < s.bytes.len() {
                // at most 256 KiB per write: every completed write is progress of the reader (the pipe holds 64 KiB),
                // and the watchdog is about a reader that makes none
                let want = (s.bytes.len() - off).min(256 * 1024);
                let n = unsafe { libc::write(wfd, s.bytes[off..].as_ptr() as *const libc::c_void, want) };
                if n <= 0 {
                    break;
                }
                off += n as usize;
                WD_SINCE_MS.store(mono_ms(), SeqCst);
            }
            let consumed = match rfd {
                Some(rfd) => {
                    let t = mono_ms();
                    let mut ok = false;
                    // (generous: on a loaded machine the reader thread may not be scheduled for a while; the watchdog
                    // limit is 20 s)
                    while mono_ms() - t < 12_000 {
                        if pipe_drained_and_reader_blocked(rfd) {
                            ok = true;
                            break;
                        }
                        if h.is_finished() {
                            break;
                        }
                        shim::real_sleep_us(30);
                    }
                    ok
                }
                None => false,
            };
            if !consumed {
                rep.all_consumed = false;
                if std::env::var("SQV_DEBUG_TIMED").is_ok() {
                    let mut inq: libc::c_int = -1;
                    let r = rfd.map(|rfd| unsafe { libc::ioctl(rfd, libc::FIONREAD, &mut inq) });
                    let sc: Vec<String> = std::fs::read_dir("/proc/self/task").ok().into_iter().flatten().flatten().filter_map(|e| std::fs::read_to_string(e.path().join("syscall")).ok()).map(|l| l.split_whitespace().take(2).collect::<Vec<_>>().join(" ")).collect();
                    eprintln!("timed debug: rfd {rfd:?} wfd {wfd} ioctl {r:?} inq {inq} finished {} waited {} ms syscalls {sc:?}", h.is_finished(), mono_ms() - t0);
                }
            }
            after(si);
            if s.advance_ms != 0 {
                shim::advance_monotonic(s.advance_ms / 1000, (s.advance_ms % 1000) * 1_000_000);
            }
        }
        unsafe { libc::close(wfd) };
    } else if !h.is_finished() {
        rep.machinery = Some("the reader never opened the FIFO".into());
        // unblock a reader that may still be waiting in open(): a read-write open of a FIFO always succeeds
        let fd = unsafe { libc::open(cpath.as_ptr(), libc::O_RDWR | libc::O_NONBLOCK) };
        if fd >= 0 {
            shim::real_sleep_us(20_000);
            unsafe { libc::close(fd) };
        }
    }
    let r = h.join();
    WD_BUSY.store(false, SeqCst);
    rep.elapsed_ms = shim::wall_elapsed_ms();
    shim::wall_follows_virtual_time(false);
    let _ = std::fs::remove_file(&cfg.path);
    let _ = FIFO_SEQ.fetch_add(1, SeqCst);
    rep.outcome = match r {
        Ok(Ok(())) => Outcome::Ok,
        Ok(Err(e)) => Outcome::IoErr(e.to_string()),
        Err(_) => Outcome::Panic(LAST_PANIC.lock().map(|g| g.clone()).unwrap_or_default()),
    };
    rep
}
