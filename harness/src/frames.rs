//! Frame construction (DESIGN App. B). Bit n (1-based) of a frame is bit n of the
//! 56/112-bit string; nothing here goes through the repository's decoders.

pub const POLY: u32 = 0x1FFF409; // 25-bit generator

/// A Mode S frame as a big integer: `nbits` is 56 or 112, bit 1 = MSB.
#[derive(Clone, Copy, Debug, PartialEq, Eq, Hash)]
pub struct Frame {
    pub v: u128,
    pub nbits: u32,
}

impl Frame {
    pub fn zero(nbits: u32) -> Self {
        Frame { v: 0, nbits }
    }
    /// set bits [start, start+len) (1-based, MSB first) to `val`
    pub fn set(&mut self, start: u32, len: u32, val: u64) -> &mut Self {
        debug_assert!(start >= 1 && start + len - 1 <= self.nbits && len <= 64);
        let shift = self.nbits - (start + len - 1);
        let mask: u128 = if len == 64 { u64::MAX as u128 } else { (1u128 << len) - 1 };
        self.v &= !(mask << shift);
        self.v |= ((val as u128) & mask) << shift;
        self
    }
    pub fn get(&self, start: u32, len: u32) -> u64 {
        let shift = self.nbits - (start + len - 1);
        let mask: u128 = if len == 64 { u64::MAX as u128 } else { (1u128 << len) - 1 };
        ((self.v >> shift) & mask) as u64
    }
    pub fn bit(&self, n: u32) -> u32 {
        self.get(n, 1) as u32
    }
    pub fn flip(&mut self, n: u32) -> &mut Self {
        self.v ^= 1u128 << (self.nbits - n);
        self
    }
    pub fn df(&self) -> u32 {
        self.get(1, 5) as u32
    }
    pub fn hex(&self) -> String {
        let nd = (self.nbits / 4) as usize;
        let mut s = String::with_capacity(nd);
        for i in 0..nd {
            let d = ((self.v >> (4 * (nd - 1 - i))) & 0xF) as u32;
            s.push(char::from_digit(d, 16).unwrap().to_ascii_uppercase());
        }
        s
    }
    pub fn from_hex(s: &str) -> Option<Frame> {
        let digits: Vec<u32> = s.chars().filter_map(|c| c.to_digit(16)).collect();
        if digits.len() != 14 && digits.len() != 28 {
            return None;
        }
        let mut v = 0u128;
        for d in &digits {
            v = (v << 4) | *d as u128;
        }
        Some(Frame { v, nbits: digits.len() as u32 * 4 })
    }
    /// CRC-24 (plain MSB-first bit-serial division by 0x1FFF409) of the bits that
    /// precede the 24-bit parity field.
    pub fn crc_of_data(&self) -> u32 {
        crc24(self.v >> 24, self.nbits - 24)
    }
    /// remainder of the whole frame (0 for a valid DF17/18)
    pub fn remainder(&self) -> u32 {
        self.crc_of_data() ^ (self.v & 0xFF_FFFF) as u32
    }
    /// write parity = crc(data) xor ap
    pub fn seal(&mut self, ap: u32) -> &mut Self {
        let c = self.crc_of_data() ^ (ap & 0xFF_FFFF);
        self.v = (self.v & !0xFF_FFFFu128) | c as u128;
        self
    }
}

/// Frames with algebraic structure with respect to the generator: for every byte count p, the first p bytes are
/// themselves a multiple of the generator (p-3 leading bytes followed by their own CRC-24), the rest is filled
/// with 0x00 / 0xFF / 0x5A; each both as it stands and with its last 24 bits sealed to `ap`.
/// (A CRC routine that works word by word, skips zero registers or uses look-up tables is most likely to go
/// wrong exactly here.) `lead` gives the leading bytes to draw from (its first byte fixes the format).
pub fn crc_structured(lead: &[u8], nbits: u32, ap: u32) -> Vec<Frame> {
    let nbytes = (nbits / 8) as usize;
    let mut out = vec![];
    for p in 4..=(nbytes - 1) {
        let k = p - 3; // leading bytes
        let mut head: u128 = 0;
        for i in 0..k {
            head = (head << 8) | *lead.get(i).unwrap_or(&0xA5) as u128;
        }
        let c = crc24(head, (k * 8) as u32) as u128;
        let prefix = (head << 24) | c; // p bytes, divisible by the generator
        for fill in [0x00u8, 0xFF, 0x5A] {
            let mut v = prefix;
            for _ in p..nbytes {
                v = (v << 8) | fill as u128;
            }
            let f = Frame { v, nbits };
            out.push(f);
            let mut g = f;
            g.seal(ap);
            out.push(g);
        }
        // zero fill with exactly one bit set behind the prefix (every position), parity field left as it is
        let tail_bits = ((nbytes - p) * 8) as u32;
        for b in 0..tail_bits {
            out.push(Frame { v: (prefix << tail_bits) | (1u128 << b), nbits });
        }
    }
    out
}

/// remainder of data(x)·x^24 modulo the generator; `nbits` data bits, MSB first
pub fn crc24(data: u128, nbits: u32) -> u32 {
    let mut reg: u32 = 0;
    for i in (0..nbits).rev() {
        let inbit = ((data >> i) & 1) as u32;
        let top = (reg >> 23) & 1;
        reg = (reg << 1) & 0xFF_FFFF;
        if top ^ inbit != 0 {
            reg ^= POLY & 0xFF_FFFF;
        }
    }
    reg
}

// ---------------------------------------------------------------- short / long replies

/// DF0/4/5 (and any short DF with address/parity): df(5) | b6_32 (27 bits) | AP
pub fn short_ap(df: u32, b6_32: u32, addr: u32) -> Frame {
    let mut f = Frame::zero(56);
    f.set(1, 5, df as u64).set(6, 27, b6_32 as u64);
    f.seal(addr);
    f
}

/// DF16/20/21 (and any long DF with address/parity): df(5) | b6_32 | MB/MV(56) | AP
pub fn long_ap(df: u32, b6_32: u32, mb: u64, addr: u32) -> Frame {
    let mut f = Frame::zero(112);
    f.set(1, 5, df as u64).set(6, 27, b6_32 as u64).set(33, 56, mb);
    f.seal(addr);
    f
}

/// bits 6..32 of a surveillance reply: FS(3) DR(5) UM(6) AC13/ID13
pub fn surv_bits(fs: u32, dr: u32, um: u32, code13: u32) -> u32 {
    ((fs & 7) << 24) | ((dr & 31) << 19) | ((um & 63) << 13) | (code13 & 0x1FFF)
}

pub fn df4(addr: u32, ac13: u32) -> Frame {
    short_ap(4, surv_bits(0, 0, 0, ac13), addr)
}
pub fn df5(addr: u32, id13: u32) -> Frame {
    short_ap(5, surv_bits(0, 0, 0, id13), addr)
}
pub fn df0(addr: u32, ac13: u32) -> Frame {
    short_ap(0, ac13 & 0x1FFF, addr)
}
pub fn df16(addr: u32, ac13: u32, mv: u64) -> Frame {
    long_ap(16, ac13 & 0x1FFF, mv, addr)
}
pub fn df20(addr: u32, ac13: u32, mb: u64) -> Frame {
    long_ap(20, surv_bits(0, 0, 0, ac13), mb, addr)
}
pub fn df21(addr: u32, id13: u32, mb: u64) -> Frame {
    long_ap(21, surv_bits(0, 0, 0, id13), mb, addr)
}

/// DF11 all-call reply: DF(5) CA(3) AA(24) PI(24) with the interrogator code in the low 7 bits
pub fn df11(ca: u32, aa: u32, ic: u32) -> Frame {
    let mut f = Frame::zero(56);
    f.set(1, 5, 11).set(6, 3, ca as u64).set(9, 24, aa as u64);
    f.seal(ic & 0x7F);
    f
}

/// DF17 / DF18: DF(5) CA|CF(3) AA(24) ME(56) PI(24)
pub fn es(df: u32, ca: u32, aa: u32, me: u64) -> Frame {
    let mut f = Frame::zero(112);
    f.set(1, 5, df as u64).set(6, 3, ca as u64).set(9, 24, aa as u64).set(33, 56, me);
    f.seal(0);
    f
}
pub fn df17(ca: u32, aa: u32, me: u64) -> Frame {
    es(17, ca, aa, me)
}
pub fn df18(cf: u32, aa: u32, me: u64) -> Frame {
    es(18, cf, aa, me)
}

// ---------------------------------------------------------------- ME fields (56 bits, bit 1 = MSB of ME)

pub struct Me(pub u64);
impl Me {
    pub fn new() -> Self {
        Me(0)
    }
    pub fn set(mut self, start: u32, len: u32, val: u64) -> Self {
        let shift = 56 - (start + len - 1);
        let mask: u64 = if len == 64 { u64::MAX } else { (1u64 << len) - 1 };
        self.0 &= !(mask << shift);
        self.0 |= (val & mask) << shift;
        self
    }
}

pub fn me_get(me: u64, start: u32, len: u32) -> u64 {
    let shift = 56 - (start + len - 1);
    (me >> shift) & ((1u64 << len) - 1)
}

/// identification: TC(5) CA(3) 8 x 6 bit
pub fn me_ident(tc: u32, cat: u32, chars: [u32; 8]) -> u64 {
    let mut m = Me::new().set(1, 5, tc as u64).set(6, 3, cat as u64);
    for (i, c) in chars.iter().enumerate() {
        m = m.set(9 + 6 * i as u32, 6, *c as u64);
    }
    m.0
}

pub fn callsign_codes(s: &str) -> [u32; 8] {
    let mut out = [32u32; 8];
    for (i, ch) in s.chars().take(8).enumerate() {
        out[i] = match ch {
            'A'..='Z' => ch as u32 - 64,
            '0'..='9' => ch as u32,
            _ => 32,
        };
    }
    out
}

/// airborne position: TC(5) SS(2) SAF(1) AC12(12) T(1) F(1) LAT(17) LON(17)
pub fn me_airpos(tc: u32, ss: u32, saf: u32, ac12: u32, t: u32, f: u32, lat: u32, lon: u32) -> u64 {
    Me::new()
        .set(1, 5, tc as u64)
        .set(6, 2, ss as u64)
        .set(8, 1, saf as u64)
        .set(9, 12, ac12 as u64)
        .set(21, 1, t as u64)
        .set(22, 1, f as u64)
        .set(23, 17, lat as u64)
        .set(40, 17, lon as u64)
        .0
}

/// surface position: TC(5) MOV(7) S(1) TRK(7) T(1) F(1) LAT(17) LON(17)
pub fn me_surfpos(tc: u32, mov: u32, s: u32, trk: u32, t: u32, f: u32, lat: u32, lon: u32) -> u64 {
    Me::new()
        .set(1, 5, tc as u64)
        .set(6, 7, mov as u64)
        .set(13, 1, s as u64)
        .set(14, 7, trk as u64)
        .set(21, 1, t as u64)
        .set(22, 1, f as u64)
        .set(23, 17, lat as u64)
        .set(40, 17, lon as u64)
        .0
}

#[derive(Clone, Copy, Debug, Default)]
pub struct Vel {
    pub st: u32,
    pub ic: u32,
    pub ifr: u32,
    pub nuc: u32,
    pub dew: u32,
    pub vew: u32,
    pub dns: u32,
    pub vns: u32,
    pub vrsrc: u32,
    pub vrsign: u32,
    pub vr: u32,
    pub diffsign: u32,
    pub diff: u32,
}

/// velocity: TC=19(5) ST(3) IC(1) IFR(1) NUC(3) Dew(1) Vew(10) Dns(1) Vns(10) VrSrc(1) VrSign(1) Vr(9) res(2) DiffSign(1) Diff(7)
pub fn me_velocity(v: &Vel) -> u64 {
    Me::new()
        .set(1, 5, 19)
        .set(6, 3, v.st as u64)
        .set(9, 1, v.ic as u64)
        .set(10, 1, v.ifr as u64)
        .set(11, 3, v.nuc as u64)
        .set(14, 1, v.dew as u64)
        .set(15, 10, v.vew as u64)
        .set(25, 1, v.dns as u64)
        .set(26, 10, v.vns as u64)
        .set(36, 1, v.vrsrc as u64)
        .set(37, 1, v.vrsign as u64)
        .set(38, 9, v.vr as u64)
        .set(49, 1, v.diffsign as u64)
        .set(50, 7, v.diff as u64)
        .0
}

/// TC 29 target state (content irrelevant to the named parameters)
pub fn me_tc29() -> u64 {
    Me::new().set(1, 5, 29).set(6, 2, 1).set(10, 11, 700).0
}

/// TC 31 operational status with the ADS-B version in ME bits 41-43
pub fn me_tc31(version: u32) -> u64 {
    Me::new().set(1, 5, 31).set(41, 3, version as u64).0
}

/// TC 28 aircraft status (emergency) - an ME type the decoder ignores
pub fn me_tc28() -> u64 {
    // subtype 1: emergency state (3 bits) = 1 (general emergency), Mode A code (13 bits) = 7700
    Me::new().set(1, 5, 28).set(6, 3, 1).set(9, 3, 1).set(12, 13, id13_for_squawk(7700) as u64).0
}

// ---------------------------------------------------------------- MB registers (56 bits, bit 1 = first MB bit)

/// BDS 1,7: capability bits 1-24 (bit 7 = 2,0; 9 = 4,0; 13 = 4,4; 16 = 5,0; 24 = 6,0), bits 25-56 zero
pub fn mb_bds17(caps24: u32) -> u64 {
    Me::new().set(1, 24, caps24 as u64).0
}
pub const CAP_20: u32 = 1 << (24 - 7);
pub const CAP_40: u32 = 1 << (24 - 9);
pub const CAP_44: u32 = 1 << (24 - 13);
pub const CAP_50: u32 = 1 << (24 - 16);
pub const CAP_60: u32 = 1 << (24 - 24);

pub fn mb_bds20(chars: [u32; 8]) -> u64 {
    let mut m = Me::new().set(1, 8, 0x20);
    for (i, c) in chars.iter().enumerate() {
        m = m.set(9 + 6 * i as u32, 6, *c as u64);
    }
    m.0
}

/// BDS 3,0: 0x30, ARA(14) bits 9-22, RAC(4) 23-26, RAT 27, MTE 28, TTI(2) 29-30, TID(26) 31-56
/// BDS 4,5 meteorological hazard report with every status bit set and every value non-zero (turbulence, wind
/// shear, microburst, icing, wake vortex = `lvl`; static air temperature `temp_q` x 0.25 C; average static
/// pressure `pres` hPa; radio height `rh16` x 16 ft), reserved bits 52-56 zero
pub fn mb_bds45(lvl: u32, temp_q: u32, pres: u32, rh16: u32) -> u64 {
    let mut m = Me::new();
    for k in 0..5u32 {
        m = m.set(1 + 3 * k, 1, 1).set(2 + 3 * k, 2, lvl as u64);
    }
    m.set(16, 1, 1).set(17, 1, 0).set(18, 9, temp_q as u64).set(27, 1, 1).set(28, 11, pres as u64).set(39, 1, 1).set(40, 12, rh16 as u64).0
}

/// BDS 4,4 meteorological routine report: FOM/source 1, wind (status, speed kt, direction x 180/256), static air
/// temperature (sign, x 0.25 C), pressure (status, hPa), turbulence (status, level), humidity (status, x 100/64 %)
pub fn mb_bds44(wind_kt: u32, wind_dir: u32, temp_q: u32, pres: u32, turb: u32, hum: u32) -> u64 {
    Me::new().set(1, 4, 1).set(5, 1, 1).set(6, 9, wind_kt as u64).set(15, 9, wind_dir as u64).set(24, 1, 0).set(25, 10, temp_q as u64).set(35, 1, 1).set(36, 11, pres as u64).set(47, 1, 1).set(48, 2, turb as u64).set(50, 1, 1).set(51, 6, hum as u64).0
}

pub fn mb_bds30(ara: u32, rac: u32, rat: u32, mte: u32, tti: u32, tid: u32) -> u64 {
    Me::new()
        .set(1, 8, 0x30)
        .set(9, 14, ara as u64)
        .set(23, 4, rac as u64)
        .set(27, 1, rat as u64)
        .set(28, 1, mte as u64)
        .set(29, 2, tti as u64)
        .set(31, 26, tid as u64)
        .0
}

#[derive(Clone, Copy, Debug, Default, PartialEq, Eq, Hash)]
pub struct B40 {
    pub s_mcp: u32,
    pub mcp: u32,
    pub s_fms: u32,
    pub fms: u32,
    pub s_baro: u32,
    pub baro: u32,
    pub res1: u32, // bits 40-47
    pub s_mode: u32,
    pub mode: u32, // 3 bits
    pub res2: u32, // bits 52-53
    pub s_src: u32,
    pub src: u32, // 2 bits
}
/// BDS 4,0: S MCP(12) S FMS(12) S BARO(12) res(8) S MODE(3) res(2) S SRC(2)
pub fn mb_bds40(r: &B40) -> u64 {
    Me::new()
        .set(1, 1, r.s_mcp as u64)
        .set(2, 12, r.mcp as u64)
        .set(14, 1, r.s_fms as u64)
        .set(15, 12, r.fms as u64)
        .set(27, 1, r.s_baro as u64)
        .set(28, 12, r.baro as u64)
        .set(40, 8, r.res1 as u64)
        .set(48, 1, r.s_mode as u64)
        .set(49, 3, r.mode as u64)
        .set(52, 2, r.res2 as u64)
        .set(54, 1, r.s_src as u64)
        .set(55, 2, r.src as u64)
        .0
}

#[derive(Clone, Copy, Debug, Default, PartialEq, Eq, Hash)]
pub struct B50 {
    pub s_roll: u32,
    pub roll_sign: u32,
    pub roll: u32, // 9
    pub s_trk: u32,
    pub trk_sign: u32,
    pub trk: u32, // 10
    pub s_gs: u32,
    pub gs: u32, // 10
    pub s_tar: u32,
    pub tar_sign: u32,
    pub tar: u32, // 9
    pub s_tas: u32,
    pub tas: u32, // 10
}
/// BDS 5,0: S sgn ROLL(9) S sgn TRK(10) S GS(10) S sgn TAR(9) S TAS(10)
pub fn mb_bds50(r: &B50) -> u64 {
    Me::new()
        .set(1, 1, r.s_roll as u64)
        .set(2, 1, r.roll_sign as u64)
        .set(3, 9, r.roll as u64)
        .set(12, 1, r.s_trk as u64)
        .set(13, 1, r.trk_sign as u64)
        .set(14, 10, r.trk as u64)
        .set(24, 1, r.s_gs as u64)
        .set(25, 10, r.gs as u64)
        .set(35, 1, r.s_tar as u64)
        .set(36, 1, r.tar_sign as u64)
        .set(37, 9, r.tar as u64)
        .set(46, 1, r.s_tas as u64)
        .set(47, 10, r.tas as u64)
        .0
}

#[derive(Clone, Copy, Debug, Default, PartialEq, Eq, Hash)]
pub struct B60 {
    pub s_hdg: u32,
    pub hdg_sign: u32,
    pub hdg: u32, // 10
    pub s_ias: u32,
    pub ias: u32, // 10
    pub s_mach: u32,
    pub mach: u32, // 10
    pub s_baro: u32,
    pub baro_sign: u32,
    pub baro: u32, // 9
    pub s_ivv: u32,
    pub ivv_sign: u32,
    pub ivv: u32, // 9
}
/// BDS 6,0: S sgn HDG(10) S IAS(10) S MACH(10) S sgn BARO-RATE(9) S sgn INERTIAL(9)
pub fn mb_bds60(r: &B60) -> u64 {
    Me::new()
        .set(1, 1, r.s_hdg as u64)
        .set(2, 1, r.hdg_sign as u64)
        .set(3, 10, r.hdg as u64)
        .set(13, 1, r.s_ias as u64)
        .set(14, 10, r.ias as u64)
        .set(24, 1, r.s_mach as u64)
        .set(25, 10, r.mach as u64)
        .set(35, 1, r.s_baro as u64)
        .set(36, 1, r.baro_sign as u64)
        .set(37, 9, r.baro as u64)
        .set(46, 1, r.s_ivv as u64)
        .set(47, 1, r.ivv_sign as u64)
        .set(48, 9, r.ivv as u64)
        .0
}

// ---------------------------------------------------------------- altitude codes

/// AC13 with M=0, Q=1 for an altitude that is a multiple of 25 ft >= -1000
pub fn ac13_q1(n11: u32) -> u32 {
    // bit order (13 bits): C1 A1 C2 A2 C4 A4 M B1 Q B2 D2 B4 D4 ; N = the 11 bits without M and Q
    let hi = (n11 >> 5) & 0x3F; // 6 bits before M
    let b1 = (n11 >> 4) & 1;
    let lo = n11 & 0xF;
    (hi << 7) | (0 << 6) | (b1 << 5) | (1 << 4) | lo
}
/// AC12 (no M bit) with Q=1
pub fn ac12_q1(n11: u32) -> u32 {
    let hi = (n11 >> 4) & 0x7F;
    let lo = n11 & 0xF;
    (hi << 5) | (1 << 4) | lo
}
pub fn ac13_for_alt(ft: i32) -> u32 {
    ac13_q1(((ft + 1000) / 25) as u32)
}
pub fn ac12_for_alt(ft: i32) -> u32 {
    ac12_q1(((ft + 1000) / 25) as u32)
}

/// ID13 for a squawk given as four octal digits (e.g. 7421): bit order C1 A1 C2 A2 C4 A4 X B1 D1 B2 D2 B4 D4
pub fn id13_for_squawk(sq: u32) -> u32 {
    let a = sq / 1000 % 10;
    let b = sq / 100 % 10;
    let c = sq / 10 % 10;
    let d = sq % 10;
    let bit = |v: u32, n: u32| (v >> n) & 1;
    let bits = [
        bit(c, 0), // C1
        bit(a, 0), // A1
        bit(c, 1), // C2
        bit(a, 1), // A2
        bit(c, 2), // C4
        bit(a, 2), // A4
        0,         // X
        bit(b, 0), // B1
        bit(d, 0), // D1
        bit(b, 1), // B2
        bit(d, 1), // D2
        bit(b, 2), // B4
        bit(d, 2), // D4
    ];
    bits.iter().fold(0, |acc, b| (acc << 1) | b)
}

#[cfg(test)]
mod tests {
    use super::*;
    #[test]
    fn pinned_frames() {
        // frames pinned in the repository's own tests
        for h in [
            "8D40621D58C382D690C8AC2863A7",
            "8D4CA86E58B15398DA1B2834CF37",
            "8D406B902015A678D4D220AA4BDA",
            "8DC06A75990D0628B0040C8AA788",
        ] {
            let f = Frame::from_hex(h).unwrap();
            assert_eq!(f.remainder(), 0, "{h}");
            assert_eq!(f.hex(), h);
        }
        let f = Frame::from_hex("28001A1B1F0706").unwrap();
        assert_eq!(f.remainder(), 0x4CA86E);
        let g = Frame::from_hex("A0001838300000000000007ADA59").unwrap();
        assert_eq!(g.remainder(), 7453696);
    }
}
