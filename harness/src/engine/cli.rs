//! CLI conformance seam: the real binaries built from /repo, run with the frozen-clock
//! LD_PRELOAD shim.

use crate::run::scratch_dir;
use std::process::{Command, Stdio};

pub const CLI_RELEASE: &str = "/verif/target/cli/release/squitterator";
pub const CLI_DEV: &str = "/verif/target/cli/debug/squitterator";
pub const FAKECLOCK: &str = "/verif/target/fakeclock.so";

pub struct CliOut {
    pub code: Option<i32>,
    pub signal: Option<i32>,
    pub stdout: Vec<u8>,
    pub stderr: Vec<u8>,
}

pub fn available() -> Result<(), String> {
    for p in [CLI_RELEASE, CLI_DEV, FAKECLOCK] {
        if !std::path::Path::new(p).exists() {
            return Err(format!("{p} missing (run tools/build_cli.sh)"));
        }
    }
    Ok(())
}

/// run the CLI over `content` (written to a scratch file passed with -s)
pub fn run_cli(release: bool, opts: &[&str], content: &[u8], tag: &str) -> Result<CliOut, String> {
    use std::os::unix::process::ExitStatusExt;
    let path = scratch_dir().join(format!("cli-{tag}.txt"));
    std::fs::write(&path, content).map_err(|e| e.to_string())?;
    let out = Command::new(if release { CLI_RELEASE } else { CLI_DEV })
        .arg("-s")
        .arg(&path)
        .args(opts)
        .env("LD_PRELOAD", FAKECLOCK)
        .env("VERIF_FAKE_EPOCH", crate::shim::epoch().0.to_string())
        .env("VERIF_FAKE_EPOCH_NS", crate::shim::epoch().1.to_string())
        .env_remove("RUST_LOG")
        .env("RUST_BACKTRACE", "0")
        .stdin(Stdio::null())
        .output()
        .map_err(|e| e.to_string())?;
    Ok(CliOut { code: out.status.code(), signal: out.status.signal(), stdout: out.stdout, stderr: out.stderr })
}

/// Run the CLI over a FIFO that is fed portion by portion while the harness moves the program's wall clock
/// (shared clock file read by the LD_PRELOAD shim): the timed twin of `run::run_timed`. stdout goes to a file.
pub fn run_cli_timed(release: bool, opts: &[&str], steps: &[crate::run::TimedStep], tag: &str) -> Result<CliOut, String> {
    use crate::shim;
    use std::os::unix::process::ExitStatusExt;
    let dir = scratch_dir();
    let fifo = dir.join(format!("cli-{tag}.fifo"));
    let clock = dir.join(format!("cli-{tag}.clock"));
    let outp = dir.join(format!("cli-{tag}.out"));
    let _ = std::fs::remove_file(&fifo);
    let cpath = std::ffi::CString::new(fifo.to_string_lossy().as_bytes()).map_err(|e| e.to_string())?;
    if unsafe { libc::mkfifo(cpath.as_ptr(), 0o600) } != 0 {
        return Err(format!("mkfifo: {}", std::io::Error::last_os_error()));
    }
    let (es, ens) = shim::epoch();
    let write_clock = |ns_total: i64| -> Result<(), String> {
        let t = ens + ns_total;
        let mut b = Vec::with_capacity(16);
        b.extend_from_slice(&(es + t / 1_000_000_000).to_le_bytes());
        b.extend_from_slice(&(t % 1_000_000_000).to_le_bytes());
        // in place: the child has the file mapped
        use std::io::{Seek, Write};
        let mut f = std::fs::OpenOptions::new().create(true).write(true).truncate(false).open(&clock).map_err(|e| e.to_string())?;
        f.seek(std::io::SeekFrom::Start(0)).map_err(|e| e.to_string())?;
        f.write_all(&b).map_err(|e| e.to_string())
    };
    let _ = std::fs::remove_file(&clock);
    write_clock(0)?;
    let outf = std::fs::File::create(&outp).map_err(|e| e.to_string())?;
    let mut child = Command::new(if release { CLI_RELEASE } else { CLI_DEV })
        .arg("-s")
        .arg(&fifo)
        .args(opts)
        .env("LD_PRELOAD", FAKECLOCK)
        .env("VERIF_FAKE_CLOCK_FILE", &clock)
        .env_remove("RUST_LOG")
        .env("RUST_BACKTRACE", "0")
        .stdin(Stdio::null())
        .stdout(Stdio::from(outf))
        .stderr(Stdio::piped())
        .spawn()
        .map_err(|e| e.to_string())?;
    let pid = child.id();
    let t0 = shim::real_mono_ns();
    let wfd = loop {
        let fd = unsafe { libc::open(cpath.as_ptr(), libc::O_WRONLY | libc::O_NONBLOCK) };
        if fd >= 0 {
            break fd;
        }
        if child.try_wait().ok().flatten().is_some() || shim::real_mono_ns() - t0 > 5_000_000_000 {
            break -1;
        }
        shim::real_sleep_us(100);
    };
    let mut elapsed_ns = 0i64;
    let mut all_consumed = true;
    if wfd >= 0 {
        unsafe {
            let fl = libc::fcntl(wfd, libc::F_GETFL);
            libc::fcntl(wfd, libc::F_SETFL, fl & !libc::O_NONBLOCK);
        }
        let child_fd = |pid: u32| -> Option<i32> {
            for e in std::fs::read_dir(format!("/proc/{pid}/fd")).ok()?.flatten() {
                if std::fs::read_link(e.path()).ok().as_deref() == Some(fifo.as_path()) {
                    return e.file_name().to_str().and_then(|x| x.parse().ok());
                }
            }
            None
        };
        for s in steps {
            let mut off = 0usize;
            while off < s.bytes.len() {
                let n = unsafe { libc::write(wfd, s.bytes[off..].as_ptr() as *const libc::c_void, s.bytes.len() - off) };
                if n <= 0 {
                    break;
                }
                off += n as usize;
            }
            // consumed: the pipe is empty and a thread of the child is blocked in read() on its end of it
            let t = shim::real_mono_ns();
            let mut ok = false;
            while shim::real_mono_ns() - t < 12_000_000_000 {
                let mut inq: libc::c_int = -1;
                let drained = unsafe { libc::ioctl(wfd, libc::FIONREAD, &mut inq) } == 0 && inq == 0;
                if drained {
                    if let Some(cfd) = child_fd(pid) {
                        let blocked = std::fs::read_dir(format!("/proc/{pid}/task")).ok().into_iter().flatten().flatten().any(|e| {
                            std::fs::read_to_string(e.path().join("syscall")).ok().is_some_and(|l| {
                                let mut it = l.split_whitespace();
                                let nr = it.next().and_then(|x| x.parse::<i64>().ok());
                                let a0 = it.next().and_then(|x| i64::from_str_radix(x.trim_start_matches("0x"), 16).ok());
                                nr == Some(libc::SYS_read) && a0 == Some(cfd as i64)
                            })
                        });
                        if blocked {
                            ok = true;
                            break;
                        }
                    }
                }
                if child.try_wait().ok().flatten().is_some() {
                    break;
                }
                shim::real_sleep_us(50);
            }
            if !ok {
                all_consumed = false;
            }
            if s.advance_ms != 0 {
                elapsed_ns += s.advance_ms * 1_000_000;
                write_clock(elapsed_ns)?;
            }
        }
        unsafe { libc::close(wfd) };
    } else {
        let _ = child.kill();
    }
    let out = child.wait_with_output().map_err(|e| e.to_string())?;
    let stdout = std::fs::read(&outp).unwrap_or_default();
    let _ = std::fs::remove_file(&fifo);
    let _ = std::fs::remove_file(&clock);
    let _ = std::fs::remove_file(&outp);
    if wfd < 0 {
        return Err(format!("the CLI never opened its input (exit {:?})", out.status.code()));
    }
    if !all_consumed && out.status.code() == Some(0) {
        return Err("a portion of the timed stream was not seen consumed by the CLI".into());
    }
    Ok(CliOut { code: out.status.code(), signal: out.status.signal(), stdout, stderr: out.stderr })
}

/// remove ANSI control sequences (ESC [ ... final byte): how the screen is cleared is not part of
/// any property, so the parsing below must not depend on the exact sequence
pub fn strip_ansi(s: &str) -> String {
    let mut out = String::with_capacity(s.len());
    let mut it = s.chars().peekable();
    while let Some(c) = it.next() {
        if c == '\u{1b}' && it.peek() == Some(&'[') {
            it.next();
            for d in it.by_ref() {
                if ('@'..='~').contains(&d) {
                    break;
                }
            }
        } else {
            out.push(c);
        }
    }
    out
}

fn is_header_line(l: &str) -> bool {
    let t = l.trim_start();
    t.starts_with("ICAO") && t.split_whitespace().nth(1) == Some("RG")
}

/// Split captured stdout into blocks: [text before the legend, legend, refresh 1, refresh 2, ...].
/// A refresh starts at a table header line ("ICAO RG ..."); ANSI sequences inside refreshes are kept
/// (only a leading clear-screen prefix of the header line is dropped).
pub fn blocks(out: &[u8]) -> Vec<String> {
    let s = String::from_utf8_lossy(out);
    let mut blocks: Vec<String> = vec![String::new(), String::new()];
    let mut in_refresh = false;
    for raw in s.split_inclusive('\n') {
        let stripped = strip_ansi(raw);
        if is_header_line(&stripped) {
            blocks.push(String::new());
            in_refresh = true;
            // the header line itself, without the clear-screen prefix
            blocks.last_mut().unwrap().push_str(&stripped);
            continue;
        }
        if in_refresh {
            // a trailing clear-screen sequence that belongs to the next refresh may sit at the start of a line
            blocks.last_mut().unwrap().push_str(raw);
        } else {
            blocks[1].push_str(&stripped);
        }
    }
    blocks
}
