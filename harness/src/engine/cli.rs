//! CLI conformance seam: the real binaries built from /repo, run with the frozen-clock
//! LD_PRELOAD shim.

use crate::run::scratch_dir;
use crate::shim::T0_SECS;
use std::process::{Command, Stdio};

pub const CLI_RELEASE: &str = "/verif/target/cli/release/squitterator";
pub const CLI_DEV: &str = "/verif/target/cli/debug/squitterator";
pub const FAKECLOCK: &str = "/verif/target/fakeclock.so";

pub struct CliOut {
    pub code: Option<i32>,
    pub signal: Option<i32>,
    pub stdout: Vec<u8>,
    pub stderr: Vec<u8>,
}

pub fn available() -> Result<(), String> {
    for p in [CLI_RELEASE, CLI_DEV, FAKECLOCK] {
        if !std::path::Path::new(p).exists() {
            return Err(format!("{p} missing (run tools/build_cli.sh)"));
        }
    }
    Ok(())
}

/// run the CLI over `content` (written to a scratch file passed with -s)
pub fn run_cli(release: bool, opts: &[&str], content: &[u8], tag: &str) -> Result<CliOut, String> {
    use std::os::unix::process::ExitStatusExt;
    let path = scratch_dir().join(format!("cli-{tag}.txt"));
    std::fs::write(&path, content).map_err(|e| e.to_string())?;
    let out = Command::new(if release { CLI_RELEASE } else { CLI_DEV })
        .arg("-s")
        .arg(&path)
        .args(opts)
        .env("LD_PRELOAD", FAKECLOCK)
        .env("VERIF_FAKE_EPOCH", T0_SECS.to_string())
        .env_remove("RUST_LOG")
        .env("RUST_BACKTRACE", "0")
        .stdin(Stdio::null())
        .output()
        .map_err(|e| e.to_string())?;
    Ok(CliOut { code: out.status.code(), signal: out.status.signal(), stdout: out.stdout, stderr: out.stderr })
}

pub const CLEAR: &str = "\x1b[2J\x1b[H\x1b[3J";

/// split captured stdout into refresh blocks (text after each clear-screen sequence)
pub fn blocks(out: &[u8]) -> Vec<String> {
    let s = String::from_utf8_lossy(out);
    s.split(CLEAR).map(|x| x.to_string()).collect()
}
