//! CLI conformance seam: the real binaries built from /repo, run with the frozen-clock
//! LD_PRELOAD shim.

use crate::run::scratch_dir;
use std::process::{Command, Stdio};

pub const CLI_RELEASE: &str = "/verif/target/cli/release/squitterator";
pub const CLI_DEV: &str = "/verif/target/cli/debug/squitterator";
pub const FAKECLOCK: &str = "/verif/target/fakeclock.so";

pub struct CliOut {
    pub code: Option<i32>,
    pub signal: Option<i32>,
    pub stdout: Vec<u8>,
    pub stderr: Vec<u8>,
}

pub fn available() -> Result<(), String> {
    for p in [CLI_RELEASE, CLI_DEV, FAKECLOCK] {
        if !std::path::Path::new(p).exists() {
            return Err(format!("{p} missing (run tools/build_cli.sh)"));
        }
    }
    Ok(())
}

/// run the CLI over `content` (written to a scratch file passed with -s)
pub fn run_cli(release: bool, opts: &[&str], content: &[u8], tag: &str) -> Result<CliOut, String> {
    use std::os::unix::process::ExitStatusExt;
    let path = scratch_dir().join(format!("cli-{tag}.txt"));
    std::fs::write(&path, content).map_err(|e| e.to_string())?;
    let out = Command::new(if release { CLI_RELEASE } else { CLI_DEV })
        .arg("-s")
        .arg(&path)
        .args(opts)
        .env("LD_PRELOAD", FAKECLOCK)
        .env("VERIF_FAKE_EPOCH", crate::shim::epoch().0.to_string())
        .env("VERIF_FAKE_EPOCH_NS", crate::shim::epoch().1.to_string())
        .env_remove("RUST_LOG")
        .env("RUST_BACKTRACE", "0")
        .stdin(Stdio::null())
        .output()
        .map_err(|e| e.to_string())?;
    Ok(CliOut { code: out.status.code(), signal: out.status.signal(), stdout: out.stdout, stderr: out.stderr })
}

/// remove ANSI control sequences (ESC [ ... final byte): how the screen is cleared is not part of
/// any property, so the parsing below must not depend on the exact sequence
pub fn strip_ansi(s: &str) -> String {
    let mut out = String::with_capacity(s.len());
    let mut it = s.chars().peekable();
    while let Some(c) = it.next() {
        if c == '\u{1b}' && it.peek() == Some(&'[') {
            it.next();
            for d in it.by_ref() {
                if ('@'..='~').contains(&d) {
                    break;
                }
            }
        } else {
            out.push(c);
        }
    }
    out
}

fn is_header_line(l: &str) -> bool {
    let t = l.trim_start();
    t.starts_with("ICAO") && t.split_whitespace().nth(1) == Some("RG")
}

/// Split captured stdout into blocks: [text before the legend, legend, refresh 1, refresh 2, ...].
/// A refresh starts at a table header line ("ICAO RG ..."); ANSI sequences inside refreshes are kept
/// (only a leading clear-screen prefix of the header line is dropped).
pub fn blocks(out: &[u8]) -> Vec<String> {
    let s = String::from_utf8_lossy(out);
    let mut blocks: Vec<String> = vec![String::new(), String::new()];
    let mut in_refresh = false;
    for raw in s.split_inclusive('\n') {
        let stripped = strip_ansi(raw);
        if is_header_line(&stripped) {
            blocks.push(String::new());
            in_refresh = true;
            // the header line itself, without the clear-screen prefix
            blocks.last_mut().unwrap().push_str(&stripped);
            continue;
        }
        if in_refresh {
            // a trailing clear-screen sequence that belongs to the next refresh may sit at the start of a line
            blocks.last_mut().unwrap().push_str(raw);
        } else {
            blocks[1].push_str(&stripped);
        }
    }
    blocks
}
