//! E2: explicit-state history search. State = canonical snapshot of the whole table
//! (+ a history variable `aux` where the oracle needs the true history); every transition
//! is one run of the real reader thread on a restored table (or a `tick`).
//!
//! Breadth-first per worker (shortest counterexample first), de-duplicated on
//! (state, aux); workers own disjoint prefixes of the first two actions.

use crate::report::Ctx;
use crate::run::{Cfg, Outcome, join_lines, run_file};
use crate::snap::{Snap, hash_state, restore, snapshot, tick_all};
use std::collections::HashSet;
use std::hash::Hash;

#[derive(Clone, Debug)]
pub enum Act {
    /// one input line
    Line(Vec<u8>),
    /// several lines in one reader run (one file)
    Burst(Vec<Vec<u8>>),
    /// simulated silence: every time stamp of every row grows older
    Tick(i64),
}

#[derive(Clone, Debug)]
pub struct Action {
    pub name: String,
    pub act: Act,
}

impl Action {
    pub fn line(name: &str, f: &crate::frames::Frame) -> Action {
        Action { name: name.to_string(), act: Act::Line(f.hex().into_bytes()) }
    }
    pub fn raw(name: &str, bytes: &[u8]) -> Action {
        Action { name: name.to_string(), act: Act::Line(bytes.to_vec()) }
    }
    pub fn tick(ms: i64) -> Action {
        Action { name: format!("tick {ms} ms"), act: Act::Tick(ms) }
    }
    pub fn frame(&self) -> Option<crate::frames::Frame> {
        match &self.act {
            Act::Line(l) => std::str::from_utf8(l).ok().and_then(crate::frames::Frame::from_hex),
            _ => None,
        }
    }
}

/// apply one action to a table state through the real code
pub fn apply(cfg: &Cfg, pre: &[Snap], a: &Action) -> (Outcome, Vec<Snap>) {
    match &a.act {
        Act::Tick(ms) => {
            let mut rows = pre.to_vec();
            tick_all(&mut rows, *ms);
            (Outcome::Ok, rows)
        }
        Act::Line(l) => {
            let t = restore(pre);
            let o = run_file(cfg, &join_lines(&[l.clone()]), &t);
            (o, snapshot(&t))
        }
        Act::Burst(ls) => {
            let t = restore(pre);
            let o = run_file(cfg, &join_lines(ls), &t);
            (o, snapshot(&t))
        }
    }
}

pub struct Step<'a, A> {
    pub pre: &'a [Snap],
    pub pre_aux: &'a A,
    pub action: &'a Action,
    pub action_idx: usize,
    pub post: &'a [Snap],
    pub post_aux: &'a A,
    pub outcome: &'a Outcome,
    /// action indices from the initial state, including this one
    pub path: &'a [usize],
}

pub struct Model<'a, A> {
    pub cfg: &'a Cfg,
    pub actions: &'a [Action],
    pub depth: usize,
    pub init: Vec<Snap>,
    pub aux0: A,
}

/// Conformance of the step-by-step semantics (restore a snapshot, run one line, snapshot) with a
/// continuous run: all lines of a tick-free path in ONE reader run from the initial state must give
/// the state reached step by step. This is what binds the explorer's transitions to what a user
/// runs, and it is where decoder-internal state that survives between lines (caches) shows up.
pub fn whole_run_matches(cfg: &Cfg, init: &[Snap], actions: &[Action], path: &[usize], stepwise: &[Snap]) -> Option<(Outcome, Vec<Snap>)> {
    let mut lines: Vec<Vec<u8>> = vec![];
    for &ai in path {
        match &actions.get(ai)?.act {
            Act::Line(l) => lines.push(l.clone()),
            _ => return None,
        }
    }
    let t = restore(init);
    let o = run_file(cfg, &join_lines(&lines), &t);
    let got = snapshot(&t);
    if o.is_ok() && got == stepwise { None } else { Some((o, got)) }
}

struct Node<A> {
    rows: Vec<Snap>,
    aux: A,
    path: Vec<usize>,
}

/// Explore all action sequences up to `model.depth`.
/// `aux_step(pre_aux, pre, action, post)` advances the history variable;
/// `check` judges one transition. Returns (states seen by this worker, transitions run).
pub fn explore<A: Clone + Hash>(
    ctx: &mut Ctx,
    model: &Model<A>,
    aux_step: impl Fn(&A, &[Snap], &Action, &[Snap]) -> A,
    mut check: impl FnMut(&mut Ctx, &Step<A>),
) {
    let n = model.actions.len();
    let mut seen: HashSet<u64> = HashSet::new();
    let key = |rows: &[Snap], aux: &A| hash_state(&(rows, aux));
    seen.insert(key(&model.init, &model.aux0));
    ctx.state(key(&model.init, &model.aux0));
    let mut frontier: Vec<Node<A>> = vec![Node { rows: model.init.clone(), aux: model.aux0.clone(), path: vec![] }];
    for level in 0..model.depth {
        let mut next: Vec<Node<A>> = vec![];
        for node in &frontier {
            for (ai, a) in model.actions.iter().enumerate() {
                // ownership: the pair of the first two actions selects the worker.
                // (execute, judge): a level-0 transition is executed by every worker that owns some
                // (a0, *) but judged and counted only by the owner of (a0, 0).
                let (execute, owned) = match level {
                    0 if model.depth == 1 => (ctx.mine(ai as u64), ctx.mine(ai as u64)),
                    0 => ((0..n).any(|a1| ctx.mine((ai * n + a1) as u64)), ctx.mine((ai * n) as u64)),
                    1 => {
                        let m = ctx.mine((node.path[0] * n + ai) as u64);
                        (m, m)
                    }
                    _ => (true, true),
                };
                if !execute {
                    continue;
                }
                crate::run::describe_current(&format!("E2 transition, cfg [{}], path {:?} + {}", model.cfg.label(), node.path, a.name));
                let (outcome, post) = apply(model.cfg, &node.rows, a);
                let post_aux = aux_step(&node.aux, &node.rows, a, &post);
                let mut path = node.path.clone();
                path.push(ai);
                if owned {
                    ctx.out.transitions += 1;
                    ctx.eval();
                    let step = Step { pre: &node.rows, pre_aux: &node.aux, action: a, action_idx: ai, post: &post, post_aux: &post_aux, outcome: &outcome, path: &path };
                    check(ctx, &step);
                }
                let k = key(&post, &post_aux);
                if seen.insert(k) {
                    if owned || level > 0 {
                        ctx.state(k);
                    }
                    if level + 1 < model.depth {
                        next.push(Node { rows: post, aux: post_aux, path });
                    }
                }
            }
        }
        frontier = next;
        if frontier.is_empty() {
            break;
        }
    }
}

/// replay a path from the initial state, judging every step (the last one is the reported one)
pub fn replay_path<A: Clone + Hash>(
    ctx: &mut Ctx,
    model: &Model<A>,
    path: &[usize],
    aux_step: impl Fn(&A, &[Snap], &Action, &[Snap]) -> A,
    mut check: impl FnMut(&mut Ctx, &Step<A>),
) {
    let mut rows = model.init.clone();
    let mut aux = model.aux0.clone();
    let mut sofar = vec![];
    for &ai in path {
        let Some(a) = model.actions.get(ai) else {
            ctx.machinery(format!("replay path refers to action {ai} which the model does not have"));
            return;
        };
        let (outcome, post) = apply(model.cfg, &rows, a);
        let post_aux = aux_step(&aux, &rows, a, &post);
        sofar.push(ai);
        crate::run::say(&format!("  step {:>2}: {:<34} -> {} row(s), outcome {}", sofar.len(), a.name, post.len(), outcome.label()));
        let is_last = sofar.len() == path.len();
        if is_last {
            let step = Step { pre: &rows, pre_aux: &aux, action: a, action_idx: ai, post: &post, post_aux: &post_aux, outcome: &outcome, path: &sofar };
            check(ctx, &step);
        }
        rows = post;
        aux = post_aux;
    }
}

pub fn path_names(actions: &[Action], path: &[usize]) -> Vec<String> {
    path.iter().map(|&i| actions.get(i).map(|a| a.name.clone()).unwrap_or_else(|| format!("?{i}"))).collect()
}

/// Leaf conformance used by the E2 properties: a tick-free history at the depth bound (or of
/// length 2) is fed as ONE stream and must reach the table the step-by-step exploration reached.
/// Reports a violation at `<site>/history-in-one-run/<cfg>`; the replay case carries `whole_run`.
#[allow(clippy::too_many_arguments)]
pub fn leaf_conformance<A>(ctx: &mut Ctx, site: &str, model_name: &str, cfg: &Cfg, init: &[Snap], actions: &[Action], st: &Step<A>, depth: usize, extra: serde_json::Value) {
    if !(st.path.len() == depth || st.path.len() == 2) {
        return;
    }
    if st.path.iter().any(|&i| !matches!(actions[i].act, Act::Line(_))) {
        return;
    }
    ctx.count("whole-run-conformance");
    if let Some((o, got)) = whole_run_matches(cfg, init, actions, st.path, st.post) {
        let names = path_names(actions, st.path);
        let path = st.path.to_vec();
        let d = got.iter().zip(st.post.iter()).filter(|(a, b)| a != b).map(|(a, b)| crate::snap::diff_fields(b, a).join("; ")).collect::<Vec<_>>().join(" | ");
        let mut ex = extra;
        if let Some(m) = ex.as_object_mut() {
            m.insert("whole_run".into(), serde_json::json!(true));
        }
        ctx.violation(
            &format!("{site}/history-in-one-run/{}", cfg.label()),
            &names.join(" > "),
            || format!("[{}] fed as one stream ({}) gives a different table than the same frames applied one by one: {d} ({} vs {} rows)", names.join(" > "), o.label(), got.len(), st.post.len()),
            || serde_json::json!({"model": model_name, "cfg": cfg.opts, "path": path, "extra": ex}),
        );
    }
}

/// replay side of `leaf_conformance`; returns true when the case was a whole-run case
pub fn replay_leaf_conformance<A>(ctx: &mut Ctx, case: &serde_json::Value, site: &str, cfg: &Cfg, init: &[Snap], actions: &[Action], st: &Step<A>) -> bool {
    if case.pointer("/extra/whole_run").is_none() {
        return false;
    }
    match whole_run_matches(cfg, init, actions, st.path, st.post) {
        Some((o, got)) => {
            crate::run::say(&format!("  one continuous run: {}, {} rows; step by step: {} rows; identical: false", o.label(), got.len(), st.post.len()));
            ctx.violation(&format!("{site}/history-in-one-run"), "replay", || "continuous run differs from step-by-step".into(), || case.clone());
        }
        None => crate::run::say("  one continuous run gives the same table as step by step"),
    }
    true
}


// ------------------------------------------------------------------ timed conformance (E5)

/// the portions of a path for a timed run: every line (or burst) is a portion, a tick advances the clock after
/// the portion before it (a leading tick becomes an empty portion)
pub fn timed_steps(actions: &[Action], path: &[usize]) -> Option<Vec<crate::run::TimedStep>> {
    use crate::run::TimedStep;
    let mut v: Vec<TimedStep> = vec![];
    for &ai in path {
        match &actions.get(ai)?.act {
            Act::Line(l) => v.push(TimedStep { bytes: join_lines(&[l.clone()]), advance_ms: 0 }),
            Act::Burst(ls) => v.push(TimedStep { bytes: join_lines(ls), advance_ms: 0 }),
            Act::Tick(ms) => match v.last_mut() {
                Some(last) => last.advance_ms += *ms,
                None => v.push(TimedStep { bytes: vec![], advance_ms: *ms }),
            },
        }
    }
    Some(v)
}

/// The longest silence (ms) of any aircraft before one of its own frames along the path, given the ages of
/// the initial rows: when it reaches delete_after the step-by-step run and a continuous run may legitimately
/// differ (the row may be swept and re-created fresh at different moments), so such paths are not compared.
pub fn max_silence_before_own_frame(init: &[Snap], actions: &[Action], path: &[usize]) -> i64 {
    use crate::refmodel::accept::{Verdict, classify_line};
    let mut silent: std::collections::HashMap<u32, i64> = init.iter().map(|r| (r.key, r.age)).collect();
    let mut worst = 0i64;
    for &ai in path {
        let Some(a) = actions.get(ai) else { continue };
        let mut hear = |l: &Vec<u8>, silent: &mut std::collections::HashMap<u32, i64>| {
            if let Verdict::Frame { addr, .. } = classify_line(l) {
                if addr != 0 {
                    if let Some(s) = silent.get(&addr) {
                        worst = worst.max(*s);
                    }
                    silent.insert(addr, 0);
                }
            }
        };
        match &a.act {
            Act::Line(l) => hear(l, &mut silent),
            Act::Burst(ls) => ls.iter().for_each(|l| hear(l, &mut silent)),
            Act::Tick(ms) => silent.values_mut().for_each(|s| *s += *ms),
        }
    }
    worst
}

/// Timed conformance: the path - ticks included - is fed as ONE stream through a FIFO while the harness
/// moves the virtual clock between the lines; the table must be the one the step-by-step exploration
/// reached (where silences are simulated by shifting the time stamps of a snapshot). Rows that are
/// delete_after or more seconds old in one result may be missing from the other (the sweep falls on
/// different frames). Returns a description of the difference.
pub fn timed_run_differs(cfg: &Cfg, init: &[Snap], actions: &[Action], path: &[usize], stepwise: &[Snap]) -> Result<Option<String>, String> {
    timed_run_differs_from(cfg, init, None, actions, path, stepwise)
}

/// as `timed_run_differs`; with `prefix` the continuous run starts from the EMPTY table and is first fed the
/// lines that built `init` (so state the snapshot cannot carry is built by the same run)
pub fn timed_run_differs_from(cfg: &Cfg, init: &[Snap], prefix: Option<&[Vec<u8>]>, actions: &[Action], path: &[usize], stepwise: &[Snap]) -> Result<Option<String>, String> {
    let Some(mut steps) = timed_steps(actions, path) else { return Ok(None) };
    let init: &[Snap] = if let Some(p) = prefix {
        steps.insert(0, crate::run::TimedStep { bytes: join_lines(p), advance_ms: 0 });
        &[]
    } else {
        init
    };
    let d_ms = cfg.args.delete_after.saturating_mul(1000);
    let fcfg = Cfg::named(&cfg.opts.iter().map(|s| s.as_str()).collect::<Vec<_>>(), "timed.fifo");
    let t = restore(init);
    let rep = crate::run::run_timed(&fcfg, &steps, &t);
    if let Some(m) = rep.machinery {
        return Err(m);
    }
    let mut got = snapshot(&t);
    tick_all(&mut got, rep.elapsed_ms);
    if !rep.outcome.is_ok() {
        return Ok(Some(format!("the continuous timed run ended with {}", rep.outcome.label())));
    }
    if !rep.all_consumed {
        return Err("a portion of the timed stream was not seen consumed".into());
    }
    let mut diffs = vec![];
    for r in stepwise {
        match got.iter().find(|g| g.key == r.key) {
            Some(g) if g == r => {}
            Some(g) => diffs.push(format!("{:06X}: {}", r.key, crate::snap::diff_fields(r, g).join("; "))),
            None if r.age >= d_ms => {}
            None => diffs.push(format!("{:06X} ({} ms old) is missing after the continuous run", r.key, r.age)),
        }
    }
    for g in &got {
        if !stepwise.iter().any(|r| r.key == g.key) && g.age < d_ms {
            diffs.push(format!("{:06X} ({} ms old) exists only after the continuous run", g.key, g.age));
        }
    }
    Ok(if diffs.is_empty() { None } else { Some(diffs.join(" | ")) })
}

/// Leaf check built on `timed_run_differs`; reports at `<site>/timed-run/<cfg>`, the replay case carries `timed_run`.
#[allow(clippy::too_many_arguments)]
pub fn timed_conformance<A>(ctx: &mut Ctx, site: &str, model_name: &str, cfg: &Cfg, init: &[Snap], actions: &[Action], st: &Step<A>, extra: serde_json::Value) {
    timed_conformance_from(ctx, site, model_name, cfg, init, None, actions, st, extra)
}

#[allow(clippy::too_many_arguments)]
pub fn timed_conformance_from<A>(ctx: &mut Ctx, site: &str, model_name: &str, cfg: &Cfg, init: &[Snap], prefix: Option<&[Vec<u8>]>, actions: &[Action], st: &Step<A>, extra: serde_json::Value) {
    if !crate::run::file_source_streams() {
        ctx.count("timed-run-conformance:not applicable (the file source is not read incrementally)");
        return;
    }
    let d_ms = cfg.args.delete_after.saturating_mul(1000);
    if max_silence_before_own_frame(init, actions, st.path) >= d_ms {
        ctx.count("timed-run-conformance:skipped (a row may be swept and re-created)");
        return;
    }
    ctx.count("timed-run-conformance");
    match timed_run_differs_from(cfg, init, prefix, actions, st.path, st.post) {
        Err(m) => ctx.machinery(format!("{site} timed run [{}]: {m}", path_names(actions, st.path).join(" > "))),
        Ok(None) => {}
        Ok(Some(d)) => {
            let names = path_names(actions, st.path);
            let path = st.path.to_vec();
            let mut ex = extra;
            if let Some(m) = ex.as_object_mut() {
                m.insert("timed_run".into(), serde_json::json!(true));
            }
            ctx.violation(
                &format!("{site}/timed-run/{}", cfg.label()),
                &names.join(" > "),
                || format!("[{}] fed as one stream while the clock moves gives a different table than the same frames applied one by one with simulated silences: {d}", names.join(" > ")),
                || serde_json::json!({"model": model_name, "cfg": cfg.opts, "path": path, "extra": ex}),
            );
        }
    }
}

/// replay side of `timed_conformance`; returns true when the case was a timed-run case
pub fn replay_timed_conformance<A>(ctx: &mut Ctx, case: &serde_json::Value, site: &str, cfg: &Cfg, init: &[Snap], actions: &[Action], st: &Step<A>) -> bool {
    replay_timed_conformance_from(ctx, case, site, cfg, init, None, actions, st)
}

#[allow(clippy::too_many_arguments)]
pub fn replay_timed_conformance_from<A>(ctx: &mut Ctx, case: &serde_json::Value, site: &str, cfg: &Cfg, init: &[Snap], prefix: Option<&[Vec<u8>]>, actions: &[Action], st: &Step<A>) -> bool {
    if case.pointer("/extra/timed_run").is_none() {
        return false;
    }
    match timed_run_differs_from(cfg, init, prefix, actions, st.path, st.post) {
        Err(m) => ctx.machinery(m),
        Ok(Some(d)) => {
            crate::run::say(&format!("  one continuous run with a moving clock differs from step by step: {d}"));
            ctx.violation(&format!("{site}/timed-run"), "replay", || "continuous timed run differs from step-by-step".into(), || case.clone());
        }
        Ok(None) => crate::run::say("  one continuous run with a moving clock gives the same table as step by step"),
    }
    true
}
