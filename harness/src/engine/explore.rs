//! E2: explicit-state history search. State = canonical snapshot of the whole table
//! (+ a history variable `aux` where the oracle needs the true history); every transition
//! is one run of the real reader thread on a restored table (or a `tick`).
//!
//! Breadth-first per worker (shortest counterexample first), de-duplicated on
//! (state, aux); workers own disjoint prefixes of the first two actions.

use crate::report::Ctx;
use crate::run::{Cfg, Outcome, join_lines, run_file};
use crate::snap::{Snap, hash_state, restore, snapshot, tick_all};
use std::collections::HashSet;
use std::hash::Hash;

#[derive(Clone, Debug)]
pub enum Act {
    /// one input line
    Line(Vec<u8>),
    /// several lines in one reader run (one file)
    Burst(Vec<Vec<u8>>),
    /// simulated silence: every time stamp of every row grows older
    Tick(i64),
}

#[derive(Clone, Debug)]
pub struct Action {
    pub name: String,
    pub act: Act,
}

impl Action {
    pub fn line(name: &str, f: &crate::frames::Frame) -> Action {
        Action { name: name.to_string(), act: Act::Line(f.hex().into_bytes()) }
    }
    pub fn raw(name: &str, bytes: &[u8]) -> Action {
        Action { name: name.to_string(), act: Act::Line(bytes.to_vec()) }
    }
    pub fn tick(ms: i64) -> Action {
        Action { name: format!("tick {ms} ms"), act: Act::Tick(ms) }
    }
    pub fn frame(&self) -> Option<crate::frames::Frame> {
        match &self.act {
            Act::Line(l) => std::str::from_utf8(l).ok().and_then(crate::frames::Frame::from_hex),
            _ => None,
        }
    }
}

/// apply one action to a table state through the real code
pub fn apply(cfg: &Cfg, pre: &[Snap], a: &Action) -> (Outcome, Vec<Snap>) {
    match &a.act {
        Act::Tick(ms) => {
            let mut rows = pre.to_vec();
            tick_all(&mut rows, *ms);
            (Outcome::Ok, rows)
        }
        Act::Line(l) => {
            let t = restore(pre);
            let o = run_file(cfg, &join_lines(&[l.clone()]), &t);
            (o, snapshot(&t))
        }
        Act::Burst(ls) => {
            let t = restore(pre);
            let o = run_file(cfg, &join_lines(ls), &t);
            (o, snapshot(&t))
        }
    }
}

pub struct Step<'a, A> {
    pub pre: &'a [Snap],
    pub pre_aux: &'a A,
    pub action: &'a Action,
    pub action_idx: usize,
    pub post: &'a [Snap],
    pub post_aux: &'a A,
    pub outcome: &'a Outcome,
    /// action indices from the initial state, including this one
    pub path: &'a [usize],
}

pub struct Model<'a, A> {
    pub cfg: &'a Cfg,
    pub actions: &'a [Action],
    pub depth: usize,
    pub init: Vec<Snap>,
    pub aux0: A,
}

/// Conformance of the step-by-step semantics (restore a snapshot, run one line, snapshot) with a
/// continuous run: all lines of a tick-free path in ONE reader run from the initial state must give
/// the state reached step by step. This is what binds the explorer's transitions to what a user
/// runs, and it is where decoder-internal state that survives between lines (caches) shows up.
pub fn whole_run_matches(cfg: &Cfg, init: &[Snap], actions: &[Action], path: &[usize], stepwise: &[Snap]) -> Option<(Outcome, Vec<Snap>)> {
    let mut lines: Vec<Vec<u8>> = vec![];
    for &ai in path {
        match &actions.get(ai)?.act {
            Act::Line(l) => lines.push(l.clone()),
            _ => return None,
        }
    }
    let t = restore(init);
    let o = run_file(cfg, &join_lines(&lines), &t);
    let got = snapshot(&t);
    if o.is_ok() && got == stepwise { None } else { Some((o, got)) }
}

struct Node<A> {
    rows: Vec<Snap>,
    aux: A,
    path: Vec<usize>,
}

/// Explore all action sequences up to `model.depth`.
/// `aux_step(pre_aux, pre, action, post)` advances the history variable;
/// `check` judges one transition. Returns (states seen by this worker, transitions run).
pub fn explore<A: Clone + Hash>(
    ctx: &mut Ctx,
    model: &Model<A>,
    aux_step: impl Fn(&A, &[Snap], &Action, &[Snap]) -> A,
    mut check: impl FnMut(&mut Ctx, &Step<A>),
) {
    let n = model.actions.len();
    let mut seen: HashSet<u64> = HashSet::new();
    let key = |rows: &[Snap], aux: &A| hash_state(&(rows, aux));
    seen.insert(key(&model.init, &model.aux0));
    ctx.state(key(&model.init, &model.aux0));
    let mut frontier: Vec<Node<A>> = vec![Node { rows: model.init.clone(), aux: model.aux0.clone(), path: vec![] }];
    for level in 0..model.depth {
        let mut next: Vec<Node<A>> = vec![];
        for node in &frontier {
            for (ai, a) in model.actions.iter().enumerate() {
                // ownership: the pair of the first two actions selects the worker.
                // (execute, judge): a level-0 transition is executed by every worker that owns some
                // (a0, *) but judged and counted only by the owner of (a0, 0).
                let (execute, owned) = match level {
                    0 if model.depth == 1 => (ctx.mine(ai as u64), ctx.mine(ai as u64)),
                    0 => ((0..n).any(|a1| ctx.mine((ai * n + a1) as u64)), ctx.mine((ai * n) as u64)),
                    1 => {
                        let m = ctx.mine((node.path[0] * n + ai) as u64);
                        (m, m)
                    }
                    _ => (true, true),
                };
                if !execute {
                    continue;
                }
                crate::run::describe_current(&format!("E2 transition, cfg [{}], path {:?} + {}", model.cfg.label(), node.path, a.name));
                let (outcome, post) = apply(model.cfg, &node.rows, a);
                let post_aux = aux_step(&node.aux, &node.rows, a, &post);
                let mut path = node.path.clone();
                path.push(ai);
                if owned {
                    ctx.out.transitions += 1;
                    ctx.eval();
                    let step = Step { pre: &node.rows, pre_aux: &node.aux, action: a, action_idx: ai, post: &post, post_aux: &post_aux, outcome: &outcome, path: &path };
                    check(ctx, &step);
                }
                let k = key(&post, &post_aux);
                if seen.insert(k) {
                    if owned || level > 0 {
                        ctx.state(k);
                    }
                    if level + 1 < model.depth {
                        next.push(Node { rows: post, aux: post_aux, path });
                    }
                }
            }
        }
        frontier = next;
        if frontier.is_empty() {
            break;
        }
    }
}

/// replay a path from the initial state, judging every step (the last one is the reported one)
pub fn replay_path<A: Clone + Hash>(
    ctx: &mut Ctx,
    model: &Model<A>,
    path: &[usize],
    aux_step: impl Fn(&A, &[Snap], &Action, &[Snap]) -> A,
    mut check: impl FnMut(&mut Ctx, &Step<A>),
) {
    let mut rows = model.init.clone();
    let mut aux = model.aux0.clone();
    let mut sofar = vec![];
    for &ai in path {
        let Some(a) = model.actions.get(ai) else {
            ctx.machinery(format!("replay path refers to action {ai} which the model does not have"));
            return;
        };
        let (outcome, post) = apply(model.cfg, &rows, a);
        let post_aux = aux_step(&aux, &rows, a, &post);
        sofar.push(ai);
        crate::run::say(&format!("  step {:>2}: {:<34} -> {} row(s), outcome {}", sofar.len(), a.name, post.len(), outcome.label()));
        let is_last = sofar.len() == path.len();
        if is_last {
            let step = Step { pre: &rows, pre_aux: &aux, action: a, action_idx: ai, post: &post, post_aux: &post_aux, outcome: &outcome, path: &sofar };
            check(ctx, &step);
        }
        rows = post;
        aux = post_aux;
    }
}

pub fn path_names(actions: &[Action], path: &[usize]) -> Vec<String> {
    path.iter().map(|&i| actions.get(i).map(|a| a.name.clone()).unwrap_or_else(|| format!("?{i}"))).collect()
}

/// Leaf conformance used by the E2 properties: a tick-free history at the depth bound (or of
/// length 2) is fed as ONE stream and must reach the table the step-by-step exploration reached.
/// Reports a violation at `<site>/history-in-one-run/<cfg>`; the replay case carries `whole_run`.
#[allow(clippy::too_many_arguments)]
pub fn leaf_conformance<A>(ctx: &mut Ctx, site: &str, model_name: &str, cfg: &Cfg, init: &[Snap], actions: &[Action], st: &Step<A>, depth: usize, extra: serde_json::Value) {
    if !(st.path.len() == depth || st.path.len() == 2) {
        return;
    }
    if st.path.iter().any(|&i| !matches!(actions[i].act, Act::Line(_))) {
        return;
    }
    ctx.count("whole-run-conformance");
    if let Some((o, got)) = whole_run_matches(cfg, init, actions, st.path, st.post) {
        let names = path_names(actions, st.path);
        let path = st.path.to_vec();
        let d = got.iter().zip(st.post.iter()).filter(|(a, b)| a != b).map(|(a, b)| crate::snap::diff_fields(b, a).join("; ")).collect::<Vec<_>>().join(" | ");
        let mut ex = extra;
        if let Some(m) = ex.as_object_mut() {
            m.insert("whole_run".into(), serde_json::json!(true));
        }
        ctx.violation(
            &format!("{site}/history-in-one-run/{}", cfg.label()),
            &names.join(" > "),
            || format!("[{}] fed as one stream ({}) gives a different table than the same frames applied one by one: {d} ({} vs {} rows)", names.join(" > "), o.label(), got.len(), st.post.len()),
            || serde_json::json!({"model": model_name, "cfg": cfg.opts, "path": path, "extra": ex}),
        );
    }
}

/// replay side of `leaf_conformance`; returns true when the case was a whole-run case
pub fn replay_leaf_conformance<A>(ctx: &mut Ctx, case: &serde_json::Value, site: &str, cfg: &Cfg, init: &[Snap], actions: &[Action], st: &Step<A>) -> bool {
    if case.pointer("/extra/whole_run").is_none() {
        return false;
    }
    match whole_run_matches(cfg, init, actions, st.path, st.post) {
        Some((o, got)) => {
            crate::run::say(&format!("  one continuous run: {}, {} rows; step by step: {} rows; identical: false", o.label(), got.len(), st.post.len()));
            ctx.violation(&format!("{site}/history-in-one-run"), "replay", || "continuous run differs from step-by-step".into(), || case.clone());
        }
        None => crate::run::say("  one continuous run gives the same table as step by step"),
    }
    true
}
