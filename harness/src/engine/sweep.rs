//! E1: field-space sweeps. Every vector gets its own 24-bit address, so one reader
//! run over a chunk of vectors leaves one row per vector.

use crate::run::{Cfg, Outcome, join_lines, run_file};
use crate::snap::{Snap, new_table, snapshot};
use std::collections::HashMap;

pub struct Vector {
    pub addr: u32,
    pub lines: Vec<Vec<u8>>,
}

#[derive(Clone, Debug, PartialEq)]
pub enum Obs {
    Row(Box<Snap>),
    NoRow,
    Panic(String),
    IoErr(String),
}

impl Obs {
    pub fn row(&self) -> Option<&Snap> {
        match self {
            Obs::Row(s) => Some(s),
            _ => None,
        }
    }
}

/// Run all vectors (distinct addresses) through the reader seam; a panic is bisected
/// down to the vector that causes it and the rest is re-run.
pub fn run_vectors(cfg: &Cfg, vecs: &[Vector]) -> Vec<Obs> {
    let mut out: Vec<Obs> = Vec::with_capacity(vecs.len());
    run_rec(cfg, vecs, &mut out);
    out
}

fn run_rec(cfg: &Cfg, vecs: &[Vector], out: &mut Vec<Obs>) {
    if vecs.is_empty() {
        return;
    }
    let mut content = Vec::new();
    for v in vecs {
        content.extend_from_slice(&join_lines(&v.lines));
    }
    let table = new_table();
    crate::run::describe_current(&format!(
        "chunk of {} vectors, cfg [{}], first line {:?}",
        vecs.len(),
        cfg.label(),
        vecs[0].lines.last().map(|l| String::from_utf8_lossy(l).into_owned())
    ));
    match run_file(cfg, &content, &table) {
        Outcome::Ok => {
            let rows: HashMap<u32, Snap> = snapshot(&table).into_iter().map(|s| (s.key, s)).collect();
            for v in vecs {
                out.push(match rows.get(&v.addr) {
                    Some(s) => Obs::Row(Box::new(s.clone())),
                    None => Obs::NoRow,
                });
            }
        }
        Outcome::Panic(m) if vecs.len() == 1 => out.push(Obs::Panic(m)),
        Outcome::IoErr(m) if vecs.len() == 1 => out.push(Obs::IoErr(m)),
        failed => {
            let start = out.len();
            let step = vecs.len().div_ceil(8).max(1);
            for c in vecs.chunks(step) {
                run_rec(cfg, c, out);
            }
            // the chunk failed but no part of it does on its own: the failure needs two adjacent
            // vectors that the split separated - test every split boundary as a pair
            let any_inside = out[start..].iter().any(|o| matches!(o, Obs::Panic(_) | Obs::IoErr(_)));
            if !any_inside && vecs.len() > 1 {
                let mut k = step;
                while k < vecs.len() {
                    let pair = &vecs[k - 1..=k];
                    let mut content = Vec::new();
                    for v in pair {
                        content.extend_from_slice(&join_lines(&v.lines));
                    }
                    let t = new_table();
                    let o = run_file(cfg, &content, &t);
                    if !o.is_ok() {
                        let m = format!("only together with the neighbouring vector: {}", o.label());
                        out[start + k - 1] = Obs::Panic(m.clone());
                        out[start + k] = Obs::Panic(m);
                    }
                    k += step;
                }
                let _ = failed;
            }
        }
    }
}

pub const CHUNK: usize = 32768;

pub const CFG4: [&[&str]; 4] = [&[], &["-U"], &["-R"], &["-U", "-R"]];

/// Chunked sweep: item i of a chunk gets address `addr_base + i`; `mk` builds the lines of
/// the vector, `judge` sees the observation.
pub fn sweep<T>(cfg: &Cfg, items: &[T], addr_base: u32, mk: impl Fn(&T, u32) -> Vec<Vec<u8>>, mut judge: impl FnMut(&T, u32, &Obs)) {
    for chunk in items.chunks(CHUNK) {
        let vecs: Vec<Vector> = chunk
            .iter()
            .enumerate()
            .map(|(i, t)| {
                let addr = addr_base + i as u32;
                Vector { addr, lines: mk(t, addr) }
            })
            .collect();
        let obs = run_vectors(cfg, &vecs);
        for ((t, v), o) in chunk.iter().zip(vecs.iter()).zip(obs.iter()) {
            judge(t, v.addr, o);
        }
    }
}

/// run one vector alone (replay path)
pub fn single(cfg: &Cfg, addr: u32, lines: Vec<Vec<u8>>) -> Obs {
    run_vectors(cfg, &[Vector { addr, lines }]).pop().unwrap()
}

pub fn hexline(f: &crate::frames::Frame) -> Vec<u8> {
    f.hex().into_bytes()
}
