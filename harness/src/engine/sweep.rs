//! E1: field-space sweeps. Every vector gets its own 24-bit address, so one reader
//! run over a chunk of vectors leaves one row per vector.

use crate::run::{Cfg, Outcome, join_lines, run_file};
use crate::snap::{Snap, new_table, snapshot};
use std::collections::HashMap;

pub struct Vector {
    pub addr: u32,
    pub lines: Vec<Vec<u8>>,
}

#[derive(Clone, Debug, PartialEq)]
pub enum Obs {
    Row(Box<Snap>),
    NoRow,
    Panic(String),
    IoErr(String),
}

impl Obs {
    pub fn row(&self) -> Option<&Snap> {
        match self {
            Obs::Row(s) => Some(s),
            _ => None,
        }
    }
}

/// Run all vectors (distinct addresses) through the reader seam; a panic is bisected
/// down to the vector that causes it and the rest is re-run.
pub fn run_vectors(cfg: &Cfg, vecs: &[Vector]) -> Vec<Obs> {
    let mut out: Vec<Obs> = Vec::with_capacity(vecs.len());
    run_rec(cfg, vecs, &mut out);
    crowd_probe(cfg, vecs);
    out
}

// ---------------------------------------------------------------- crowded-table probe
//
// The sweeps give every vector its own address and run thousands of them in one table, so a result that
// depends on HOW MANY aircraft are tracked shows up as a verdict that a single-vector replay cannot
// reproduce. The first and then every 61st call of `run_vectors` in a process therefore takes one vector of the chunk and runs it twice on
// its own: alone, and behind `n` bystanders (one DF11 each, other addresses). The two rows must be equal.
// Differences are collected here and reported by the worker as `<ID>/crowded-table/<cfg>` with a replay
// case that the harness handles itself (kind "crowd").

pub struct CrowdFinding {
    pub opts: Vec<String>,
    pub addr: u32,
    pub lines: Vec<Vec<u8>>,
    pub n: usize,
    pub what: String,
}

static PROBE_CALLS: std::sync::atomic::AtomicU64 = std::sync::atomic::AtomicU64::new(0);
static CROWD: std::sync::Mutex<Vec<CrowdFinding>> = std::sync::Mutex::new(Vec::new());
pub static CROWD_PROBES: std::sync::atomic::AtomicU64 = std::sync::atomic::AtomicU64::new(0);

pub fn take_crowd_findings() -> Vec<CrowdFinding> {
    std::mem::take(&mut *CROWD.lock().unwrap())
}

fn row_of(table: &crate::snap::Table, addr: u32) -> Option<Snap> {
    table.read().ok()?.get(&addr).map(|p| Snap::of(addr, p))
}

/// the row of `addr` after `lines`, alone and behind `n` bystanders; None when the two agree
pub fn crowd_difference(cfg: &Cfg, addr: u32, lines: &[Vec<u8>], n: usize) -> Option<String> {
    if n == 0 {
        // the line-end probe: with and without a final line feed
        let with_lf = new_table();
        let o1 = run_file(cfg, &join_lines(lines), &with_lf);
        let mut content = join_lines(lines);
        content.pop();
        let without = new_table();
        let o2 = run_file(cfg, &content, &without);
        let (r1, r2) = (row_of(&with_lf, addr), row_of(&without, addr));
        return if o1.is_ok() != o2.is_ok() || r1 != r2 { Some(format!("when the input ends without a final line feed the row differs (reader {} / {}; row present {} / {})", o1.label(), o2.label(), r1.is_some(), r2.is_some())) } else { None };
    }
    let alone = new_table();
    let o1 = run_file(cfg, &join_lines(lines), &alone);
    let r1 = row_of(&alone, addr);
    let mut all: Vec<Vec<u8>> = (0..n as u32).map(|i| 0x100001 + i).filter(|a| *a != addr).map(|a| crate::frames::df11(5, a, 0).hex().into_bytes()).collect();
    all.extend(lines.iter().cloned());
    let crowded = new_table();
    let o2 = run_file(cfg, &join_lines(&all), &crowded);
    let r2 = row_of(&crowded, addr);
    if o1.is_ok() != o2.is_ok() {
        return Some(format!("alone the reader ends {}, behind {n} other aircraft {}", o1.label(), o2.label()));
    }
    match (r1, r2) {
        (Some(a), Some(b)) if a == b => None,
        (None, None) => None,
        (Some(a), Some(b)) => Some(format!("behind {n} other aircraft the row differs: {}", crate::snap::diff_fields(&a, &b).join("; "))),
        (Some(_), None) => Some(format!("behind {n} other aircraft the aircraft gets no row")),
        (None, Some(_)) => Some(format!("behind {n} other aircraft the aircraft gets a row, alone it gets none")),
    }
}

fn crowd_probe(cfg: &Cfg, vecs: &[Vector]) {
    use std::sync::atomic::Ordering::SeqCst;
    if vecs.is_empty() {
        return;
    }
    let c = PROBE_CALLS.fetch_add(1, SeqCst);
    if c % 61 != 0 {
        return;
    }
    let k = c / 61;
    if k >= 24 {
        return; // a bounded number of probes per process
    }
    let v = &vecs[(k as usize * 7919) % vecs.len()];
    let n = [4200usize, 1100, 70_000][(k % 3) as usize];
    if n > 10_000 && k % 12 != 2 {
        return;
    }
    CROWD_PROBES.fetch_add(1, SeqCst);
    // the same vector as the whole input WITHOUT a final line feed: the last line is a line like any other
    {
        let with_lf = new_table();
        let o1 = run_file(cfg, &join_lines(&v.lines), &with_lf);
        let mut content = join_lines(&v.lines);
        content.pop();
        let without = new_table();
        let o2 = run_file(cfg, &content, &without);
        let (r1, r2) = (row_of(&with_lf, v.addr), row_of(&without, v.addr));
        if o1.is_ok() != o2.is_ok() || r1 != r2 {
            let mut g = CROWD.lock().unwrap();
            if g.len() < 16 {
                g.push(CrowdFinding { opts: cfg.opts.clone(), addr: v.addr, lines: v.lines.clone(), n: 0, what: format!("when the input ends without a final line feed the row differs (reader {} / {}; row present {} / {})", o1.label(), o2.label(), r1.is_some(), r2.is_some()) });
            }
        }
    }
    if let Some(what) = crate::run::with_wedge_limit(180_000, || crowd_difference(cfg, v.addr, &v.lines, n)) {
        let mut g = CROWD.lock().unwrap();
        if g.len() < 16 {
            g.push(CrowdFinding { opts: cfg.opts.clone(), addr: v.addr, lines: v.lines.clone(), n, what });
        }
    }
}

fn run_rec(cfg: &Cfg, vecs: &[Vector], out: &mut Vec<Obs>) {
    if vecs.is_empty() {
        return;
    }
    let mut content = Vec::new();
    for v in vecs {
        content.extend_from_slice(&join_lines(&v.lines));
    }
    let table = new_table();
    crate::run::describe_current(&format!(
        "chunk of {} vectors, cfg [{}], first line {:?}",
        vecs.len(),
        cfg.label(),
        vecs[0].lines.last().map(|l| String::from_utf8_lossy(l).into_owned())
    ));
    match run_file(cfg, &content, &table) {
        Outcome::Ok => {
            let rows: HashMap<u32, Snap> = snapshot(&table).into_iter().map(|s| (s.key, s)).collect();
            for v in vecs {
                out.push(match rows.get(&v.addr) {
                    Some(s) => Obs::Row(Box::new(s.clone())),
                    None => Obs::NoRow,
                });
            }
        }
        Outcome::Panic(m) if vecs.len() == 1 => out.push(Obs::Panic(m)),
        Outcome::IoErr(m) if vecs.len() == 1 => out.push(Obs::IoErr(m)),
        failed => {
            let start = out.len();
            let step = vecs.len().div_ceil(8).max(1);
            for c in vecs.chunks(step) {
                run_rec(cfg, c, out);
            }
            // the chunk failed but no part of it does on its own: the failure needs two adjacent
            // vectors that the split separated - test every split boundary as a pair
            let any_inside = out[start..].iter().any(|o| matches!(o, Obs::Panic(_) | Obs::IoErr(_)));
            if !any_inside && vecs.len() > 1 {
                let mut k = step;
                while k < vecs.len() {
                    let pair = &vecs[k - 1..=k];
                    let mut content = Vec::new();
                    for v in pair {
                        content.extend_from_slice(&join_lines(&v.lines));
                    }
                    let t = new_table();
                    let o = run_file(cfg, &content, &t);
                    if !o.is_ok() {
                        let m = format!("only together with the neighbouring vector: {}", o.label());
                        out[start + k - 1] = Obs::Panic(m.clone());
                        out[start + k] = Obs::Panic(m);
                    }
                    k += step;
                }
                let _ = failed;
            }
        }
    }
}

pub const CHUNK: usize = 32768;

pub const CFG4: [&[&str]; 4] = [&[], &["-U"], &["-R"], &["-U", "-R"]];

/// Chunked sweep: item i of a chunk gets address `addr_base + i`; `mk` builds the lines of
/// the vector, `judge` sees the observation.
pub fn sweep<T>(cfg: &Cfg, items: &[T], addr_base: u32, mk: impl Fn(&T, u32) -> Vec<Vec<u8>>, mut judge: impl FnMut(&T, u32, &Obs)) {
    for chunk in items.chunks(CHUNK) {
        let vecs: Vec<Vector> = chunk
            .iter()
            .enumerate()
            .map(|(i, t)| {
                let addr = addr_base + i as u32;
                Vector { addr, lines: mk(t, addr) }
            })
            .collect();
        let obs = run_vectors(cfg, &vecs);
        for ((t, v), o) in chunk.iter().zip(vecs.iter()).zip(obs.iter()) {
            judge(t, v.addr, o);
        }
    }
}

/// run one vector alone (replay path)
pub fn single(cfg: &Cfg, addr: u32, lines: Vec<Vec<u8>>) -> Obs {
    run_vectors(cfg, &[Vector { addr, lines }]).pop().unwrap()
}

pub fn hexline(f: &crate::frames::Frame) -> Vec<u8> {
    f.hex().into_bytes()
}
