//! E1: field-space sweeps. Every vector gets its own 24-bit address, so one reader
//! run over a chunk of vectors leaves one row per vector.

use crate::run::{Cfg, Outcome, join_lines, run_file};
use crate::snap::{Snap, new_table, snapshot};
use std::collections::HashMap;

pub struct Vector {
    pub addr: u32,
    pub lines: Vec<Vec<u8>>,
}

#[derive(Clone, Debug, PartialEq)]
pub enum Obs {
    Row(Box<Snap>),
    NoRow,
    Panic(String),
    IoErr(String),
}

impl Obs {
    pub fn row(&self) -> Option<&Snap> {
        match self {
            Obs::Row(s) => Some(s),
            _ => None,
        }
    }
}

/// Run all vectors (distinct addresses) through the reader seam; a panic is bisected
/// down to the vector that causes it and the rest is re-run.
pub fn run_vectors(cfg: &Cfg, vecs: &[Vector]) -> Vec<Obs> {
    let mut out: Vec<Obs> = Vec::with_capacity(vecs.len());
    run_rec(cfg, vecs, &mut out);
    out
}

fn run_rec(cfg: &Cfg, vecs: &[Vector], out: &mut Vec<Obs>) {
    if vecs.is_empty() {
        return;
    }
    let mut content = Vec::new();
    for v in vecs {
        content.extend_from_slice(&join_lines(&v.lines));
    }
    let table = new_table();
    crate::run::describe_current(&format!(
        "chunk of {} vectors, cfg [{}], first line {:?}",
        vecs.len(),
        cfg.label(),
        vecs[0].lines.last().map(|l| String::from_utf8_lossy(l).into_owned())
    ));
    match run_file(cfg, &content, &table) {
        Outcome::Ok => {
            let rows: HashMap<u32, Snap> = snapshot(&table).into_iter().map(|s| (s.key, s)).collect();
            for v in vecs {
                out.push(match rows.get(&v.addr) {
                    Some(s) => Obs::Row(Box::new(s.clone())),
                    None => Obs::NoRow,
                });
            }
        }
        Outcome::Panic(m) if vecs.len() == 1 => out.push(Obs::Panic(m)),
        Outcome::IoErr(m) if vecs.len() == 1 => out.push(Obs::IoErr(m)),
        _ => {
            let step = vecs.len().div_ceil(8).max(1);
            for c in vecs.chunks(step) {
                run_rec(cfg, c, out);
            }
        }
    }
}

pub const CHUNK: usize = 32768;
