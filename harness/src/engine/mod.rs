pub mod cli;
pub mod explore;
pub mod sweep;
