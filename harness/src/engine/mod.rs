pub mod sweep;
