pub mod cli;
pub mod sweep;
