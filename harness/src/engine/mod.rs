pub mod cli;
pub mod explore;
pub mod faults;
pub mod sweep;
