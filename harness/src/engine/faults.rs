//! E3: scripted loopback TCP peer run against `spawn_reader_thread` with `-t`.
//! The gated sleep shim sequences connection attempts deterministically: every script
//! step ends with the reader parked in its 5 s pause (no real waiting, no busy loop).

use crate::run::Cfg;
use crate::shim;
use crate::snap::{Snap, Table, new_table, snapshot};
use squitterator::{Planes, spawn_reader_thread};
use std::io::Write;
use std::net::{TcpListener, TcpStream};
use std::os::fd::AsRawFd;
use std::time::Duration;

#[derive(Clone, Debug, PartialEq, Eq, Hash)]
pub enum Step {
    /// nobody listens: the connect attempt is refused
    Refuse,
    /// accept, send nothing, close
    AcceptClose,
    /// accept, send these bytes (complete lines), close
    AcceptSend(Vec<u8>),
    /// accept, send these bytes (ending in the middle of a line), reset the connection (SO_LINGER 0)
    AcceptPartialReset(Vec<u8>),
    /// accept, send junk bytes, close
    AcceptJunk(Vec<u8>),
    /// accept, send these bytes, keep the connection healthy for this many (virtual) seconds, close
    AcceptSendHold(Vec<u8>, i64),
    /// accept, send the head, really pause this many ms in the middle of the line, send the tail, close
    AcceptSplitLine(Vec<u8>, u64, Vec<u8>),
    /// accept, send the first bytes (possibly ending mid-line), stay silent - the connection open and
    /// healthy - for longer than every socket time-out the reader installed (time-outs are compressed
    /// 100:1 by the shim) or, with `Some(ms)`, for that much real time with uncompressed time-outs;
    /// then send the rest on the same connection and close
    AcceptSendIdleSend(Vec<u8>, Vec<u8>, Option<u64>),
}

impl Step {
    pub fn name(&self) -> String {
        match self {
            Step::Refuse => "refuse".into(),
            Step::AcceptClose => "accept+close".into(),
            Step::AcceptSend(b) => format!("accept+frames({} bytes)+close", b.len()),
            Step::AcceptPartialReset(b) => format!("accept+partial({} bytes)+reset", b.len()),
            Step::AcceptJunk(b) => format!("accept+junk({} bytes)+close", b.len()),
            Step::AcceptSendHold(b, t) => format!("accept+frames({} bytes)+healthy for {t} s+close", b.len()),
            Step::AcceptSplitLine(h, ms, t) => format!("accept+{} bytes+pause {ms} ms mid-line+{} bytes+close", h.len(), t.len()),
            Step::AcceptSendIdleSend(h, t, None) => format!("accept+{} bytes+silent beyond every socket time-out+{} bytes+close", h.len(), t.len()),
            Step::AcceptSendIdleSend(h, t, Some(ms)) => format!("accept+{} bytes+silent for {ms} ms of real time+{} bytes+close", h.len(), t.len()),
        }
    }
}

#[derive(Debug, Default)]
pub struct TcpReport {
    /// the reader thread was still running at the end
    pub alive: bool,
    /// sleep requests (seconds) observed after each step
    pub sleeps_per_step: Vec<Vec<i64>>,
    /// table after each step (the reader is parked in its pause when it is taken)
    pub tables: Vec<Vec<Snap>>,
    /// table after the final healthy connection delivered its frames
    pub final_table: Vec<Snap>,
    /// the reader connected while the gate was closed (must never happen)
    pub connected_while_paused: bool,
    pub machinery: Option<String>,
    pub reader_result: Option<String>,
    /// virtual wall-clock time that passed during the script (ms): pauses and healthy periods
    pub elapsed_ms: i64,
    /// socket time-outs (s, us) the reader asked for during the script
    pub socket_timeouts: Vec<(i64, i64)>,
}

const STEP_TIMEOUT: Duration = Duration::from_secs(8);

struct PortClaim {
    port: u16,
    path: std::path::PathBuf,
}

impl PortClaim {
    fn take() -> Option<PortClaim> {
        use std::sync::atomic::{AtomicU32, Ordering};
        static NEXT: AtomicU32 = AtomicU32::new(0);
        let dir = std::path::Path::new(if std::path::Path::new("/dev/shm").is_dir() { "/dev/shm/sqv-ports" } else { "/tmp/sqv-ports" });
        let _ = std::fs::create_dir_all(dir);
        let pid = std::process::id();
        for _ in 0..20_000 {
            let n = NEXT.fetch_add(1, Ordering::SeqCst);
            let port = 12_000 + ((pid.wrapping_mul(7919).wrapping_add(n * 13)) % 18_000) as u16;
            let path = dir.join(port.to_string());
            match std::fs::OpenOptions::new().write(true).create_new(true).open(&path) {
                Ok(mut f) => {
                    let _ = write!(f, "{pid}");
                    // the port must really be free
                    if TcpListener::bind(("127.0.0.1", port)).is_ok() {
                        return Some(PortClaim { port, path });
                    }
                    let _ = std::fs::remove_file(&path);
                }
                Err(_) => {
                    // stale claim of a dead process?
                    if let Ok(owner) = std::fs::read_to_string(&path) {
                        if let Ok(op) = owner.trim().parse::<u32>() {
                            if !std::path::Path::new(&format!("/proc/{op}")).exists() {
                                let _ = std::fs::remove_file(&path);
                            }
                        }
                    }
                }
            }
        }
        None
    }
}

impl Drop for PortClaim {
    fn drop(&mut self) {
        let _ = std::fs::remove_file(&self.path);
    }
}


struct RealTimer(u64);
impl RealTimer {
    fn now() -> RealTimer {
        RealTimer(shim::real_mono_ns())
    }
    fn elapsed(&self) -> Duration {
        Duration::from_nanos(shim::real_mono_ns().saturating_sub(self.0))
    }
}

fn wait_until(mut f: impl FnMut() -> bool) -> bool {
    let t = RealTimer::now();
    while t.elapsed() < STEP_TIMEOUT {
        if f() {
            return true;
        }
        shim::real_sleep_us(100);
    }
    false
}

/// The reader's end of the connection whose server end is `s` (both live in this process): the socket fd
/// whose local address is our peer address and whose peer is our local address.
fn client_fd_of(s: &TcpStream) -> Option<i32> {
    let (ours, theirs) = (s.local_addr().ok()?, s.peer_addr().ok()?);
    let name = |fd: i32, peer: bool| -> Option<std::net::SocketAddr> {
        let mut sa: libc::sockaddr_in = unsafe { std::mem::zeroed() };
        let mut len = std::mem::size_of::<libc::sockaddr_in>() as libc::socklen_t;
        let r = unsafe {
            if peer { libc::getpeername(fd, &mut sa as *mut _ as *mut libc::sockaddr, &mut len) } else { libc::getsockname(fd, &mut sa as *mut _ as *mut libc::sockaddr, &mut len) }
        };
        if r != 0 || sa.sin_family != libc::AF_INET as libc::sa_family_t {
            return None;
        }
        Some(std::net::SocketAddr::from((std::net::Ipv4Addr::from(u32::from_be(sa.sin_addr.s_addr)), u16::from_be(sa.sin_port))))
    };
    for e in std::fs::read_dir("/proc/self/fd").ok()?.flatten() {
        let Some(fd) = e.file_name().to_str().and_then(|x| x.parse::<i32>().ok()) else { continue };
        if fd == s.as_raw_fd() {
            continue;
        }
        if name(fd, false) == Some(theirs) && name(fd, true) == Some(ours) {
            return Some(fd);
        }
    }
    None
}

/// Everything written to `s` so far has been taken over by the reader and processed: our send queue is
/// empty, the reader's receive queue is empty, and a thread of this process is blocked in a read on the
/// reader's socket. Waits up to a second (a reader that has given the connection up never gets there).
fn wait_consumed(s: &TcpStream) -> bool {
    let Some(cfd) = client_fd_of(s) else {
        shim::real_sleep_us(3000);
        return false;
    };
    let t = RealTimer::now();
    while t.elapsed() < std::time::Duration::from_secs(1) {
        let (mut outq, mut inq): (libc::c_int, libc::c_int) = (0, 0);
        let ok = unsafe { libc::ioctl(s.as_raw_fd(), libc::TIOCOUTQ, &mut outq) == 0 && libc::ioctl(cfd, libc::FIONREAD, &mut inq) == 0 };
        if ok && outq == 0 && inq == 0 {
            let blocked = std::fs::read_dir("/proc/self/task").ok().into_iter().flatten().flatten().any(|e| {
                std::fs::read_to_string(e.path().join("syscall")).ok().is_some_and(|l| {
                    let mut it = l.split_whitespace();
                    let nr = it.next().and_then(|x| x.parse::<i64>().ok());
                    let a0 = it.next().and_then(|x| i64::from_str_radix(x.trim_start_matches("0x"), 16).ok());
                    matches!(nr, Some(n) if n == libc::SYS_recvfrom || n == libc::SYS_read) && a0 == Some(cfd as i64)
                })
            });
            if blocked {
                return true;
            }
        }
        shim::real_sleep_us(100);
    }
    false
}

fn set_linger0(s: &TcpStream) {
    let l = libc::linger { l_onoff: 1, l_linger: 0 };
    unsafe {
        libc::setsockopt(s.as_raw_fd(), libc::SOL_SOCKET, libc::SO_LINGER, &l as *const _ as *const libc::c_void, std::mem::size_of::<libc::linger>() as u32);
    }
}

fn bind(port: u16) -> Result<TcpListener, String> {
    let t = RealTimer::now();
    loop {
        match TcpListener::bind(("127.0.0.1", port)) {
            Ok(l) => {
                l.set_nonblocking(true).map_err(|e| e.to_string())?;
                return Ok(l);
            }
            Err(e) if t.elapsed() > STEP_TIMEOUT => return Err(format!("cannot bind 127.0.0.1:{port}: {e}")),
            Err(_) => shim::real_sleep_us(200),
        }
    }
}

fn accept(l: &TcpListener) -> Result<TcpStream, String> {
    let t = RealTimer::now();
    loop {
        match l.accept() {
            Ok((s, _)) => {
                s.set_nonblocking(false).ok();
                s.set_nodelay(true).ok();
                return Ok(s);
            }
            Err(e) if e.kind() == std::io::ErrorKind::WouldBlock => {
                if t.elapsed() > STEP_TIMEOUT {
                    return Err("reader did not connect within the step timeout".into());
                }
                shim::real_sleep_us(100);
            }
            Err(e) => return Err(e.to_string()),
        }
    }
}

/// Run `script`, then a healthy connection delivering `healthy` and staying open.
/// `opts` are extra CLI options. The reader thread is leaked (its loop never returns).
pub fn run_script(opts: &[&str], script: &[Step], healthy: &[u8], expect_in_final: impl Fn(&[Snap]) -> bool) -> TcpReport {
    let mut rep = TcpReport::default();
    // claim a port outside the ephemeral range (a connect to an unbound ephemeral port can
    // self-connect); exclusive across worker processes through a lock file
    let Some(claim) = PortClaim::take() else {
        rep.machinery = Some("cannot claim a TCP port".into());
        return rep;
    };
    let port = claim.port;
    let addr = format!("127.0.0.1:{port}");
    let cfg = Cfg::tcp(opts, &addr);
    let table: Table = new_table();
    shim::arm_sleep_gate();
    shim::wall_follows_virtual_time(true);
    shim::compress_socket_timeouts(!script.iter().any(|s| matches!(s, Step::AcceptSendIdleSend(_, _, Some(_)))));
    let mut seen = shim::sleep_requests();

    // the first step decides whether somebody listens when the reader starts
    let mut listener: Option<TcpListener> = None;
    let first_accepts = !matches!(script.first(), Some(Step::Refuse));
    if first_accepts {
        match bind(port) {
            Ok(l) => listener = Some(l),
            Err(e) => {
                rep.machinery = Some(e);
                return rep;
            }
        }
    }
    let handle = spawn_reader_thread(cfg.args.clone(), Planes { aircrafts: table.clone() });
    let reader = handle.thread().id();
    crate::run::describe_current(&format!("TCP script {:?}", script.iter().map(|s| s.name()).collect::<Vec<_>>()));

    let mut steps: Vec<Option<&Step>> = script.iter().map(Some).collect();
    steps.push(None); // the healthy connection
    for (i, st) in steps.iter().enumerate() {
        let first = i == 0;
        match st {
            Some(Step::Refuse) => {
                // nobody listens; (re)start the attempt by releasing the pause of the previous step
                if !first {
                    shim::release_sleep_of(reader);
                }
            }
            other => {
                if listener.is_none() {
                    match bind(port) {
                        Ok(l) => listener = Some(l),
                        Err(e) => {
                            rep.machinery = Some(e);
                            break;
                        }
                    }
                }
                if !first {
                    shim::release_sleep_of(reader);
                }
                let l = listener.take().unwrap();
                let mut s = match accept(&l) {
                    Ok(s) => s,
                    Err(e) => {
                        rep.machinery = Some(format!("step {i}: {e}"));
                        break;
                    }
                };
                // nobody listens any more: the reader's next attempt is refused and parks it
                drop(l);
                match other {
                    Some(Step::AcceptClose) => drop(s),
                    Some(Step::AcceptSend(b)) | Some(Step::AcceptJunk(b)) => {
                        let _ = s.write_all(b);
                        let _ = s.flush();
                        drop(s);
                    }
                    Some(Step::AcceptSplitLine(h, ms, t)) => {
                        let _ = s.write_all(h);
                        let _ = s.flush();
                        shim::real_sleep_us(*ms * 1000);
                        let _ = s.write_all(t);
                        let _ = s.flush();
                        drop(s);
                    }
                    Some(Step::AcceptSendIdleSend(h, t, real)) => {
                        let _ = s.write_all(h);
                        let _ = s.flush();
                        let idle_us = match real {
                            Some(ms) => *ms * 1000,
                            None => {
                                wait_consumed(&s); // the reader has set up its socket by now
                                let longest = shim::installed_socket_timeouts_us().into_iter().max().unwrap_or(0);
                                rep.socket_timeouts = shim::requested_socket_timeouts();
                                (longest as u64 * 3 / 2 + 130_000).max(150_000)
                            }
                        };
                        shim::real_sleep_us(idle_us);
                        let _ = s.write_all(t);
                        let _ = s.flush();
                        wait_consumed(&s);
                        drop(s);
                    }
                    Some(Step::AcceptSendHold(b, secs)) => {
                        let _ = s.write_all(b);
                        let _ = s.flush();
                        // let the reader consume the data, then let (virtual) time pass while connected
                        wait_consumed(&s);
                        shim::advance_monotonic(*secs, 0);
                        drop(s);
                    }
                    Some(Step::AcceptPartialReset(b)) => {
                        let _ = s.write_all(b);
                        let _ = s.flush();
                        // let the bytes arrive before the reset discards them
                        wait_consumed(&s);
                        set_linger0(&s);
                        drop(s);
                    }
                    None => {
                        // healthy connection: deliver and stay open
                        let _ = s.write_all(healthy);
                        let _ = s.flush();
                        // everything delivered has been processed once the reader is blocked reading again; the
                        // predicate is only waited for when that could not be observed
                        if !wait_consumed(&s) {
                            let _ = wait_until(|| expect_in_final(&snapshot(&table)));
                        }
                        rep.final_table = snapshot(&table);
                        rep.elapsed_ms = shim::wall_elapsed_ms();
                        rep.alive = !handle.is_finished();
                        let extra = shim::sleep_log_of(reader, seen);
                        if !extra.is_empty() {
                            // the reader paused although the healthy connection is open
                            rep.sleeps_per_step.push(extra.iter().map(|x| x.1).collect());
                        }
                        // keep the connection open until the report is complete, then leak everything
                        std::mem::forget(s);
                        break;
                    }
                    Some(Step::Refuse) => unreachable!(),
                }
            }
        }
        // every scripted step ends with the reader parked in a pause
        let parked = wait_until(|| !shim::sleep_log_of(reader, seen).is_empty() || handle.is_finished());
        if handle.is_finished() {
            rep.alive = false;
            rep.reader_result = Some(match handle.join() {
                Ok(Ok(())) => "returned Ok".into(),
                Ok(Err(e)) => format!("returned Err({e})"),
                Err(_) => "panicked".into(),
            });
            shim::disarm_sleep_gate();
            shim::wall_follows_virtual_time(false);
            shim::compress_socket_timeouts(false);
            return rep;
        }
        if !parked {
            rep.machinery = Some(format!("step {i} ({}): reader neither paused nor finished within the step timeout", st.map(|s| s.name()).unwrap_or_default()));
            break;
        }
        let log = shim::sleep_log_of(reader, seen);
        seen = shim::sleep_requests();
        rep.sleeps_per_step.push(log.iter().map(|x| x.1).collect());
        rep.tables.push(snapshot(&table));
    }
    shim::disarm_sleep_gate();
    shim::wall_follows_virtual_time(false);
    shim::compress_socket_timeouts(false);
    std::mem::forget(handle);
    rep
}
