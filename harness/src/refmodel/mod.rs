pub mod accept;
pub mod country;
pub mod fields;

pub fn self_test() -> Result<(), String> {
    crate::frames_self_test()?;
    country::self_test()?;
    fields::self_test()?;
    Ok(())
}
