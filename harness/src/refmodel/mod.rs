pub mod country;

pub fn self_test() -> Result<(), String> {
    crate::frames_self_test()?;
    country::self_test()?;
    Ok(())
}
