pub mod accept;
pub mod bds;
pub mod country;
pub mod cpr;
pub mod fields;
pub mod render;
pub mod sem;

pub fn self_test() -> Result<(), String> {
    crate::frames_self_test()?;
    country::self_test()?;
    fields::self_test()?;
    cpr::self_test()?;
    Ok(())
}
