//! Reference semantics of one accepted frame applied to the aircraft table (C03, C08, C11):
//! which parameters the frame's format carries, their reference values, and the
//! one-step refinement check `ref_step(abs(pre), frame)` vs `abs(post)`.

use crate::frames::{Frame, me_get};
use crate::refmodel::bds::{self, Exp};
use crate::refmodel::cpr::{self, Decode};
use crate::refmodel::fields::{self, Alt};
use crate::snap::Snap;
use std::collections::BTreeMap;

#[derive(Clone, Debug, PartialEq)]
pub enum Carry<T> {
    /// the format does not carry the parameter: it must not change
    No,
    /// carried, but no valid value: blank or previous value
    Blank,
    /// carried with this value
    Val(T),
    /// carried, must become blank (surface squitter blanks the altitude)
    ForceNone,
    /// the statement leaves it open
    Any,
}

#[derive(Clone, Debug, PartialEq)]
pub enum VelCarry {
    No,
    NoInfo,
    Val { gs: f64, trk: f64, supersonic: bool },
    Any,
}

#[derive(Clone, Debug)]
pub struct Sem {
    pub df: u32,
    pub addr: u32,
    pub tc: u32,
    pub altitude: Carry<u32>,
    pub squawk: Carry<u32>,
    pub ais: Carry<String>,
    pub category: Carry<(u32, u32)>,
    pub vel: VelCarry,
    pub vrate: Carry<i32>,
    pub ss: Carry<char>,
    pub version: Carry<u32>,
    pub heading_any: bool,
    /// DF11: strict; DF17: {CA, old}
    pub ca: Carry<u32>,
    pub ca_strict: bool,
    /// (parity, lat17, lon17, airborne)
    pub pos: Option<(usize, u32, u32, bool)>,
    pub mb: Option<u64>,
    /// DF18 (and unsupported formats): value effects unconstrained
    pub all_any: bool,
}

fn alt_carry(a: Alt) -> Carry<u32> {
    match a {
        Alt::Feet(v) => Carry::Val(v),
        Alt::None => Carry::Blank,
        Alt::Metric => Carry::Any,
    }
}

/// address a well-formed frame is attributed to (None for unsupported formats)
pub fn ref_address(f: &Frame) -> Option<u32> {
    match f.df() {
        11 | 17 | 18 => Some(f.get(9, 24) as u32),
        0 | 4 | 5 | 16 | 20 | 21 => Some(f.remainder()),
        _ => None,
    }
}

pub fn sem(f: &Frame) -> Sem {
    let df = f.df();
    let mut s = Sem {
        df,
        addr: ref_address(f).unwrap_or(0),
        tc: 0,
        altitude: Carry::No,
        squawk: Carry::No,
        ais: Carry::No,
        category: Carry::No,
        vel: VelCarry::No,
        vrate: Carry::No,
        ss: Carry::No,
        version: Carry::No,
        heading_any: false,
        ca: Carry::No,
        ca_strict: false,
        pos: None,
        mb: None,
        all_any: false,
    };
    match df {
        4 => s.altitude = alt_carry(fields::alt_ac13(f.get(20, 13) as u32)),
        5 => s.squawk = Carry::Val(fields::squawk(f.get(20, 13) as u32)),
        11 => {
            s.ca = Carry::Val(f.get(6, 3) as u32);
            s.ca_strict = true;
        }
        20 => {
            s.altitude = alt_carry(fields::alt_ac13(f.get(20, 13) as u32));
            s.mb = Some(f.get(33, 56));
        }
        21 => {
            s.squawk = Carry::Val(fields::squawk(f.get(20, 13) as u32));
            s.mb = Some(f.get(33, 56));
        }
        17 => {
            s.ca = Carry::Val(f.get(6, 3) as u32);
            let me = f.get(33, 56);
            let tc = me_get(me, 1, 5) as u32;
            s.tc = tc;
            match tc {
                1..=4 => {
                    let mut c = [0u32; 8];
                    for (i, x) in c.iter_mut().enumerate() {
                        *x = me_get(me, 9 + 6 * i as u32, 6) as u32;
                    }
                    let cs = fields::callsign(&c);
                    s.ais = if cs.is_empty() { Carry::Any } else { Carry::Val(cs) };
                    s.category = Carry::Val((tc, me_get(me, 6, 3) as u32));
                }
                5..=8 => {
                    s.altitude = Carry::ForceNone;
                    s.vel = VelCarry::Any;
                    s.pos = Some((me_get(me, 22, 1) as usize, me_get(me, 23, 17) as u32, me_get(me, 40, 17) as u32, false));
                }
                9..=18 => {
                    s.altitude = alt_carry(fields::alt_ac12(me_get(me, 9, 12) as u32));
                    s.ss = Carry::Val(['N', 'P', 'T', 'S'][me_get(me, 6, 2) as usize]);
                    s.pos = Some((me_get(me, 22, 1) as usize, me_get(me, 23, 17) as u32, me_get(me, 40, 17) as u32, true));
                }
                19 => {
                    let st = me_get(me, 6, 3) as u32;
                    s.vrate = match fields::vrate(me_get(me, 37, 1) as u32, me_get(me, 38, 9) as u32) {
                        Some(v) => Carry::Val(v),
                        None => Carry::Blank,
                    };
                    match st {
                        1 | 2 => {
                            let r = fields::velocity(me_get(me, 14, 1) as u32, me_get(me, 15, 10) as u32, me_get(me, 25, 1) as u32, me_get(me, 26, 10) as u32, st == 2);
                            s.vel = match (r.gs_exact, r.track_exact) {
                                (Some(gs), Some(trk)) => VelCarry::Val { gs, trk, supersonic: st == 2 },
                                _ => VelCarry::NoInfo,
                            };
                        }
                        _ => {
                            s.vel = VelCarry::Any;
                            s.heading_any = true;
                        }
                    }
                }
                20..=22 => s.ss = Carry::Any,
                31 => s.version = Carry::Val(me_get(me, 41, 3) as u32),
                _ => {}
            }
        }
        0 | 16 => {}
        _ => s.all_any = true,
    }
    s
}

// ------------------------------------------------------------------ CPR pairing machine (reference slots)

#[derive(Clone, Copy, Debug, PartialEq, Eq, Hash)]
pub enum Slot {
    Never,
    Known { lat: u32, lon: u32, age: i64 },
    /// a frame whose effect on the slot is unconstrained (DF18) touched it
    Unknown,
}

#[derive(Clone, Debug, PartialEq, Eq, Hash, Default)]
pub struct Slots(pub BTreeMap<u32, [SlotW; 2]>);

#[derive(Clone, Copy, Debug, PartialEq, Eq, Hash)]
pub struct SlotW(pub Slot);
impl Default for SlotW {
    fn default() -> Self {
        SlotW(Slot::Never)
    }
}

impl Slots {
    pub fn tick(&mut self, ms: i64) {
        for v in self.0.values_mut() {
            for s in v.iter_mut() {
                if let Slot::Known { age, .. } = &mut s.0 {
                    *age += ms;
                }
            }
        }
    }
    pub fn forget(&mut self, addr: u32) {
        self.0.remove(&addr);
    }
    pub fn get(&self, addr: u32) -> [Slot; 2] {
        self.0.get(&addr).map(|a| [a[0].0, a[1].0]).unwrap_or([Slot::Never, Slot::Never])
    }
    pub fn set(&mut self, addr: u32, parity: usize, s: Slot) {
        self.0.entry(addr).or_default()[parity] = SlotW(s);
    }
}

#[derive(Clone, Debug, PartialEq)]
pub enum PosExpect {
    /// lat, lon, distance, position time stamp identical to the pre-state
    Unchanged(&'static str),
    Decoded { lat: f64, lon: f64 },
    /// skipped: ambiguity (NL transition within 1e-6 deg, unknown slot, surface squitter)
    Skip(&'static str),
}

/// reference pairing machine: slots AFTER storing the new frame -> expected position effect
pub fn pos_expect(slots_after: [Slot; 2], parity: usize, airborne: bool) -> PosExpect {
    if !airborne {
        return PosExpect::Skip("surface squitter: position effect not constrained by C08");
    }
    let (a, b) = (slots_after[0], slots_after[1]);
    let (Slot::Known { lat: la0, lon: lo0, age: ag0 }, Slot::Known { lat: la1, lon: lo1, age: ag1 }) = (a, b) else {
        if a == Slot::Unknown || b == Slot::Unknown {
            return PosExpect::Skip("a slot was touched by a DF18 or surface frame");
        }
        return PosExpect::Unchanged("single frame");
    };
    if la0 == 0 || lo0 == 0 || la1 == 0 || lo1 == 0 {
        return PosExpect::Unchanged("a CPR field is 0 (not received)");
    }
    if (ag0 - ag1).abs() >= 10_000 {
        return PosExpect::Unchanged("frames 10 s or more apart");
    }
    // NL ambiguity guard (table constant vs closed formula)
    let j = ((59.0 * la0 as f64 - 60.0 * la1 as f64) / cpr::NB + 0.5).floor();
    let fmod = |a: f64, b: f64| a - b * (a / b).floor();
    let mut r0 = 6.0 * (fmod(j, 60.0) + la0 as f64 / cpr::NB);
    let mut r1 = (360.0 / 59.0) * (fmod(j, 59.0) + la1 as f64 / cpr::NB);
    if r0 >= 270.0 {
        r0 -= 360.0;
    }
    if r1 >= 270.0 {
        r1 -= 360.0;
    }
    if cpr::dist_to_nl_transition(r0) < 1e-6 || cpr::dist_to_nl_transition(r1) < 1e-6 {
        return PosExpect::Skip("reconstructed latitude within 1e-6 deg of an NL transition");
    }
    match cpr::decode_global((la0, lo0), (la1, lo1), parity == 1) {
        Decode::ZoneMismatch => PosExpect::Unchanged("zone-straddling pair"),
        Decode::Pos(lat, lon) => {
            if (-90.0..=90.0).contains(&lat) && (-180.0..=180.0).contains(&lon) {
                PosExpect::Decoded { lat, lon }
            } else {
                PosExpect::Unchanged("decode out of range")
            }
        }
    }
}

// ------------------------------------------------------------------ one-step refinement check

pub struct StepCheck {
    pub complaints: Vec<(String, String)>, // (site suffix, message)
    pub branches: Vec<&'static str>,
}

fn same<T: PartialEq + std::fmt::Debug>(out: &mut StepCheck, site: &str, name: &str, old: &T, new: &T) {
    if old != new {
        out.complaints.push((site.to_string(), format!("{name} changed {old:?} -> {new:?} although the frame's format does not carry it")));
    }
}

fn opt_carry<T: PartialEq + Clone + std::fmt::Debug>(out: &mut StepCheck, creating_mb: bool, name: &str, c: &Carry<T>, old: &Option<T>, new: &Option<T>) {
    match c {
        Carry::No => same(out, "not-carried", name, old, new),
        Carry::Any => out.branches.push("any"),
        Carry::ForceNone => {
            if new.is_some() {
                out.complaints.push(("force-blank".into(), format!("{name} must be blank after this frame, is {new:?}")));
            }
        }
        Carry::Blank => {
            out.branches.push("carried:no-valid-value");
            if !(new.is_none() || new == old) {
                out.complaints.push(("no-valid-value".into(), format!("{name}: frame carries no valid value; expected blank or previous {old:?}, got {new:?}")));
            }
        }
        Carry::Val(v) => {
            out.branches.push("carried:value");
            let ok = new.as_ref() == Some(v) || (creating_mb && new == old);
            if !ok {
                out.complaints.push(("carried-value".into(), format!("{name}: expected {v:?}, got {new:?} (previous {old:?})")));
            }
        }
    }
}

/// blank row for an address (what a row that "remembers nothing" looks like), with the
/// registration from the independent Annex 10 table
pub fn blank_row(addr: u32, reg: &str) -> Snap {
    let mut s = Snap::of(addr, &squitterator::Plane::new());
    s.icao = addr;
    s.key = addr;
    s.reg = reg.to_string();
    // under the frozen clock Plane::new() stamps are "now"
    s
}

/// Check the row of the frame's aircraft. `pre` = None when the frame creates the row.
/// `slots_after` = reference CPR slots after storing this frame (if it is a position squitter).
#[allow(clippy::too_many_arguments)]
pub fn check_row(sm: &Sem, relaxed: bool, observer: Option<(f64, f64)>, pre: Option<&Snap>, blank: &Snap, post: &Snap, slots_after: [Slot; 2]) -> StepCheck {
    let mut out = StepCheck { complaints: vec![], branches: vec![] };
    let creating = pre.is_none();
    let old = pre.unwrap_or(blank);
    if post.key != sm.addr || post.icao != sm.addr {
        out.complaints.push(("row-address".into(), format!("row keyed {:06X} holds icao {:06X} for a frame of {:06X}", post.key, post.icao, sm.addr)));
    }
    if post.reg != blank.reg {
        out.complaints.push(("registration".into(), format!("registration {:?}, expected {:?}", post.reg, blank.reg)));
    }
    if sm.all_any {
        out.branches.push("format-unconstrained");
        if sm.df == 18 {
            // bits 6-8 of DF18 are the control field CF, not a transponder capability: what gates Comm-B
            // decoding (recorded capability, BDS 1,7 report) is never touched by a DF18 squitter
            same(&mut out, "not-carried", "capability", &old.ca, &post.ca);
            same(&mut out, "not-carried", "BDS 1,7 report", &(old.cap_flags, old.cap), &(post.cap_flags, post.cap));
        }
        return out;
    }
    // a DF20/21 that creates the row may contribute the address only
    let creating_mb = creating && (sm.df == 20 || sm.df == 21);
    if creating_mb {
        out.branches.push("df20/21-creates-row");
    }
    opt_carry(&mut out, creating_mb, "altitude", &sm.altitude, &old.altitude, &post.altitude);
    opt_carry(&mut out, creating_mb, "squawk", &sm.squawk, &old.squawk, &post.squawk);
    if sm.mb.is_none() {
        opt_carry(&mut out, false, "callsign", &sm.ais, &old.ais, &post.ais);
        opt_carry(&mut out, false, "vertical rate", &sm.vrate, &old.vrate, &post.vrate);
    }
    // category
    match &sm.category {
        Carry::Val(c) => {
            if post.category != *c {
                out.complaints.push(("carried-value".into(), format!("category: expected {c:?}, got {:?}", post.category)));
            }
        }
        _ => same(&mut out, "not-carried", "category", &old.category, &post.category),
    }
    // surveillance status / version
    match &sm.ss {
        Carry::Val(c) => {
            if post.surveillance_status != *c {
                out.complaints.push(("carried-value".into(), format!("surveillance status: expected {c:?}, got {:?}", post.surveillance_status)));
            }
        }
        Carry::Any => {}
        _ => same(&mut out, "not-carried", "surveillance status", &old.surveillance_status, &post.surveillance_status),
    }
    opt_carry(&mut out, false, "ADS-B version", &sm.version, &old.adsb_version, &post.adsb_version);
    // capability
    match &sm.ca {
        Carry::Val(c) => {
            let ok = post.ca == *c || (!sm.ca_strict && post.ca == old.ca);
            if !ok {
                out.complaints.push(("carried-value".into(), format!("capability: expected {c}{}, got {}", if sm.ca_strict { String::new() } else { format!(" or previous {}", old.ca) }, post.ca)));
            }
        }
        _ => same(&mut out, "not-carried", "capability", &old.ca, &post.ca),
    }
    // ground speed / track from TC19
    if sm.mb.is_none() {
        match &sm.vel {
            VelCarry::No => {
                same(&mut out, "not-carried", "ground speed", &old.grspeed, &post.grspeed);
                same(&mut out, "not-carried", "track", &old.track, &post.track);
            }
            VelCarry::Any => out.branches.push("any"),
            VelCarry::NoInfo => {
                out.branches.push("carried:no-valid-value");
                let blank_ok = post.grspeed.is_none() && post.track.is_none();
                let kept = post.grspeed == old.grspeed && post.track == old.track;
                if !(blank_ok || kept) {
                    out.complaints.push(("no-valid-value".into(), format!("velocity: no information in the frame; expected blank or previous ({:?},{:?}), got ({:?},{:?})", old.grspeed, old.track, post.grspeed, post.track)));
                }
            }
            VelCarry::Val { gs, trk, supersonic } => {
                out.branches.push("carried:value");
                let ok = post.grspeed.is_some_and(|g| fields::gs_ok(*gs, g, *supersonic)) && post.track.is_some_and(|t| fields::track_ok(*trk, t));
                if !ok {
                    out.complaints.push(("carried-value".into(), format!("velocity: expected gs {gs:.3} kt track {trk:.3} deg, got ({:?},{:?})", post.grspeed, post.track)));
                }
            }
        }
    }
    // Comm-B derived groups
    match sm.mb {
        Some(mb) if !creating => {
            let e = bds::expect_mb(old, relaxed, mb);
            for b in &e.branch {
                out.branches.push(b);
            }
            for c in bds::check_mb(&e, old, post) {
                out.complaints.push(("comm-b".into(), c));
            }
        }
        Some(_) => {
            // row created by DF20/21: address only is admissible; nothing MB-derived may appear
            // that the gate (no capability recorded yet, unless -R) would not allow: skipped
        }
        None => {
            same(&mut out, "not-carried", "selected altitude", &old.selected_altitude, &post.selected_altitude);
            same(&mut out, "not-carried", "pressure setting", &old.baro_setting, &post.baro_setting);
            same(&mut out, "not-carried", "roll", &old.roll, &post.roll);
            same(&mut out, "not-carried", "track angle rate", &old.tar, &post.tar);
            same(&mut out, "not-carried", "true airspeed", &old.tas, &post.tas);
            same(&mut out, "not-carried", "indicated airspeed", &old.ias, &post.ias);
            same(&mut out, "not-carried", "Mach", &old.mach, &post.mach);
            same(&mut out, "not-carried", "threat", &old.threat, &post.threat);
            same(&mut out, "not-carried", "capability report", &(old.cap_flags, old.cap), &(post.cap_flags, post.cap));
            if !sm.heading_any {
                same(&mut out, "not-carried", "heading", &old.heading, &post.heading);
            }
        }
    }
    // position
    let pos_old = (old.lat, old.lon, old.dist, old.pos_age);
    let pos_new = (post.lat, post.lon, post.dist, post.pos_age);
    match sm.pos {
        None => {
            if pos_old != pos_new {
                out.complaints.push(("not-carried".into(), format!("position changed ({},{}) -> ({},{}) by a frame that is not a position squitter", old.latf(), old.lonf(), post.latf(), post.lonf())));
            }
        }
        Some((parity, _, _, airborne)) => match pos_expect(slots_after, parity, airborne) {
            PosExpect::Skip(why) => {
                out.branches.push("position:skipped");
                let _ = why;
            }
            PosExpect::Unchanged(why) => {
                out.branches.push("position:unchanged");
                if pos_old != pos_new {
                    out.complaints.push(("position-unsupported".into(), format!("position changed ({},{}) -> ({},{}) although no valid pair supports it ({why})", old.latf(), old.lonf(), post.latf(), post.lonf())));
                }
            }
            PosExpect::Decoded { lat, lon } => {
                out.branches.push("position:decoded");
                let ok = (post.latf() - lat).abs() <= 1e-9 && (post.lonf() - lon).abs() <= 1e-9;
                if !ok {
                    out.complaints.push(("position-decode".into(), format!("position: reference global decode ({lat:.7},{lon:.7}), row shows ({:.7},{:.7})", post.latf(), post.lonf())));
                } else {
                    if post.pos_age != Some(0) {
                        out.complaints.push(("position-stamp".into(), format!("position time stamp age {:?} after a fresh decode", post.pos_age)));
                    }
                    if let Some((olat, olon)) = observer {
                        let want = cpr::haversine_km(lat, lon, olat, olon);
                        let ok = post.distf().is_some_and(|d| (d - want).abs() <= 1e-9 * want.max(1.0));
                        if !ok {
                            out.complaints.push(("distance".into(), format!("distance: expected {want:.6} km to the observer, row shows {:?}", post.distf())));
                        }
                    }
                }
            }
        },
    }
    out
}
