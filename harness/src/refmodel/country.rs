//! ICAO Annex 10 allocation blocks (DESIGN App. A), written independently of the
//! repository's prefix match. Anything outside every block is "??".

pub const TABLE: &str = r#"
004000-0043FF ZW  006000-006FFF MZ  008000-00FFFF ZA  010000-017FFF EG  018000-01FFFF LY
020000-027FFF MA  028000-02FFFF TN  030000-0303FF BW  032000-032FFF BI  034000-034FFF CM
035000-0353FF KM  036000-036FFF CG  038000-038FFF CI  03E000-03EFFF GA  040000-040FFF ET
042000-042FFF GQ  044000-044FFF GH  046000-046FFF GN  048000-0483FF GW  04A000-04A3FF LS
04C000-04CFFF KE  050000-050FFF LR  054000-054FFF MG  058000-058FFF MW  05A000-05A3FF MV
05C000-05CFFF ML  05E000-05E3FF MR  060000-0603FF MU  062000-062FFF NE  064000-064FFF NG
068000-068FFF UG  06A000-06A3FF QA  06C000-06CFFF CF  06E000-06EFFF RW  070000-070FFF SN
074000-0743FF SC  076000-0763FF SL  078000-078FFF SO  07A000-07A3FF SZ  07C000-07CFFF SD
080000-080FFF TZ  084000-084FFF TD  088000-088FFF TG  08A000-08AFFF ZM  08C000-08CFFF CD
090000-090FFF AO  094000-0943FF BJ  096000-0963FF CV  098000-0983FF DJ  09A000-09AFFF GM
09C000-09CFFF BF  09E000-09E3FF ST  0A0000-0A7FFF DZ  0A8000-0A8FFF BS  0AA000-0AA3FF BB
0AB000-0AB3FF BZ  0AC000-0ACFFF CO  0AE000-0AEFFF CR  0B0000-0B0FFF CU  0B2000-0B2FFF SV
0B4000-0B4FFF GT  0B6000-0B6FFF GY  0B8000-0B8FFF HT  0BA000-0BAFFF HN  0BC000-0BC3FF VC
0BE000-0BEFFF JM  0C0000-0C0FFF NI  0C2000-0C2FFF PA  0C4000-0C4FFF DO  0C6000-0C6FFF TT
0C8000-0C8FFF SR  0CA000-0CA3FF AG  0CC000-0CC3FF GD  0D0000-0D7FFF MX  0D8000-0DFFFF VE
100000-1FFFFF RU  201000-2013FF NA  202000-2023FF ER  300000-33FFFF IT  340000-37FFFF ES
380000-3BFFFF FR  3C0000-3FFFFF DE  400000-43FFFF GB  440000-447FFF AT  448000-44FFFF BE
450000-457FFF BG  458000-45FFFF DK  460000-467FFF FI  468000-46FFFF GR  470000-477FFF HU
478000-47FFFF NO  480000-487FFF NL  488000-48FFFF PL  490000-497FFF PT  498000-49FFFF CZ
4A0000-4A7FFF RO  4A8000-4AFFFF SE  4B0000-4B7FFF CH  4B8000-4BFFFF TR  4C0000-4C7FFF YU
4C8000-4C83FF CY  4CA000-4CAFFF IE  4CC000-4CCFFF IS  4D0000-4D03FF LU  4D2000-4D2FFF MT
4D4000-4D43FF MC  500000-5003FF SM  501000-5013FF AL  501C00-501FFF HR  502C00-502FFF LV
503C00-503FFF LT  504C00-504FFF MD  505C00-505FFF SK  506C00-506FFF SI  507C00-507FFF UZ
508000-50FFFF UA  510000-5103FF BY  511000-5113FF EE  512000-5123FF MK  513000-5133FF BA
514000-5143FF GE  515000-5153FF TJ  600000-6003FF AM  600800-600BFF AZ  601000-6013FF KG
601800-601BFF TM  680000-6803FF BT  681000-6813FF FM  682000-6823FF MN  683000-6833FF KZ
684000-6843FF PW  700000-700FFF AF  702000-702FFF BD  704000-704FFF MM  706000-706FFF KW
708000-708FFF LA  70A000-70AFFF NP  70C000-70C3FF OM  70E000-70EFFF KH  710000-717FFF SA
718000-71FFFF KR  720000-727FFF KP  728000-72FFFF IQ  730000-737FFF IR  738000-73FFFF IL
740000-747FFF JO  748000-74FFFF LB  750000-757FFF MY  758000-75FFFF PH  760000-767FFF PK
768000-76FFFF SG  770000-777FFF LK  778000-77FFFF SY  780000-7BFFFF CN  7C0000-7FFFFF AU
800000-83FFFF IN  840000-87FFFF JP  880000-887FFF TH  888000-88FFFF VN  890000-890FFF YE
894000-894FFF BH  895000-8953FF BN  896000-896FFF AE  897000-8973FF SB  898000-898FFF PG
899000-8993FF ICAO2  8A0000-8A7FFF ID  900000-9003FF MH  901000-9013FF CK  902000-9023FF WS
A00000-AFFFFF US  C00000-C3FFFF CA  C80000-C87FFF NZ  C88000-C88FFF FJ  C8A000-C8A3FF NR
C8C000-C8C3FF LC  C8D000-C8D3FF TO  C8E000-C8E3FF KI  C90000-C903FF VU  E00000-E3FFFF AR
E40000-E7FFFF BR  E80000-E80FFF CL  E84000-E84FFF EC  E88000-E88FFF PY  E8C000-E8CFFF PE
E90000-E90FFF UY  E94000-E94FFF BO  F00000-F07FFF ICAO1  F09000-F093FF ICAO2
"#;

#[derive(Clone, Debug)]
pub struct Block {
    pub lo: u32,
    pub hi: u32,
    pub code: String,
}

pub fn blocks() -> Vec<Block> {
    let mut v = vec![];
    let toks: Vec<&str> = TABLE.split_whitespace().collect();
    let mut i = 0;
    while i + 1 < toks.len() {
        let (a, b) = toks[i].split_once('-').expect("range");
        v.push(Block { lo: u32::from_str_radix(a, 16).unwrap(), hi: u32::from_str_radix(b, 16).unwrap(), code: toks[i + 1].to_string() });
        i += 2;
    }
    v.sort_by_key(|b| b.lo);
    v
}

/// dense lookup: index of the block for every address (u8::MAX = none)
pub struct Lookup {
    pub blocks: Vec<Block>,
    pub starts: Vec<u32>,
}

impl Lookup {
    pub fn new() -> Lookup {
        let blocks = blocks();
        let starts = blocks.iter().map(|b| b.lo).collect();
        Lookup { blocks, starts }
    }
    pub fn code(&self, addr: u32) -> &str {
        let i = self.starts.partition_point(|&s| s <= addr);
        if i == 0 {
            return "??";
        }
        let b = &self.blocks[i - 1];
        if addr <= b.hi { &b.code } else { "??" }
    }
    pub fn block_index(&self, addr: u32) -> Option<usize> {
        let i = self.starts.partition_point(|&s| s <= addr);
        if i == 0 {
            return None;
        }
        if addr <= self.blocks[i - 1].hi { Some(i - 1) } else { None }
    }
}

pub fn self_test() -> Result<(), String> {
    let b = blocks();
    if b.len() < 180 {
        return Err(format!("country table has only {} blocks", b.len()));
    }
    for w in b.windows(2) {
        if w[0].hi >= w[1].lo {
            return Err(format!("blocks overlap: {:06X}-{:06X} and {:06X}-{:06X}", w[0].lo, w[0].hi, w[1].lo, w[1].hi));
        }
    }
    for x in &b {
        let size = x.hi - x.lo + 1;
        if !size.is_power_of_two() || x.lo % size != 0 {
            return Err(format!("block {:06X}-{:06X} is not aligned to its size", x.lo, x.hi));
        }
        if ![1u32 << 20, 1 << 18, 1 << 15, 1 << 12, 1 << 10].contains(&size) {
            return Err(format!("block {:06X}-{:06X} has unusual size", x.lo, x.hi));
        }
    }
    Ok(())
}
