//! Reference for Comm-B registers (C10): gating, validity (status / reserved bits),
//! plausibility and Doc 9871 field decoding, written from the MB layouts of DESIGN App. B.
//! MB bit n (1-based) is bit n of the 56-bit MB field.

use crate::refmodel::fields;
use crate::snap::Snap;

pub fn mbget(mb: u64, start: u32, len: u32) -> u64 {
    (mb >> (56 - (start + len - 1))) & ((1u64 << len) - 1)
}
fn bit(mb: u64, n: u32) -> bool {
    mbget(mb, n, 1) == 1
}

/// what a step may do to one group of fields
#[derive(Clone, Debug, PartialEq)]
pub enum Exp<T> {
    /// must stay exactly as it was
    Same,
    /// must become one of these
    Must(Vec<T>),
    /// unchanged, or one of these
    May(Vec<T>),
}

impl<T: PartialEq + Clone + std::fmt::Debug> Exp<T> {
    pub fn admits(&self, old: &T, new: &T) -> bool {
        match self {
            Exp::Same => old == new,
            Exp::Must(v) => v.contains(new),
            Exp::May(v) => old == new || v.contains(new),
        }
    }
    pub fn describe(&self) -> String {
        match self {
            Exp::Same => "unchanged".into(),
            Exp::Must(v) => format!("one of {v:?}"),
            Exp::May(v) => format!("unchanged or one of {v:?}"),
        }
    }
}

// ------------------------------------------------------------------ BDS 1,7

#[derive(Clone, Debug, PartialEq, Eq)]
pub struct Cap17 {
    pub flags: u32,
    pub b: [bool; 5], // 20 40 44 50 60
}
pub fn weak17(mb: u64) -> bool {
    mbget(mb, 29, 28) == 0
}
pub fn strong17(mb: u64) -> bool {
    weak17(mb) && bit(mb, 7) && mbget(mb, 25, 4) == 0
}
pub fn decode17(mb: u64) -> Cap17 {
    Cap17 { flags: mbget(mb, 1, 24) as u32, b: [bit(mb, 7), bit(mb, 9), bit(mb, 13), bit(mb, 16), bit(mb, 24)] }
}

// ------------------------------------------------------------------ BDS 2,0 / 3,0

pub fn is20(mb: u64) -> bool {
    mbget(mb, 1, 8) == 0x20
}
pub fn callsign20(mb: u64) -> String {
    let mut c = [0u32; 8];
    for (i, x) in c.iter_mut().enumerate() {
        *x = mbget(mb, 9 + 6 * i as u32, 6) as u32;
    }
    fields::callsign(&c)
}
pub fn is30(mb: u64) -> bool {
    mbget(mb, 1, 8) == 0x30
}
/// MTE (bit 28) -> multiple threats, else first ARA bit (bit 9) -> single threat
pub fn threat30(mb: u64) -> Option<char> {
    if bit(mb, 28) {
        Some('\u{2072}')
    } else if bit(mb, 9) {
        Some('\u{2071}')
    } else {
        None
    }
}
/// canonical well-formed 3,0 contents (only ARA bit 9 / MTE may be set)
pub fn canonical30(mb: u64) -> bool {
    is30(mb) && mbget(mb, 10, 18) == 0 && mbget(mb, 29, 28) == 0
}

// ------------------------------------------------------------------ BDS 4,0

/// status bits that guard a value field set, reserved bits zero
pub fn guard40(mb: u64) -> bool {
    bit(mb, 1) && bit(mb, 14) && bit(mb, 27) && mbget(mb, 40, 8) == 0 && mbget(mb, 52, 2) == 0
}
pub fn all_status40(mb: u64) -> bool {
    guard40(mb) && bit(mb, 48) && bit(mb, 54)
}
pub fn plausible40(mb: u64) -> bool {
    all_status40(mb) && mbget(mb, 2, 12) != 0 && mbget(mb, 15, 12) != 0 && mbget(mb, 28, 12) != 0 && mbget(mb, 49, 3) != 0 && mbget(mb, 55, 2) != 0
}
pub fn sel_alts40(mb: u64) -> Vec<Option<u32>> {
    vec![Some(mbget(mb, 2, 12) as u32 * 16), Some(mbget(mb, 15, 12) as u32 * 16)]
}
pub fn baro40(mb: u64) -> Option<u32> {
    Some(mbget(mb, 28, 12) as u32 / 10 + 800)
}

// ------------------------------------------------------------------ BDS 5,0

pub fn valid50(mb: u64) -> bool {
    bit(mb, 1) && bit(mb, 12) && bit(mb, 24) && bit(mb, 35) && bit(mb, 46)
}
fn signed(mb: u64, sign_bit: u32, start: u32, len: u32) -> i64 {
    let v = mbget(mb, start, len) as i64;
    if bit(mb, sign_bit) { v - (1 << len) } else { v }
}
/// admissible integer renderings of x = num/den (floor and truncation)
fn adm(num: i64, den: i64) -> Vec<i32> {
    let fl = num.div_euclid(den) as i32;
    let tr = (num / den) as i32;
    if fl == tr { vec![fl] } else { vec![fl, tr] }
}
pub fn roll50(mb: u64) -> Vec<i32> {
    adm(signed(mb, 2, 3, 9) * 45, 256)
}
pub fn track50(mb: u64) -> u32 {
    let v = signed(mb, 13, 14, 10);
    let v = if v < 0 { v + 2048 } else { v }; // two's complement -> 0..2047 of 360/2048 deg
    (v * 90 / 512) as u32
}
pub fn gs50(mb: u64) -> u32 {
    mbget(mb, 25, 10) as u32 * 2
}
pub fn tar50(mb: u64) -> Vec<i32> {
    adm(signed(mb, 36, 37, 9) * 8, 256)
}
pub fn tas50(mb: u64) -> u32 {
    mbget(mb, 47, 10) as u32 * 2
}
pub fn plausible50(mb: u64) -> bool {
    plausible50_with(mb, 50.0)
}
/// the same with the roll limit applied to the truncated integer (|roll| < 51): the most permissive
/// reading of "|roll| <= 50", used where a permissive reading makes the oracle more lenient
pub fn plausible50_lenient(mb: u64) -> bool {
    plausible50_with(mb, 50.999_999)
}
fn plausible50_with(mb: u64, roll_limit: f64) -> bool {
    if !valid50(mb) {
        return false;
    }
    let nonzero = mbget(mb, 3, 9) != 0 && mbget(mb, 14, 10) != 0 && mbget(mb, 25, 10) != 0 && mbget(mb, 37, 9) != 0 && mbget(mb, 47, 10) != 0;
    let roll_exact = signed(mb, 2, 3, 9) as f64 * 45.0 / 256.0;
    let (gs, tas) = (gs50(mb) as i64, tas50(mb) as i64);
    nonzero && roll_exact.abs() <= roll_limit && gs <= 600 && tas <= 500 && (gs - tas).abs() < 200
}

// ------------------------------------------------------------------ BDS 6,0

pub fn valid60(mb: u64) -> bool {
    bit(mb, 1) && bit(mb, 13) && bit(mb, 24) && bit(mb, 35) && bit(mb, 46)
}
pub fn heading60(mb: u64) -> u32 {
    let v = signed(mb, 2, 3, 10);
    let v = if v < 0 { v + 2048 } else { v };
    (v * 90 / 512) as u32
}
pub fn ias60(mb: u64) -> u32 {
    mbget(mb, 14, 10) as u32
}
pub fn mach60(mb: u64) -> f64 {
    mbget(mb, 25, 10) as f64 * 2.048 / 512.0
}
pub fn baro_rate60(mb: u64) -> i32 {
    signed(mb, 36, 37, 9) as i32 * 32
}
pub fn ivv60(mb: u64) -> i32 {
    signed(mb, 47, 48, 9) as i32 * 32
}
pub fn plausible60(mb: u64) -> bool {
    if !valid60(mb) {
        return false;
    }
    let nonzero = mbget(mb, 3, 10) != 0 && mbget(mb, 14, 10) != 0 && mbget(mb, 25, 10) != 0 && mbget(mb, 37, 9) != 0 && mbget(mb, 48, 9) != 0;
    nonzero && mach60(mb) <= 1.0 && baro_rate60(mb).abs() <= 6000 && ivv60(mb).abs() <= 6000
}

// ------------------------------------------------------------------ the expectation for one DF20/21 reply

#[derive(Clone, Debug)]
pub struct MbExp {
    pub ais: Exp<Option<String>>,
    pub threat: Exp<Option<char>>,
    pub cap: Exp<Cap17>,
    pub sel_alt: Exp<Option<u32>>,
    pub baro: Exp<Option<u32>>,
    pub roll: Exp<Option<i32>>,
    pub track: Exp<Option<u32>>,
    pub tar: Exp<Option<i32>>,
    pub gs: Exp<Option<u32>>,
    pub tas: Exp<Option<u32>>,
    pub heading: Exp<Option<u32>>,
    pub ias: Exp<Option<u32>>,
    /// admissible Mach numbers (compared within 1e-9)
    pub mach: Exp<Option<u64>>,
    pub vrate: Exp<Option<i32>>,
    /// which branch of the oracle was taken (for coverage counters)
    pub branch: Vec<&'static str>,
}

impl MbExp {
    pub fn all_same() -> MbExp {
        MbExp {
            ais: Exp::Same,
            threat: Exp::Same,
            cap: Exp::Same,
            sel_alt: Exp::Same,
            baro: Exp::Same,
            roll: Exp::Same,
            track: Exp::Same,
            tar: Exp::Same,
            gs: Exp::Same,
            tas: Exp::Same,
            heading: Exp::Same,
            ias: Exp::Same,
            mach: Exp::Same,
            vrate: Exp::Same,
            branch: vec![],
        }
    }
}

fn mk<T>(must: bool, v: Vec<T>) -> Exp<T> {
    if must { Exp::Must(v) } else { Exp::May(v) }
}

/// Expected effect of the MB field of a DF20/21 reply applied to the *existing* row `pre`.
pub fn expect_mb(pre: &Snap, relaxed: bool, mb: u64) -> MbExp {
    let mut e = MbExp::all_same();
    if !(relaxed || pre.ca >= 4) {
        e.branch.push("gate:capability-closed");
        return e;
    }
    let coded = matches!(mbget(mb, 1, 8), 0x10 | 0x20 | 0x30);
    if is20(mb) {
        let cs = callsign20(mb);
        if cs.is_empty() {
            e.ais = Exp::May(vec![Some(String::new()), None]);
        } else {
            e.ais = Exp::Must(vec![Some(cs)]);
        }
        e.branch.push("2,0");
    }
    if is30(mb) {
        e.threat = mk(canonical30(mb), vec![threat30(mb)]);
        e.branch.push("3,0");
    }
    if weak17(mb) {
        e.cap = mk(strong17(mb) && !coded, vec![decode17(mb)]);
        e.branch.push(if strong17(mb) && !coded { "1,7:must" } else { "1,7:may" });
    }
    let g40 = relaxed || pre.cap[1];
    let g50 = relaxed || pre.cap[3];
    let g60 = relaxed || pre.cap[4];
    if guard40(mb) {
        if g40 {
            let must = plausible40(mb) && !strong17(mb) && !coded;
            e.sel_alt = mk(must, sel_alts40(mb));
            e.baro = mk(must, vec![baro40(mb)]);
            e.branch.push(if must { "4,0:must" } else { "4,0:may" });
        } else {
            e.branch.push("gate:4,0-not-advertised");
        }
    }
    // "satisfies the rules of an earlier register" = that register in the statement's own sense
    // (every status bit set, every value field non-zero, within the plausible range)
    let mut must50 = false;
    if valid50(mb) {
        if g50 {
            let must = plausible50(mb) && !strong17(mb) && !plausible40(mb) && !coded;
            must50 = must;
            e.roll = mk(must, roll50(mb).into_iter().map(Some).collect());
            e.track = mk(must, vec![Some(track50(mb))]);
            e.tar = mk(must, tar50(mb).into_iter().map(Some).collect());
            e.gs = mk(must, vec![Some(gs50(mb))]);
            e.tas = mk(must, vec![Some(tas50(mb))]);
            e.branch.push(if must { "5,0:must" } else { "5,0:may" });
        } else {
            e.branch.push("gate:5,0-not-advertised");
        }
    }
    if valid60(mb) {
        if must50 {
            // the reply has to be decoded as BDS 5,0 (earlier in the precedence): it is not also a 6,0
            e.branch.push("6,0:superseded-by-5,0");
        } else if g60 {
            let earlier = strong17(mb) || plausible40(mb) || plausible50_lenient(mb);
            let must = plausible60(mb) && !earlier && !coded;
            e.heading = mk(must, vec![Some(heading60(mb))]);
            e.ias = mk(must, vec![Some(ias60(mb))]);
            e.mach = mk(must, vec![Some(mach60(mb).to_bits())]);
            e.vrate = mk(must, vec![Some(baro_rate60(mb)), Some(ivv60(mb))]);
            e.branch.push(if must { "6,0:must" } else { "6,0:may" });
        } else {
            e.branch.push("gate:6,0-not-advertised");
        }
    }
    if e.branch.is_empty() {
        e.branch.push("no-register-valid");
    }
    e
}

/// compare one step against the expectation; returns the list of offending fields
pub fn check_mb(e: &MbExp, pre: &Snap, post: &Snap) -> Vec<String> {
    let mut bad = vec![];
    macro_rules! chk {
        ($name:expr, $exp:expr, $old:expr, $new:expr) => {
            if !$exp.admits(&$old, &$new) {
                bad.push(format!("{}: {:?} -> {:?}, expected {}", $name, $old, $new, $exp.describe()));
            }
        };
    }
    chk!("callsign", e.ais, pre.ais, post.ais);
    chk!("threat", e.threat, pre.threat, post.threat);
    let (oc, nc) = (Cap17 { flags: pre.cap_flags, b: pre.cap }, Cap17 { flags: post.cap_flags, b: post.cap });
    // bds20 flag of the row is set unconditionally by a BDS 1,7 report: compare the advertised registers
    let capcmp = |c: &Cap17| (c.flags, c.b[1], c.b[2], c.b[3], c.b[4]);
    let cap_ok = match &e.cap {
        Exp::Same => capcmp(&oc) == capcmp(&nc),
        Exp::Must(v) => v.iter().any(|x| capcmp(x) == capcmp(&nc)),
        Exp::May(v) => capcmp(&oc) == capcmp(&nc) || v.iter().any(|x| capcmp(x) == capcmp(&nc)),
    };
    if !cap_ok {
        bad.push(format!("capability report: {:?} -> {:?}, expected {}", oc, nc, e.cap.describe()));
    }
    chk!("selected altitude", e.sel_alt, pre.selected_altitude, post.selected_altitude);
    chk!("pressure setting", e.baro, pre.baro_setting, post.baro_setting);
    chk!("roll", e.roll, pre.roll, post.roll);
    chk!("track", e.track, pre.track, post.track);
    chk!("track angle rate", e.tar, pre.tar, post.tar);
    chk!("ground speed", e.gs, pre.grspeed, post.grspeed);
    chk!("true airspeed", e.tas, pre.tas, post.tas);
    chk!("heading", e.heading, pre.heading, post.heading);
    chk!("indicated airspeed", e.ias, pre.ias, post.ias);
    // Mach within 1e-9
    let mach_ok = |exp: &Vec<Option<u64>>, new: Option<u64>| exp.iter().any(|x| match (x, new) {
        (Some(a), Some(b)) => (f64::from_bits(*a) - f64::from_bits(b)).abs() < 1e-9,
        (None, None) => true,
        _ => false,
    });
    let m_ok = match &e.mach {
        Exp::Same => pre.mach == post.mach,
        Exp::Must(v) => mach_ok(v, post.mach),
        Exp::May(v) => pre.mach == post.mach || mach_ok(v, post.mach),
    };
    if !m_ok {
        bad.push(format!("Mach: {:?} -> {:?}, expected {:?}", pre.mach.map(f64::from_bits), post.mach.map(f64::from_bits), match &e.mach { Exp::Same => "unchanged".to_string(), Exp::Must(v) | Exp::May(v) => format!("{:?}", v.iter().map(|x| x.map(f64::from_bits)).collect::<Vec<_>>()) }));
    }
    chk!("vertical rate", e.vrate, pre.vrate, post.vrate);
    bad
}
