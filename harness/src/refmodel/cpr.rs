//! Reference CPR (DO-260B): encoder used to produce frames of known true position,
//! global decoder and the even/odd pairing machine of C08. NL from the closed formula.

use std::f64::consts::PI;

pub const NB: f64 = 131072.0; // 2^17

pub fn nl(lat: f64) -> i32 {
    let lat = lat.abs();
    if lat == 0.0 {
        return 59;
    }
    if lat == 87.0 {
        return 2;
    }
    if lat > 87.0 {
        return 1;
    }
    let a = 1.0 - (PI / 30.0).cos();
    let c = (PI / 180.0 * lat).cos();
    let x = 1.0 - a / (c * c);
    (2.0 * PI / x.acos()).floor() as i32
}

/// transition latitudes: NL changes from n to n-1 at lat_n (n = 59..2)
pub fn nl_transition(n: i32) -> f64 {
    let a = 1.0 - (PI / 30.0).cos();
    let b = 1.0 - (2.0 * PI / n as f64).cos();
    (180.0 / PI) * (a / b).sqrt().acos()
}

fn fmod(a: f64, b: f64) -> f64 {
    a - b * (a / b).floor()
}

/// encode a true position; `odd` selects the format (i = 1)
pub fn encode(lat: f64, lon: f64, odd: bool) -> (u32, u32) {
    let i = if odd { 1.0 } else { 0.0 };
    let dlat = 360.0 / (60.0 - i);
    let yz = (NB * fmod(lat, dlat) / dlat + 0.5).floor();
    let rlat = dlat * (yz / NB + (lat / dlat).floor());
    let nlv = nl(rlat) - if odd { 1 } else { 0 };
    let dlon = 360.0 / (nlv.max(1) as f64);
    let xz = (NB * fmod(lon, dlon) / dlon + 0.5).floor();
    ((yz as i64).rem_euclid(131072) as u32, (xz as i64).rem_euclid(131072) as u32)
}

#[derive(Clone, Copy, Debug, PartialEq)]
pub enum Decode {
    Pos(f64, f64),
    /// the two reconstructed latitudes lie in different NL zones
    ZoneMismatch,
}

/// globally unambiguous airborne decode anchored on the newer frame (`newer_odd`)
pub fn decode_global(even: (u32, u32), odd: (u32, u32), newer_odd: bool) -> Decode {
    let (y0, x0) = (even.0 as f64, even.1 as f64);
    let (y1, x1) = (odd.0 as f64, odd.1 as f64);
    let j = ((59.0 * y0 - 60.0 * y1) / NB + 0.5).floor();
    let mut rlat0 = (360.0 / 60.0) * (fmod(j, 60.0) + y0 / NB);
    let mut rlat1 = (360.0 / 59.0) * (fmod(j, 59.0) + y1 / NB);
    if rlat0 >= 270.0 {
        rlat0 -= 360.0;
    }
    if rlat1 >= 270.0 {
        rlat1 -= 360.0;
    }
    let (n0, n1) = (nl(rlat0), nl(rlat1));
    if n0 != n1 {
        return Decode::ZoneMismatch;
    }
    let n = n0;
    let m = ((x0 * (n - 1) as f64 - x1 * n as f64) / NB + 0.5).floor();
    let (lat, ni, xz) = if newer_odd { (rlat1, (n - 1).max(1), x1) } else { (rlat0, n.max(1), x0) };
    let mut lon = (360.0 / ni as f64) * (fmod(m, ni as f64) + xz / NB);
    if lon >= 180.0 {
        lon -= 360.0;
    }
    Decode::Pos(lat, lon)
}

/// min |lat - transition| over all NL transitions (both hemispheres)
pub fn dist_to_nl_transition(lat: f64) -> f64 {
    let a = lat.abs();
    let mut best = (a - 87.0).abs();
    for n in 2..=59 {
        best = best.min((a - nl_transition(n)).abs());
    }
    best
}

pub fn haversine_km(lat1: f64, lon1: f64, lat2: f64, lon2: f64) -> f64 {
    let r = 6371.0;
    let (p1, p2) = (lat1.to_radians(), lat2.to_radians());
    let dphi = (lat2 - lat1).to_radians();
    let dl = (lon2 - lon1).to_radians();
    let a = (dphi / 2.0).sin().powi(2) + p1.cos() * p2.cos() * (dl / 2.0).sin().powi(2);
    2.0 * r * a.sqrt().asin()
}

pub fn self_test() -> Result<(), String> {
    // NL table spot values and monotonicity
    if nl(0.0) != 59 || nl(10.0) != 59 || nl(10.5) != 58 || nl(52.0) != 36 || nl(86.9) != 2 || nl(87.1) != 1 || nl(-52.0) != 36 {
        return Err("NL closed formula gives unexpected values".into());
    }
    for n in 2..=59 {
        let t = nl_transition(n);
        if nl(t - 1e-6) != n || nl(t + 1e-6) != n - 1 {
            return Err(format!("NL transition {n} at {t} inconsistent: {} / {}", nl(t - 1e-6), nl(t + 1e-6)));
        }
    }
    // decode(encode(p)) within quantisation on a lattice
    let mut lat = -86.5;
    while lat < 87.0 {
        for lon in [-179.9, -120.3, -0.0001, 0.0001, 10.5, 90.0, 179.9] {
            if dist_to_nl_transition(lat) < 0.01 {
                continue;
            }
            let e = encode(lat, lon, false);
            let o = encode(lat, lon, true);
            for newer_odd in [false, true] {
                match decode_global(e, o, newer_odd) {
                    Decode::Pos(la, lo) => {
                        let d = haversine_km(lat, lon, la, lo);
                        if d > 0.02 {
                            return Err(format!("CPR round trip off by {d} km at ({lat},{lon}) -> ({la},{lo})"));
                        }
                    }
                    Decode::ZoneMismatch => return Err(format!("CPR round trip: zone mismatch at ({lat},{lon})")),
                }
            }
        }
        lat += 0.37;
    }
    // textbook example (1090MHz riddle): even 93000/51372, odd 74158/50194 -> 52.2572, 3.91937 (even newer)
    match decode_global((93000, 51372), (74158, 50194), false) {
        Decode::Pos(la, lo) if (la - 52.25720).abs() < 1e-4 && (lo - 3.91937).abs() < 1e-4 => {}
        other => return Err(format!("CPR textbook example decodes to {other:?}")),
    }
    Ok(())
}
