//! Reference line-acceptance rule (C02/C03/C04), from the statements.

use crate::frames::Frame;

#[derive(Clone, Debug, PartialEq, Eq, Hash)]
pub enum Verdict {
    /// not taken as a frame
    NotAFrame(&'static str),
    /// a frame of a supported format with this address (0 = dropped)
    Frame { df: u32, addr: u32 },
    /// a well-formed frame of a format the statements do not define an address for
    OtherFormat { df: u32 },
}

pub fn hex_digits(line: &[u8]) -> Vec<u8> {
    // characters, not bytes: only ASCII hex digits count (a multi-byte char is never a digit)
    line.iter().copied().filter(|b| b.is_ascii_hexdigit()).collect()
}

pub fn classify_digits(d: &[u8]) -> Verdict {
    let frame_digits: &[u8] = match d.len() {
        14 | 28 => d,
        26 | 40 => &d[12..],
        _ => return Verdict::NotAFrame("digit count"),
    };
    let s = std::str::from_utf8(frame_digits).unwrap();
    let f = Frame::from_hex(s).unwrap();
    let df = f.df();
    if (df >= 16) != (f.nbits == 112) {
        return Verdict::NotAFrame("length does not match DF");
    }
    match df {
        17 | 18 => {
            if f.remainder() != 0 {
                return Verdict::NotAFrame("parity");
            }
            Verdict::Frame { df, addr: f.get(9, 24) as u32 }
        }
        11 => {
            if f.remainder() & 0xFFFF80 != 0 {
                return Verdict::NotAFrame("parity");
            }
            Verdict::Frame { df, addr: f.get(9, 24) as u32 }
        }
        0 | 4 | 5 | 16 | 20 | 21 => Verdict::Frame { df, addr: f.remainder() },
        _ => Verdict::OtherFormat { df },
    }
}

pub fn classify_line(line: &[u8]) -> Verdict {
    classify_digits(&hex_digits(line))
}
