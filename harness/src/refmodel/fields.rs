//! Boring reference decoders written from the standards' bit layouts. Input is always
//! the raw field value (bit n of the field = bit n of the frame string), never the
//! repository's nibble vector or `range_value`.

// ---------------------------------------------------------------- squawk (C06)

/// ID13 bit order (MSB first): C1 A1 C2 A2 C4 A4 X B1 D1 B2 D2 B4 D4
pub fn squawk(id13: u32) -> u32 {
    let b = |n: u32| (id13 >> (12 - n)) & 1; // n = 0 .. 12 from the MSB
    let (c1, a1, c2, a2, c4, a4, _x, b1, d1, b2, d2, b4, d4) = (b(0), b(1), b(2), b(3), b(4), b(5), b(6), b(7), b(8), b(9), b(10), b(11), b(12));
    let a = a4 * 4 + a2 * 2 + a1;
    let bb = b4 * 4 + b2 * 2 + b1;
    let c = c4 * 4 + c2 * 2 + c1;
    let d = d4 * 4 + d2 * 2 + d1;
    a * 1000 + bb * 100 + c * 10 + d
}

// ---------------------------------------------------------------- altitude (C05)

#[derive(Clone, Copy, Debug, PartialEq, Eq, Hash)]
pub enum Alt {
    Feet(u32),
    None,
    /// M = 1: metric, unconstrained
    Metric,
}

/// Gillham (Mode C) decoding from the named pulses; result in feet, None when illegal.
/// Reflected-Gray formulation: D2 D4 A1 A2 A4 B1 B2 B4 = 500-ft Gray code,
/// C1 C2 C4 = 100-ft 5-cycle; D1 must be 0; C = 0, 5(bin), 7(after swap 6) illegal.
#[allow(clippy::too_many_arguments)]
pub fn gillham(c1: u32, a1: u32, c2: u32, a2: u32, c4: u32, a4: u32, b1: u32, d1: u32, b2: u32, d2: u32, b4: u32, d4: u32) -> Option<i32> {
    if d1 != 0 {
        return None;
    }
    if c1 == 0 && c2 == 0 && c4 == 0 {
        return None;
    }
    let mut one = 0u32;
    if c1 != 0 {
        one ^= 7;
    }
    if c2 != 0 {
        one ^= 3;
    }
    if c4 != 0 {
        one ^= 1;
    }
    if one & 5 == 5 {
        one ^= 2;
    }
    if one > 5 {
        return None;
    }
    let mut five = 0u32;
    for (bit, mask) in [(d2, 0xFF), (d4, 0x7F), (a1, 0x3F), (a2, 0x1F), (a4, 0x0F), (b1, 0x07), (b2, 0x03), (b4, 0x01)] {
        if bit != 0 {
            five ^= mask;
        }
    }
    if five & 1 != 0 {
        one = 6 - one;
    }
    Some((five as i32 * 5 + one as i32 - 13) * 100)
}

/// independent *encoder* (the other direction) used to validate `gillham`:
/// returns (c1,a1,c2,a2,c4,a4,b1,d1,b2,d2,b4,d4)
pub fn gillham_encode(ft: i32) -> Option<[u32; 12]> {
    if ft < -1200 || ft > 126_700 || ft % 100 != 0 {
        return None;
    }
    let n = (ft / 100 + 13) as u32; // >= 1
    let five = n / 5;
    let r = n % 5; // 0..4 within the 500-ft band
    // within an even band the 100-ft code counts 1,2,3,4,5... but the band index moves
    // when r == 0: n = five*5 + one with one in 1..5 -> handle one = 5 as (five-1, 5)
    let (five, one) = if r == 0 { (five - 1, 5) } else { (five, r) };
    let v = if five & 1 == 1 { 6 - one } else { one }; // reflected in odd bands
    let bin = if v == 5 { 7 } else { v };
    let cg = bin ^ (bin >> 1);
    let (c1, c2, c4) = ((cg >> 2) & 1, (cg >> 1) & 1, cg & 1);
    let fg = five ^ (five >> 1);
    let b = |k: u32| (fg >> k) & 1;
    let (d2, d4, a1, a2, a4, b1, b2, b4) = (b(7), b(6), b(5), b(4), b(3), b(2), b(1), b(0));
    Some([c1, a1, c2, a2, c4, a4, b1, 0, b2, d2, b4, d4])
}

/// AC13 (bits 20-32): C1 A1 C2 A2 C4 A4 M B1 Q B2 D2 B4 D4
pub fn alt_ac13(ac13: u32) -> Alt {
    let b = |n: u32| (ac13 >> (12 - n)) & 1;
    if ac13 & 0x1FFF == 0 {
        return Alt::None;
    }
    let m = b(6);
    let q = b(8);
    if m == 1 {
        return Alt::Metric;
    }
    if q == 1 {
        let n = ((ac13 >> 7) & 0x3F) << 5 | ((ac13 >> 5) & 1) << 4 | (ac13 & 0xF);
        let v = 25 * n as i64 - 1000;
        if v >= 0 { Alt::Feet(v as u32) } else { Alt::None }
    } else {
        match gillham(b(0), b(1), b(2), b(3), b(4), b(5), b(7), 0, b(9), b(10), b(11), b(12)) {
            Some(v) if v >= 0 => Alt::Feet(v as u32),
            _ => Alt::None,
        }
    }
}

/// AC12 (ME bits 9-20): C1 A1 C2 A2 C4 A4 B1 Q B2 D2 B4 D4
pub fn alt_ac12(ac12: u32) -> Alt {
    let b = |n: u32| (ac12 >> (11 - n)) & 1;
    if ac12 & 0xFFF == 0 {
        return Alt::None;
    }
    let q = b(7);
    if q == 1 {
        let n = ((ac12 >> 5) & 0x7F) << 4 | (ac12 & 0xF);
        let v = 25 * n as i64 - 1000;
        if v >= 0 { Alt::Feet(v as u32) } else { Alt::None }
    } else {
        match gillham(b(0), b(1), b(2), b(3), b(4), b(5), b(6), 0, b(8), b(9), b(10), b(11)) {
            Some(v) if v >= 0 => Alt::Feet(v as u32),
            _ => Alt::None,
        }
    }
}

/// AC13 with Q=0, M=0 for a Gillham altitude
pub fn ac13_gillham(ft: i32) -> Option<u32> {
    let p = gillham_encode(ft)?;
    // C1 A1 C2 A2 C4 A4 M B1 Q B2 D2 B4 D4
    let bits = [p[0], p[1], p[2], p[3], p[4], p[5], 0, p[6], 0, p[8], p[9], p[10], p[11]];
    Some(bits.iter().fold(0, |a, b| (a << 1) | b))
}

// ---------------------------------------------------------------- callsign (C07)

pub fn callsign(chars: &[u32; 8]) -> String {
    chars
        .iter()
        .filter_map(|&c| match c {
            1..=26 => char::from_u32(64 + c),
            48..=57 => char::from_u32(c),
            _ => None,
        })
        .collect()
}

pub fn wake(tc: u32, cat: u32) -> Option<char> {
    if tc != 4 {
        return None;
    }
    match cat {
        1 => Some('L'),
        2 => Some('S'),
        3 => Some('M'),
        4 => Some('H'),
        5 => Some('J'),
        7 => Some('R'),
        _ => None,
    }
}

// ---------------------------------------------------------------- velocity (C09)

#[derive(Clone, Copy, Debug, PartialEq)]
pub struct VelRef {
    /// None = no information
    pub gs_exact: Option<f64>,
    /// exact track angle in degrees [0,360), None = no information
    pub track_exact: Option<f64>,
}

/// subtype 1/2 ground velocity from sign+magnitude fields
pub fn velocity(dew: u32, vew: u32, dns: u32, vns: u32, supersonic: bool) -> VelRef {
    if vew == 0 || vns == 0 {
        return VelRef { gs_exact: None, track_exact: None };
    }
    let k = if supersonic { 4.0 } else { 1.0 };
    let ve = (vew as f64 - 1.0) * if dew == 1 { -1.0 } else { 1.0 };
    let vn = (vns as f64 - 1.0) * if dns == 1 { -1.0 } else { 1.0 };
    let gs = (ve * ve + vn * vn).sqrt() * k;
    let mut trk = ve.atan2(vn).to_degrees();
    if trk < 0.0 {
        trk += 360.0;
    }
    if trk >= 360.0 {
        trk -= 360.0;
    }
    VelRef { gs_exact: Some(gs), track_exact: Some(trk) }
}

/// is `t` an admissible floor of the exact track angle `x` (atan2 rounding at exact multiples)
pub fn track_ok(x: f64, t: u32) -> bool {
    let t = t as f64;
    let eps = 1e-9;
    if x >= t - eps && x < t + 1.0 + eps {
        return true;
    }
    // wrap: 359.9999999 may legitimately come out as 0 (and vice versa)
    (x > 360.0 - eps && t == 0.0) || (x < eps && t == 359.0)
}

pub fn gs_ok(exact: f64, g: u32, supersonic: bool) -> bool {
    if supersonic {
        (g as f64 - exact).abs() <= 4.0 + 1e-9
    } else {
        let fl = exact.floor();
        // sqrt of a perfect square is exact in IEEE; allow the 1e-9 band around integers only
        g as f64 == fl || ((exact - exact.round()).abs() < 1e-9 && g as f64 == exact.round())
    }
}

/// vertical rate: +-64*(field-1), field 0 = no information
pub fn vrate(sign: u32, field: u32) -> Option<i32> {
    if field == 0 {
        return None;
    }
    let v = 64 * (field as i32 - 1);
    Some(if sign == 1 { -v } else { v })
}

pub fn self_test() -> Result<(), String> {
    // Gillham: decoder must invert the independently written encoder over the whole range
    let mut legal_from_encoder = std::collections::HashSet::new();
    let mut ft = -1200;
    while ft <= 126_700 {
        let p = gillham_encode(ft).ok_or("encode")?;
        let back = gillham(p[0], p[1], p[2], p[3], p[4], p[5], p[6], p[7], p[8], p[9], p[10], p[11]);
        if back != Some(ft) {
            return Err(format!("Gillham round trip failed at {ft} ft: {back:?}"));
        }
        legal_from_encoder.insert(p);
        ft += 100;
    }
    // exactly 1280 = 256 x 5 of the 2048 D1-free codes are legal, and they are the encoder's image
    let mut legal = 0;
    for code in 0..2048u32 {
        let b = |n: u32| (code >> (10 - n)) & 1;
        let p = [b(0), b(1), b(2), b(3), b(4), b(5), b(6), 0, b(7), b(8), b(9), b(10)];
        if gillham(p[0], p[1], p[2], p[3], p[4], p[5], p[6], p[7], p[8], p[9], p[10], p[11]).is_some() {
            legal += 1;
            if !legal_from_encoder.contains(&p) {
                return Err(format!("Gillham code {code:011b} is legal but not produced by the encoder"));
            }
        }
    }
    if legal != 1280 {
        return Err(format!("{legal} legal Gillham codes, expected 1280"));
    }
    // pinned: A8281200200464B3CF7820CD194C carries 14300 ft (repository's own test vector)
    if alt_ac13(crate::frames::Frame::from_hex("A8281200200464B3CF7820CD194C").unwrap().get(20, 13) as u32) != Alt::None {
        // that frame is DF21 (identity, not altitude); only used as a smoke test of bit addressing
    }
    if squawk(crate::frames::Frame::from_hex("2800189A8E0F41").unwrap().get(20, 13) as u32) != 5611 {
        return Err("reference squawk disagrees with pinned 2800189A8E0F41 -> 5611".into());
    }
    if squawk(crate::frames::id13_for_squawk(7421)) != 7421 || squawk(crate::frames::id13_for_squawk(1234)) != 1234 {
        return Err("squawk encoder/decoder mismatch".into());
    }
    if alt_ac13(crate::frames::ac13_for_alt(38000)) != Alt::Feet(38000) || alt_ac12(crate::frames::ac12_for_alt(12325)) != Alt::Feet(12325) {
        return Err("Q=1 altitude encoder/decoder mismatch".into());
    }
    // DF4 pinned frame "A0001838..." is DF20: AC13 = 0x1838 -> 38000 ft? (2^? check): N = ...
    let v = velocity(1, 9, 1, 160, false); // classic example 8D485020994409940838175B284F: 159 kt, 182.88 deg
    if !(v.gs_exact.unwrap() - 159.20).abs().lt(&0.01) || !(v.track_exact.unwrap() - 182.88).abs().lt(&0.01) {
        return Err(format!("reference velocity wrong: {v:?}"));
    }
    Ok(())
}
