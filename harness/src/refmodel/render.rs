//! Independent renderer for C14/C15: the expected column list per `-i` letters and the
//! expected cell content of every column for a row state. Cells are compared by value
//! (numbers parsed back, right-aligned; text exact, left-aligned; blank when unknown).

use crate::refmodel::fields;
use crate::snap::Snap;

#[derive(Clone, Debug, PartialEq)]
pub enum Cell {
    /// exact text, left-aligned
    Text(String),
    /// exact text, any alignment (single-character columns)
    Exact(String),
    Int(i64),
    /// value and the largest tolerated deviation is half a unit of the last printed digit
    Float(f64),
    Blank,
}

pub fn expected_columns(flags: &str) -> Vec<(&'static str, usize)> {
    let has = |c: char| flags.contains(c);
    let mut v: Vec<(&'static str, usize)> = vec![("ICAO", 6), ("RG", 2), ("SQWK", 4), ("W", 1), ("CALLSIGN", 8), ("LATITUDE", 9), ("LONGITUDE", 11), ("DIST", 5), ("ALT B", 5)];
    if has('A') {
        v.extend([("ALT G", 5), ("ALT S", 5), ("BARO", 4)]);
    }
    v.extend([("VRATE", 5), ("TRK", 3), ("HDG", 3), ("GSP", 3)]);
    if has('s') {
        v.extend([("TAS", 3), ("IAS", 3), ("MACH", 4)]);
    }
    if has('a') {
        v.extend([("RLL", 3), ("TAR", 3)]);
    }
    if has('w') {
        v.extend([("TEMP", 5), ("WND", 3), ("WDR", 3), ("HUM", 3), ("PRES", 4), ("TB", 2)]);
    }
    if has('e') {
        v.extend([("VX", 2), ("DF", 2), ("TC", 2), ("V", 1), ("S", 1), ("PTH", 3)]);
    }
    v.push(("LC", 2));
    v
}

/// (name, start char index, width) from the header and separator lines themselves
pub fn parse_header(header: &str, separator: &str) -> Result<Vec<(String, usize, usize)>, String> {
    let h: Vec<char> = header.trim_end_matches('\n').chars().collect();
    let s: Vec<char> = separator.trim_end_matches('\n').chars().collect();
    if h.len() != s.len() {
        return Err(format!("header is {} wide, separator {}", h.len(), s.len()));
    }
    let mut cols = vec![];
    let mut i = 0;
    while i < s.len() {
        if s[i] == '-' {
            let st = i;
            while i < s.len() && s[i] == '-' {
                i += 1;
            }
            let name: String = h[st..i].iter().collect();
            cols.push((name.trim().to_string(), st, i - st));
        } else if s[i] == ' ' {
            i += 1;
        } else {
            return Err(format!("unexpected character {:?} in the separator", s[i]));
        }
    }
    Ok(cols)
}

fn opt_int<T: Into<i64>>(v: Option<T>) -> Cell {
    match v {
        Some(x) => Cell::Int(x.into()),
        None => Cell::Blank,
    }
}

fn age_digit(a: Option<i64>) -> String {
    match a {
        Some(ms) => format!("{:X}", ((ms / 1000) / 10) & 15),
        None => " ".to_string(),
    }
}

/// expected content of the column `name` for row `r`
pub fn expected_cell(name: &str, r: &Snap) -> Cell {
    let pos_known = r.latf() != 0.0 && r.lonf() != 0.0;
    match name {
        "ICAO" => Cell::Text(format!("{:06X}", r.icao)),
        "RG" => Cell::Text(r.reg.clone()),
        "SQWK" => match r.squawk {
            Some(s) => Cell::Text(format!("{s:04}")),
            None => Cell::Blank,
        },
        "W" => match fields::wake(r.category.0, r.category.1) {
            Some(c) => Cell::Exact(c.to_string()),
            None => Cell::Blank,
        },
        "CALLSIGN" => match &r.ais {
            Some(a) if !a.is_empty() => Cell::Text(a.clone()),
            _ => Cell::Blank,
        },
        "LATITUDE" => {
            if pos_known {
                Cell::Float(r.latf())
            } else {
                Cell::Blank
            }
        }
        "LONGITUDE" => {
            if pos_known {
                Cell::Float(r.lonf())
            } else {
                Cell::Blank
            }
        }
        "DIST" => match r.distf() {
            Some(d) => Cell::Float(d),
            None => Cell::Blank,
        },
        "ALT B" => opt_int(r.altitude),
        "ALT G" => opt_int(r.altitude_gnss),
        "ALT S" => opt_int(r.selected_altitude),
        "BARO" => opt_int(r.baro_setting),
        "VRATE" => opt_int(r.vrate),
        "TRK" => opt_int(r.track),
        "HDG" => opt_int(r.heading),
        "GSP" => opt_int(r.grspeed),
        "TAS" => opt_int(r.tas),
        "IAS" => opt_int(r.ias),
        "MACH" => match r.mach {
            Some(m) => Cell::Float(f64::from_bits(m)),
            None => Cell::Blank,
        },
        "RLL" => opt_int(r.roll),
        "TAR" => opt_int(r.tar),
        "TEMP" => match r.temperature {
            Some(t) => Cell::Float(f64::from_bits(t)),
            None => Cell::Blank,
        },
        "WND" => opt_int(r.wind.map(|w| w.0)),
        "WDR" => opt_int(r.wind.map(|w| w.1)),
        "HUM" => opt_int(r.humidity),
        "PRES" => opt_int(r.pressure),
        "TB" => opt_int(r.turbulence),
        "VX" => Cell::Text(format!("{}{}", r.category.0, r.category.1)),
        "DF" => {
            if r.last_df != 0 {
                Cell::Int(r.last_df as i64)
            } else {
                Cell::Blank
            }
        }
        "TC" => {
            if r.last_tc != 0 {
                Cell::Int(r.last_tc as i64)
            } else {
                Cell::Blank
            }
        }
        "V" => opt_int(r.adsb_version),
        "S" => {
            if r.surveillance_status == ' ' {
                Cell::Blank
            } else {
                Cell::Exact(r.surveillance_status.to_string())
            }
        }
        "PTH" => {
            let s = format!("{}{}{}", age_digit(r.pos_age), age_digit(r.track_age), age_digit(r.heading_age));
            if s.trim().is_empty() { Cell::Blank } else { Cell::Exact(s) }
        }
        "LC" => Cell::Int(r.age / 1000),
        _ => Cell::Blank,
    }
}

/// does the printed cell show the expected content? (Ok(()) or a description)
pub fn cell_matches(cell: &str, want: &Cell, width: usize) -> Result<(), String> {
    let t = cell.trim();
    match want {
        Cell::Blank => {
            if t.is_empty() {
                Ok(())
            } else {
                Err(format!("expected blank, printed {cell:?}"))
            }
        }
        Cell::Text(s) => {
            if cell.trim_end() == s.as_str() || (s.chars().count() >= width && cell == s.chars().take(width).collect::<String>()) {
                Ok(())
            } else {
                Err(format!("expected text {s:?} left-aligned, printed {cell:?}"))
            }
        }
        Cell::Exact(s) => {
            if t == s.trim() && !s.trim().is_empty() || cell == s.as_str() {
                Ok(())
            } else {
                Err(format!("expected {s:?}, printed {cell:?}"))
            }
        }
        Cell::Int(v) => {
            if t.is_empty() {
                return Err(format!("expected {v}, printed blank"));
            }
            if cell.ends_with(' ') && t.len() < width {
                return Err(format!("number not right-aligned: {cell:?}"));
            }
            match t.parse::<i64>() {
                Ok(x) if x == *v => Ok(()),
                _ => Err(format!("expected {v}, printed {cell:?}")),
            }
        }
        Cell::Float(v) => {
            if t.is_empty() {
                return Err(format!("expected {v}, printed blank"));
            }
            if cell.ends_with(' ') && t.len() < width {
                return Err(format!("number not right-aligned: {cell:?}"));
            }
            let decimals = t.split_once('.').map(|(_, d)| d.len()).unwrap_or(0);
            match t.parse::<f64>() {
                Ok(x) if (x - v).abs() <= 0.5 * 10f64.powi(-(decimals as i32)) + 1e-9 => Ok(()),
                _ => Err(format!("expected {v}, printed {cell:?}")),
            }
        }
    }
}

/// does every value of the row fit its column? (width equality is only required then)
pub fn fits(cols: &[(String, usize, usize)], r: &Snap) -> bool {
    cols.iter().all(|(name, _, w)| match expected_cell(name, r) {
        Cell::Blank => true,
        Cell::Text(s) | Cell::Exact(s) => s.chars().count() <= *w,
        Cell::Int(v) => v.to_string().len() <= *w,
        Cell::Float(v) => {
            // integer part + '.' + the decimals the column is meant to show
            let dec = match name.as_str() {
                "LATITUDE" | "LONGITUDE" => 5,
                "MACH" => 2,
                _ => 1,
            };
            format!("{v:.dec$}").len() <= *w
        }
    })
}

/// Check one printed row against the header; returns complaints.
pub fn check_row(header: &str, separator: &str, row: &str, r: &Snap, flags: &str) -> Vec<String> {
    let mut out = vec![];
    let cols = match parse_header(header, separator) {
        Ok(c) => c,
        Err(e) => return vec![e],
    };
    let want_cols = expected_columns(flags);
    let got_names: Vec<(&str, usize)> = cols.iter().map(|(n, _, w)| (n.as_str(), *w)).collect();
    if got_names != want_cols {
        out.push(format!("header columns {got_names:?} do not match the -i letters {flags:?} (expected {want_cols:?})"));
        return out;
    }
    let rc: Vec<char> = row.chars().collect();
    let hw = header.trim_end_matches('\n').chars().count();
    let all_fit = fits(&cols, r);
    if all_fit && rc.len() != hw {
        out.push(format!("row is {} wide, header and separator {hw}", rc.len()));
    }
    if !all_fit {
        return out;
    }
    for (name, st, w) in &cols {
        if st + w > rc.len() {
            out.push(format!("row too short for column {name}"));
            break;
        }
        let cell: String = rc[*st..st + w].iter().collect();
        if let Err(e) = cell_matches(&cell, &expected_cell(name, r), *w) {
            out.push(format!("column {name}: {e}"));
        }
    }
    out
}
