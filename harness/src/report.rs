//! Worker partial results, merging, known findings, evidence and replay files.

use serde_json::{Map, Value, json};
use std::collections::{BTreeMap, BTreeSet, HashSet};
use std::hash::Hash;
use std::path::{Path, PathBuf};

pub const VERIF: &str = "/verif";

#[derive(Clone, Copy, Debug, PartialEq, Eq)]
pub enum Tier {
    Quick,
    Thorough,
}
impl Tier {
    pub fn name(&self) -> &'static str {
        match self {
            Tier::Quick => "quick",
            Tier::Thorough => "thorough",
        }
    }
    pub fn thorough(&self) -> bool {
        matches!(self, Tier::Thorough)
    }
}

#[derive(Clone, Debug)]
pub struct Violation {
    pub site: String,
    pub key: String,
    pub what: String,
    pub case: Value,
}

impl Violation {
    fn to_json(&self) -> Value {
        json!({"site": self.site, "key": self.key, "what": self.what, "case": self.case})
    }
    fn from_json(v: &Value) -> Option<Violation> {
        Some(Violation {
            site: v.get("site")?.as_str()?.to_string(),
            key: v.get("key")?.as_str()?.to_string(),
            what: v.get("what")?.as_str()?.to_string(),
            case: v.get("case")?.clone(),
        })
    }
}

// ------------------------------------------------------------------ known findings

#[derive(Clone, Debug)]
pub struct OpenFinding {
    pub property: String,
    pub site: String,
    pub keys: Option<HashSet<String>>, // None = every key of that site (closed predicate)
    pub text: String,
}

#[derive(Clone, Debug, Default)]
pub struct Findings {
    pub open: Vec<OpenFinding>,
    pub fixed: Vec<String>,
}

impl Findings {
    /// Read-only: never written at run time.
    pub fn load(property: &str) -> Findings {
        let mut f = Findings::default();
        let p = Path::new(VERIF).join("KNOWN_FINDINGS.txt");
        let Ok(txt) = std::fs::read_to_string(&p) else { return f };
        for line in txt.lines() {
            let line = line.trim();
            if line.is_empty() || line.starts_with('#') {
                continue;
            }
            if let Some(rest) = line.strip_prefix("fixed:") {
                if rest.contains(&format!("property={property} ")) {
                    f.fixed.push(rest.trim().to_string());
                }
                continue;
            }
            if let Some(rest) = line.strip_prefix("open:") {
                let (head, text) = rest.split_once("::").unwrap_or((rest, ""));
                let mut prop = "";
                let mut site = "";
                let mut keys = "";
                for tok in head.split_whitespace() {
                    if let Some(v) = tok.strip_prefix("property=") {
                        prop = v;
                    } else if let Some(v) = tok.strip_prefix("site=") {
                        site = v;
                    } else if let Some(v) = tok.strip_prefix("keys=") {
                        keys = v;
                    }
                }
                if prop != property {
                    continue;
                }
                let keyset = if keys == "*" || keys.is_empty() {
                    None
                } else {
                    let kp = Path::new(VERIF).join(keys);
                    let body = std::fs::read_to_string(&kp).unwrap_or_else(|e| {
                        eprintln!("machinery: cannot read key set {}: {e}", kp.display());
                        std::process::exit(2)
                    });
                    Some(body.lines().map(|l| l.trim().to_string()).filter(|l| !l.is_empty() && !l.starts_with('#')).collect())
                };
                f.open.push(OpenFinding { property: prop.into(), site: site.into(), keys: keyset, text: text.trim().into() });
            }
        }
        f
    }

    /// index of the open finding that lists this violation, if any
    pub fn matches(&self, site: &str, key: &str) -> Option<usize> {
        self.open.iter().position(|o| {
            let site_ok = match o.site.strip_suffix('*') {
                Some(prefix) => site.starts_with(prefix),
                None => o.site == site,
            };
            site_ok && o.keys.as_ref().is_none_or(|k| k.contains(key))
        })
    }
}

// ------------------------------------------------------------------ partial result of one worker

pub const MAX_KEPT_PER_SITE: usize = 6;

#[derive(Default)]
pub struct Partial {
    pub evals: u64,
    pub transitions: u64,
    pub traces_validated: u64,
    pub counters: BTreeMap<String, u64>,
    pub outcomes: HashSet<u64>,
    pub states: HashSet<u64>,
    pub samples: Vec<Value>,
    pub outcome_samples: BTreeMap<String, Value>,
    pub violations: Vec<Violation>,
    pub viol_by_site: BTreeMap<String, u64>,
    pub known_hits: BTreeMap<usize, u64>,
    pub notes: BTreeSet<String>,
    pub bounds: BTreeMap<String, String>,
    pub machinery_errors: Vec<String>,
    pub exhaustive: bool,
}

impl Partial {
    pub fn to_json(&self) -> Value {
        json!({
            "evals": self.evals, "transitions": self.transitions, "traces_validated": self.traces_validated,
            "counters": self.counters,
            "outcomes": self.outcomes.iter().collect::<Vec<_>>(),
            "states": self.states.iter().collect::<Vec<_>>(),
            "samples": self.samples,
            "outcome_samples": self.outcome_samples,
            "violations": self.violations.iter().map(|v| v.to_json()).collect::<Vec<_>>(),
            "viol_by_site": self.viol_by_site,
            "known_hits": self.known_hits.iter().map(|(k, v)| (k.to_string(), *v)).collect::<BTreeMap<String, u64>>(),
            "notes": self.notes, "bounds": self.bounds, "machinery_errors": self.machinery_errors,
            "exhaustive": self.exhaustive,
        })
    }

    pub fn merge_json(&mut self, v: &Value) {
        let g = |k: &str| v.get(k).and_then(|x| x.as_u64()).unwrap_or(0);
        self.evals += g("evals");
        self.transitions += g("transitions");
        self.traces_validated += g("traces_validated");
        if let Some(m) = v.get("counters").and_then(|x| x.as_object()) {
            for (k, x) in m {
                *self.counters.entry(k.clone()).or_insert(0) += x.as_u64().unwrap_or(0);
            }
        }
        for (name, set) in [("outcomes", &mut self.outcomes), ("states", &mut self.states)] {
            if let Some(a) = v.get(name).and_then(|x| x.as_array()) {
                for x in a {
                    if let Some(h) = x.as_u64() {
                        set.insert(h);
                    }
                }
            }
        }
        if let Some(a) = v.get("samples").and_then(|x| x.as_array()) {
            for x in a {
                if self.samples.len() < 12 {
                    self.samples.push(x.clone());
                }
            }
        }
        if let Some(m) = v.get("outcome_samples").and_then(|x| x.as_object()) {
            for (k, x) in m {
                if self.outcome_samples.len() < 40 {
                    self.outcome_samples.entry(k.clone()).or_insert(x.clone());
                }
            }
        }
        if let Some(a) = v.get("violations").and_then(|x| x.as_array()) {
            for x in a {
                if let Some(vi) = Violation::from_json(x) {
                    self.violations.push(vi);
                }
            }
        }
        if let Some(m) = v.get("viol_by_site").and_then(|x| x.as_object()) {
            for (k, x) in m {
                *self.viol_by_site.entry(k.clone()).or_insert(0) += x.as_u64().unwrap_or(0);
            }
        }
        if let Some(m) = v.get("known_hits").and_then(|x| x.as_object()) {
            for (k, x) in m {
                if let Ok(i) = k.parse::<usize>() {
                    *self.known_hits.entry(i).or_insert(0) += x.as_u64().unwrap_or(0);
                }
            }
        }
        for (name, set) in [("notes", &mut self.notes)] {
            if let Some(a) = v.get(name).and_then(|x| x.as_array()) {
                for x in a {
                    if let Some(s) = x.as_str() {
                        set.insert(s.to_string());
                    }
                }
            }
        }
        if let Some(m) = v.get("bounds").and_then(|x| x.as_object()) {
            for (k, x) in m {
                self.bounds.insert(k.clone(), x.as_str().unwrap_or("").to_string());
            }
        }
        if let Some(a) = v.get("machinery_errors").and_then(|x| x.as_array()) {
            for x in a {
                self.machinery_errors.push(x.as_str().unwrap_or("").to_string());
            }
        }
    }
}

// ------------------------------------------------------------------ context handed to a property

pub struct Ctx {
    pub property: &'static str,
    pub tier: Tier,
    pub part: u64,
    pub nparts: u64,
    pub seed: u64,
    pub findings: Findings,
    pub out: Partial,
    pub replaying: bool,
    pub out_path: Option<PathBuf>,
}

impl Ctx {
    pub fn new(property: &'static str, tier: Tier, part: u64, nparts: u64) -> Ctx {
        Ctx {
            property,
            tier,
            part,
            nparts,
            seed: std::env::var("VERIF_SEED").ok().and_then(|s| s.parse().ok()).unwrap_or(0),
            findings: Findings::load(property),
            out: Partial::default(),
            replaying: false,
            out_path: None,
        }
    }
    #[inline]
    pub fn mine(&self, idx: u64) -> bool {
        idx % self.nparts == self.part
    }
    #[inline]
    pub fn eval(&mut self) {
        self.out.evals += 1;
    }
    pub fn evals(&mut self, n: u64) {
        self.out.evals += n;
    }
    pub fn count(&mut self, name: &str) {
        *self.out.counters.entry(name.to_string()).or_insert(0) += 1;
    }
    pub fn count_n(&mut self, name: &str, n: u64) {
        *self.out.counters.entry(name.to_string()).or_insert(0) += n;
    }
    pub fn outcome<T: Hash>(&mut self, t: &T) {
        self.out.outcomes.insert(crate::snap::hash_state(t));
    }
    pub fn outcome_sample<T: Hash>(&mut self, t: &T, label: &str, v: impl FnOnce() -> Value) {
        if self.out.outcomes.insert(crate::snap::hash_state(t)) && self.out.outcome_samples.len() < 40 {
            self.out.outcome_samples.entry(label.to_string()).or_insert_with(v);
        }
    }
    pub fn state(&mut self, h: u64) -> bool {
        self.out.states.insert(h)
    }
    pub fn sample(&mut self, v: impl FnOnce() -> Value) {
        if self.out.samples.len() < 6 {
            self.out.samples.push(v());
        }
    }
    pub fn note(&mut self, s: &str) {
        self.out.notes.insert(s.to_string());
    }
    pub fn bound(&mut self, k: &str, v: impl ToString) {
        self.out.bounds.insert(k.to_string(), v.to_string());
    }
    pub fn machinery(&mut self, s: impl ToString) {
        self.out.machinery_errors.push(s.to_string());
    }
    /// Record a violation; classified against the committed findings file at once.
    pub fn violation(&mut self, site: &str, key: &str, what: impl FnOnce() -> String, case: impl FnOnce() -> Value) {
        if let Some(i) = self.findings.matches(site, key) {
            *self.out.known_hits.entry(i).or_insert(0) += 1;
            return;
        }
        if let Ok(dir) = std::env::var("SQV_DUMP_KEYS") {
            use std::io::Write;
            if let Ok(mut f) = std::fs::OpenOptions::new().create(true).append(true).open(format!("{dir}/keys-{}.txt", std::process::id())) {
                let _ = writeln!(f, "{site}\t{key}");
            }
        }
        let n = self.out.viol_by_site.entry(site.to_string()).or_insert(0);
        *n += 1;
        if (*n as usize) <= MAX_KEPT_PER_SITE || self.replaying {
            let mut case = case();
            let ep = crate::shim::epoch();
            if ep != (crate::shim::T0_SECS, 0) {
                // the family ran under another epoch: the replay must too
                if let Some(m) = case.as_object_mut() {
                    m.insert("epoch".into(), serde_json::json!([ep.0, ep.1]));
                }
            }
            self.out.violations.push(Violation { site: site.into(), key: key.into(), what: what(), case });
        }
    }
    pub fn flush(&self) {
        if let Some(p) = &self.out_path {
            let _ = std::fs::write(p, serde_json::to_vec(&self.out.to_json()).unwrap_or_default());
        }
    }
}

// ------------------------------------------------------------------ evidence

pub struct Level {
    pub category: &'static str, // exploration | fault_enumeration | model_checking
    pub rule: &'static str,
    pub assumptions: Vec<String>,
}

pub fn write_evidence(property: &str, tier: Tier, seed: u64, level: &Level, p: &Partial, wall_s: f64, new_violations: usize, known: &[(String, u64)]) -> Result<PathBuf, String> {
    let mut cov = Map::new();
    let distinct = p.outcomes.len() as u64;
    cov.insert("evaluations".into(), json!(p.evals));
    cov.insert("distinct_nontrivial".into(), json!(distinct));
    cov.insert("rule".into(), json!(level.rule));
    let mut samples = p.samples.clone();
    if samples.is_empty() {
        samples.push(json!("no sample recorded"));
    }
    cov.insert("samples".into(), Value::Array(samples));
    cov.insert("outcome_samples".into(), json!(p.outcome_samples));
    if level.category == "model_checking" {
        cov.insert("states".into(), json!(p.states.len() as u64));
        cov.insert("transitions".into(), json!(p.transitions));
        cov.insert("traces_validated_against_impl".into(), json!(p.traces_validated));
    } else if !p.states.is_empty() {
        cov.insert("states".into(), json!(p.states.len() as u64));
        cov.insert("transitions".into(), json!(p.transitions));
    }
    cov.insert("exhaustive".into(), json!(p.exhaustive));
    cov.insert("counters".into(), json!(p.counters));
    cov.insert("bounds".into(), json!(p.bounds));
    cov.insert("notes".into(), json!(p.notes));
    cov.insert("violations_by_site".into(), json!(p.viol_by_site));
    cov.insert(
        "known_findings_matched".into(),
        Value::Array(known.iter().map(|(t, n)| json!({"finding": t, "inputs": n})).collect()),
    );
    let ev = json!({
        "property_id": property,
        "tier": tier.name(),
        "seed": seed,
        "level": level.category,
        "coverage": Value::Object(cov),
        "assumptions": level.assumptions,
        "wall_s": (wall_s * 1000.0).round() / 1000.0,
        "violations": new_violations,
    });
    let dir = Path::new(VERIF).join("evidence");
    std::fs::create_dir_all(&dir).map_err(|e| e.to_string())?;
    let path = dir.join(format!("{property}.json"));
    let body = serde_json::to_string_pretty(&ev).map_err(|e| e.to_string())?;
    std::fs::write(&path, body + "\n").map_err(|e| e.to_string())?;
    Ok(path)
}

pub fn write_replay(property: &str, v: &Violation, tier: Tier) -> Result<PathBuf, String> {
    let dir = Path::new(VERIF).join("replays").join(property);
    std::fs::create_dir_all(&dir).map_err(|e| e.to_string())?;
    let sig = format!("{:016x}", crate::snap::hash_state(&(v.site.as_str(), v.key.as_str())));
    let path = dir.join(format!("{sig}.json"));
    let body = json!({
        "property": property, "site": v.site, "key": v.key, "what": v.what, "tier": tier.name(), "case": v.case,
    });
    std::fs::write(&path, serde_json::to_string_pretty(&body).map_err(|e| e.to_string())? + "\n").map_err(|e| e.to_string())?;
    Ok(path)
}
