//! libc interposition: wall clock and sleeping are owned by the harness.
//!
//! The symbols below are defined in the harness *binary*; the statically linked
//! std/chrono in the same executable bind to them at link time, so
//! `SystemTime::now()` / `chrono::Utc::now()` return the frozen value while
//! CLOCK_MONOTONIC (Instant) keeps running through the raw syscall.
//!
//! Sleeping: when the gate is armed, every `thread::sleep` (std calls
//! clock_nanosleep) is recorded and blocks until the harness releases a permit,
//! so "pause about 5 s" is an observable, sequenced event and costs no real time.

use std::sync::Mutex;
use std::sync::atomic::{AtomicBool, AtomicI64, AtomicUsize, Ordering::SeqCst};

/// frozen wall clock: 2027-01-15 08:00:00 UTC
pub const T0_SECS: i64 = 1_800_000_000;

/// the instant the frozen clock shows ("now" of every run); T0 unless a family chooses another epoch
static EPOCH_S: AtomicI64 = AtomicI64::new(T0_SECS);
static EPOCH_NS: AtomicI64 = AtomicI64::new(0);

/// Epochs other than T0 that time-sensitive families are repeated under: "now" is just after midnight at the
/// end of a year, just after the 32-bit time_t wrap, late in a leap day with a sub-second part, and T0 with
/// almost a full second of nanoseconds (simulated silences reach back across those boundaries).
pub const EPOCH_VARIANTS: [(i64, i64, &str); 4] = [
    (1_830_297_603, 250_000_000, "2028-01-01 00:00:03.25"),
    (2_147_483_652, 500_000_000, "2038-01-19 03:14:12.5"),
    (1_835_481_597, 999_000_000, "2028-02-29 23:59:57.999"),
    (T0_SECS, 999_999_999, "T0 + 0.999999999 s"),
];

/// choose the epoch (takes effect at once: the frozen clock shows it)
pub fn set_epoch(secs: i64, ns: i64) {
    EPOCH_S.store(secs, SeqCst);
    EPOCH_NS.store(ns, SeqCst);
    freeze_clock();
}
pub fn reset_epoch() {
    set_epoch(T0_SECS, 0);
}
pub fn epoch() -> (i64, i64) {
    (EPOCH_S.load(SeqCst), EPOCH_NS.load(SeqCst))
}

static FAKE_ON: AtomicBool = AtomicBool::new(false);
static FAKE_NS: AtomicI64 = AtomicI64::new(0);
static FAKE_S: AtomicI64 = AtomicI64::new(T0_SECS);

/// virtual offset added to CLOCK_MONOTONIC (so `Instant` can be moved forward: a connection that
/// "stays healthy for 6 s", a pause that "lasted 5 s") - never backwards
static MONO_OFFSET_NS: AtomicI64 = AtomicI64::new(0);

static GATE_ON: AtomicBool = AtomicBool::new(false);
/// tickets are global and monotonic: a sleeper parked in an earlier run can never be woken by a later one
static NEXT_TICKET: AtomicUsize = AtomicUsize::new(0);
/// tickets that have been released (a ticket is released once, by the script that owns its thread)
static RELEASED: Mutex<Vec<usize>> = Mutex::new(Vec::new());
/// (ticket, thread, seconds, nanoseconds)
static SLEEP_LOG: Mutex<Vec<(usize, std::thread::ThreadId, i64, i64)>> = Mutex::new(Vec::new());
static GATE_MX: Mutex<()> = Mutex::new(());
static GATE_CV: std::sync::Condvar = std::sync::Condvar::new();

pub fn freeze_clock() {
    FAKE_S.store(EPOCH_S.load(SeqCst), SeqCst);
    FAKE_NS.store(EPOCH_NS.load(SeqCst), SeqCst);
    FAKE_ON.store(true, SeqCst);
}

pub fn set_clock(secs: i64, ns: i64) {
    FAKE_S.store(secs, SeqCst);
    FAKE_NS.store(ns, SeqCst);
    FAKE_ON.store(true, SeqCst);
}

pub fn arm_sleep_gate() {
    GATE_ON.store(true, SeqCst);
}

/// new sleeps are real again; sleepers already parked stay parked (their reader threads are leaked on purpose:
/// the TCP reader loop of the code under test never returns)
pub fn disarm_sleep_gate() {
    GATE_ON.store(false, SeqCst);
}

/// number of gated sleep requests so far in this process (monotonic)
pub fn sleep_requests() -> usize {
    NEXT_TICKET.load(SeqCst)
}

/// (ticket, seconds, nanoseconds) of every gated sleep request with ticket > `after`
pub fn sleep_log_after(after: usize) -> Vec<(usize, i64, i64)> {
    SLEEP_LOG.lock().unwrap().iter().filter(|x| x.0 > after).map(|x| (x.0, x.2, x.3)).collect()
}

/// the same, restricted to the sleeps of one thread (the reader thread a script owns: readers leaked
/// by earlier scripts in the same process must not be mistaken for it)
pub fn sleep_log_of(thread: std::thread::ThreadId, after: usize) -> Vec<(usize, i64, i64)> {
    SLEEP_LOG.lock().unwrap().iter().filter(|x| x.0 > after && x.1 == thread).map(|x| (x.0, x.2, x.3)).collect()
}

/// let the most recent sleeper return
pub fn release_latest_sleep() {
    let _g = GATE_MX.lock().unwrap();
    RELEASED.lock().unwrap().push(NEXT_TICKET.load(SeqCst));
    GATE_CV.notify_all();
}

/// let the most recent sleep of this thread return
pub fn release_sleep_of(thread: std::thread::ThreadId) {
    let _g = GATE_MX.lock().unwrap();
    let t = SLEEP_LOG.lock().unwrap().iter().rev().find(|x| x.1 == thread).map(|x| x.0);
    if let Some(t) = t {
        RELEASED.lock().unwrap().push(t);
    }
    GATE_CV.notify_all();
}

/// when set, virtual time that passes (a released pause, `advance_monotonic`) also moves the faked wall clock
static WALL_FOLLOWS: AtomicBool = AtomicBool::new(false);
static WALL_ELAPSED_NS: AtomicI64 = AtomicI64::new(0);

/// from now on virtual time also advances the wall clock (TCP scripts); returns to T0 first
pub fn wall_follows_virtual_time(on: bool) {
    freeze_clock();
    WALL_ELAPSED_NS.store(0, SeqCst);
    WALL_FOLLOWS.store(on, SeqCst);
}

/// virtual wall-clock time elapsed since `wall_follows_virtual_time(true)`
pub fn wall_elapsed_ms() -> i64 {
    WALL_ELAPSED_NS.load(SeqCst) / 1_000_000
}

fn advance_wall(ns: i64) {
    if WALL_FOLLOWS.load(SeqCst) {
        let total = WALL_ELAPSED_NS.fetch_add(ns, SeqCst) + ns + EPOCH_NS.load(SeqCst);
        FAKE_S.store(EPOCH_S.load(SeqCst) + total / 1_000_000_000, SeqCst);
        FAKE_NS.store(total % 1_000_000_000, SeqCst);
    }
}

/// move the monotonic clock seen by std::time::Instant forward
pub fn advance_monotonic(secs: i64, ns: i64) {
    MONO_OFFSET_NS.fetch_add(secs * 1_000_000_000 + ns, SeqCst);
    advance_wall(secs * 1_000_000_000 + ns);
}

/// the real monotonic clock in ns (harness timeouts must not see the virtual offset)
pub fn real_mono_ns() -> u64 {
    let mut ts = libc::timespec { tv_sec: 0, tv_nsec: 0 };
    unsafe {
        libc::syscall(libc::SYS_clock_gettime, libc::CLOCK_MONOTONIC as libc::c_long, &mut ts as *mut libc::timespec);
    }
    ts.tv_sec as u64 * 1_000_000_000 + ts.tv_nsec as u64
}

/// real sleeping for harness code (never gated, never faked)
pub fn real_sleep_us(us: u64) {
    let ts = libc::timespec {
        tv_sec: (us / 1_000_000) as libc::time_t,
        tv_nsec: ((us % 1_000_000) * 1000) as libc::c_long,
    };
    unsafe {
        libc::syscall(
            libc::SYS_nanosleep,
            &ts as *const libc::timespec,
            std::ptr::null_mut::<libc::timespec>(),
        );
    }
}

#[unsafe(no_mangle)]
pub unsafe extern "C" fn clock_gettime(clk: libc::clockid_t, ts: *mut libc::timespec) -> libc::c_int {
    if clk == libc::CLOCK_REALTIME && FAKE_ON.load(SeqCst) {
        unsafe {
            (*ts).tv_sec = FAKE_S.load(SeqCst) as libc::time_t;
            (*ts).tv_nsec = FAKE_NS.load(SeqCst) as libc::c_long;
        }
        return 0;
    }
    let r = unsafe { libc::syscall(libc::SYS_clock_gettime, clk as libc::c_long, ts) as libc::c_int };
    if r == 0 && clk == libc::CLOCK_MONOTONIC {
        let off = MONO_OFFSET_NS.load(SeqCst);
        if off != 0 {
            unsafe {
                let total = (*ts).tv_sec as i64 * 1_000_000_000 + (*ts).tv_nsec as i64 + off;
                (*ts).tv_sec = (total / 1_000_000_000) as libc::time_t;
                (*ts).tv_nsec = (total % 1_000_000_000) as libc::c_long;
            }
        }
    }
    r
}

fn gated_sleep(req: *const libc::timespec) -> bool {
    if !GATE_ON.load(SeqCst) {
        return false;
    }
    let (s, ns) = unsafe { ((*req).tv_sec as i64, (*req).tv_nsec as i64) };
    // tiny sleeps (harness internals) are not application pauses
    if s == 0 && ns < 50_000_000 {
        return false;
    }
    let mut g = GATE_MX.lock().unwrap();
    let ticket = NEXT_TICKET.fetch_add(1, SeqCst) + 1;
    if let Ok(mut l) = SLEEP_LOG.lock() {
        l.push((ticket, std::thread::current().id(), s, ns));
    }
    loop {
        if RELEASED.lock().map(|r| r.contains(&ticket)).unwrap_or(false) {
            // the pause "happened": virtual time moves on by the requested duration
            MONO_OFFSET_NS.fetch_add(s * 1_000_000_000 + ns, SeqCst);
            advance_wall(s * 1_000_000_000 + ns);
            return true;
        }
        g = GATE_CV.wait(g).unwrap();
    }
}

#[unsafe(no_mangle)]
pub unsafe extern "C" fn clock_nanosleep(
    clk: libc::clockid_t,
    flags: libc::c_int,
    req: *const libc::timespec,
    rem: *mut libc::timespec,
) -> libc::c_int {
    if flags == 0 && gated_sleep(req) {
        return 0;
    }
    unsafe {
        let r = libc::syscall(libc::SYS_clock_nanosleep, clk as libc::c_long, flags as libc::c_long, req, rem);
        if r < 0 { *libc::__errno_location() } else { 0 }
    }
}

#[unsafe(no_mangle)]
pub unsafe extern "C" fn nanosleep(req: *const libc::timespec, rem: *mut libc::timespec) -> libc::c_int {
    if gated_sleep(req) {
        return 0;
    }
    unsafe { libc::syscall(libc::SYS_nanosleep, req, rem) as libc::c_int }
}

/// socket time-outs (SO_RCVTIMEO / SO_SNDTIMEO) requested while compression is on: (seconds, microseconds)
static SOCK_TIMEOUTS: Mutex<Vec<(i64, i64)>> = Mutex::new(Vec::new());
static COMPRESS_SOCK_TIMEOUTS: AtomicBool = AtomicBool::new(false);
/// virtual seconds per real second for socket time-outs
pub const SOCK_TIMEOUT_COMPRESSION: i64 = 100;

/// From now on a socket read/write time-out of T is installed as T/100 (at least 1 ms, at most 1 s) and
/// recorded: "the feed stayed silent for longer than any time-out the reader set" becomes a sub-second
/// event. Clears the record.
pub fn compress_socket_timeouts(on: bool) {
    SOCK_TIMEOUTS.lock().unwrap().clear();
    COMPRESS_SOCK_TIMEOUTS.store(on, SeqCst);
}

/// the time-outs requested since `compress_socket_timeouts(true)`, as installed (microseconds)
pub fn installed_socket_timeouts_us() -> Vec<i64> {
    SOCK_TIMEOUTS.lock().unwrap().iter().map(|(s, us)| compressed_us(*s, *us)).collect()
}
pub fn requested_socket_timeouts() -> Vec<(i64, i64)> {
    SOCK_TIMEOUTS.lock().unwrap().clone()
}

fn compressed_us(s: i64, us: i64) -> i64 {
    let total = s.saturating_mul(1_000_000).saturating_add(us);
    (total / SOCK_TIMEOUT_COMPRESSION).clamp(1_000, 1_000_000)
}

#[unsafe(no_mangle)]
pub unsafe extern "C" fn setsockopt(fd: libc::c_int, level: libc::c_int, name: libc::c_int, val: *const libc::c_void, len: libc::socklen_t) -> libc::c_int {
    let mut tv = libc::timeval { tv_sec: 0, tv_usec: 0 };
    let mut val = val;
    if level == libc::SOL_SOCKET
        && (name == libc::SO_RCVTIMEO || name == libc::SO_SNDTIMEO)
        && COMPRESS_SOCK_TIMEOUTS.load(SeqCst)
        && !val.is_null()
        && len as usize >= std::mem::size_of::<libc::timeval>()
    {
        let req = unsafe { *(val as *const libc::timeval) };
        if req.tv_sec != 0 || req.tv_usec != 0 {
            SOCK_TIMEOUTS.lock().unwrap().push((req.tv_sec as i64, req.tv_usec as i64));
            let us = compressed_us(req.tv_sec as i64, req.tv_usec as i64);
            tv.tv_sec = (us / 1_000_000) as libc::time_t;
            tv.tv_usec = (us % 1_000_000) as libc::suseconds_t;
            val = &tv as *const libc::timeval as *const libc::c_void;
        }
    }
    unsafe {
        let r = libc::syscall(libc::SYS_setsockopt, fd as libc::c_long, level as libc::c_long, name as libc::c_long, val, len as libc::c_long);
        r as libc::c_int
    }
}

/// Start-up self test: the interposition must really be linked.
pub fn self_test() -> Result<(), String> {
    {
        // a std socket time-out goes through the interposed setsockopt
        use std::net::UdpSocket;
        compress_socket_timeouts(true);
        let u = UdpSocket::bind("127.0.0.1:0").map_err(|e| format!("self test socket: {e}"))?;
        u.set_read_timeout(Some(std::time::Duration::from_secs(30))).map_err(|e| format!("self test setsockopt: {e}"))?;
        let got = u.read_timeout().map_err(|e| e.to_string())?;
        let rec = requested_socket_timeouts();
        compress_socket_timeouts(false);
        if rec != vec![(30, 0)] || got != Some(std::time::Duration::from_millis(300)) {
            return Err(format!("setsockopt interposition not effective: recorded {rec:?}, installed {got:?}"));
        }
    }
    freeze_clock();
    let now = chrono::Utc::now();
    if now.timestamp() != T0_SECS || now.timestamp_subsec_nanos() != 0 {
        return Err(format!("clock_gettime interposition not effective: Utc::now() = {now}"));
    }
    let st = std::time::SystemTime::now()
        .duration_since(std::time::UNIX_EPOCH)
        .map_err(|e| e.to_string())?;
    if st.as_secs() as i64 != T0_SECS {
        return Err("SystemTime::now() not frozen".into());
    }
    // monotonic clock must keep running
    let a = std::time::Instant::now();
    real_sleep_us(1000);
    if a.elapsed().as_micros() < 500 {
        return Err("Instant does not advance".into());
    }
    let b = std::time::Instant::now();
    advance_monotonic(7, 0);
    if b.elapsed().as_secs() < 7 {
        return Err("virtual monotonic offset not effective".into());
    }
    // gated sleep: a 1 h sleep must park, be logged, and return as soon as it is released
    arm_sleep_gate();
    let base = sleep_requests();
    let h = std::thread::spawn(|| std::thread::sleep(std::time::Duration::from_secs(3600)));
    let t = real_mono_ns();
    while sleep_requests() == base && real_mono_ns() - t < 3_000_000_000 {
        real_sleep_us(200);
    }
    let log = sleep_log_after(base);
    release_latest_sleep();
    while !h.is_finished() && real_mono_ns() - t < 3_000_000_000 {
        real_sleep_us(200);
    }
    disarm_sleep_gate();
    if !h.is_finished() || log.len() != 1 || (log[0].1, log[0].2) != (3600, 0) {
        return Err(format!("sleep interposition not effective: finished {}, log {log:?}", h.is_finished()));
    }
    Ok(())
}
