//! Snapshot / restore of the aircraft table through the public fields of `Plane`.
//! Over-fine on purpose: every field is kept; floats by bit pattern, time stamps as
//! integer ages in ms relative to the frozen clock T0, rows sorted by address.

use crate::shim;
use chrono::{DateTime, TimeZone, Utc};
use serde_json::{Value, json};
use squitterator::Plane;
use std::collections::HashMap;
use std::hash::{Hash, Hasher};
use std::sync::{Arc, Mutex, RwLock};

pub type Table = Arc<RwLock<HashMap<u32, Plane>>>;

pub fn new_table() -> Table {
    Arc::new(RwLock::new(HashMap::new()))
}

#[derive(Clone, Debug, PartialEq, Eq, Hash, Default)]
pub struct Snap {
    pub key: u32,
    pub icao: u32,
    pub ca: u32,
    pub cap_flags: u32,
    pub cap: [bool; 5], // 20 40 44 50 60
    pub category: (u32, u32),
    pub reg: String,
    pub ais: Option<String>,
    pub altitude: Option<u32>,
    pub altitude_gnss: Option<u32>,
    pub altitude_source: char,
    pub selected_altitude: Option<u32>,
    pub baro_setting: Option<u32>,
    pub target_altitude_source: char,
    pub squawk: Option<u32>,
    pub surveillance_status: char,
    pub threat: Option<char>,
    pub vrate: Option<i32>,
    pub vrate_source: char,
    pub cpr_lat: [u32; 2],
    pub cpr_lon: [u32; 2],
    pub cpr_age: [i64; 2],
    pub lat: u64,
    pub lon: u64,
    pub dist: Option<u64>,
    pub grspeed: Option<u32>,
    pub tas: Option<u32>,
    pub ias: Option<u32>,
    pub mach: Option<u64>,
    pub ground_movement: Option<u64>,
    pub turn: u32,
    pub track: Option<u32>,
    pub track_source: char,
    pub heading: Option<u32>,
    pub heading_source: char,
    pub roll: Option<i32>,
    pub tar: Option<i32>,
    pub bds50_age: Option<i64>,
    pub temperature: Option<u64>,
    pub wind: Option<(u32, u32)>,
    pub turbulence: Option<u32>,
    pub humidity: Option<u32>,
    pub pressure: Option<u32>,
    pub age: i64,
    pub pos_age: Option<i64>,
    pub track_age: Option<i64>,
    pub heading_age: Option<i64>,
    pub last_tc: u32,
    pub last_df: u32,
    pub adsb_version: Option<u32>,
}

fn t0() -> DateTime<Utc> {
    let (s, ns) = shim::epoch();
    Utc.timestamp_opt(s, ns as u32).unwrap()
}
fn age(t: DateTime<Utc>) -> i64 {
    t0().signed_duration_since(t).num_milliseconds()
}
fn stamp(age_ms: i64) -> DateTime<Utc> {
    t0() - chrono::Duration::milliseconds(age_ms)
}

static INTERN: Mutex<Vec<&'static str>> = Mutex::new(Vec::new());
fn intern(s: &str) -> &'static str {
    let mut g = INTERN.lock().unwrap();
    if let Some(x) = g.iter().find(|x| **x == s) {
        return x;
    }
    let l: &'static str = Box::leak(s.to_string().into_boxed_str());
    g.push(l);
    l
}

impl Snap {
    pub fn of(key: u32, p: &Plane) -> Snap {
        let c = &p.capability.1;
        Snap {
            key,
            icao: p.icao,
            ca: p.capability.0,
            cap_flags: c.flags,
            cap: [c.bds20, c.bds40, c.bds44, c.bds50, c.bds60],
            category: p.category,
            reg: p.reg.to_string(),
            ais: p.ais.clone(),
            altitude: p.altitude,
            altitude_gnss: p.altitude_gnss,
            altitude_source: p.altitude_source,
            selected_altitude: p.selected_altitude,
            baro_setting: p.barometric_pressure_setting,
            target_altitude_source: p.target_altitude_source,
            squawk: p.squawk,
            surveillance_status: p.surveillance_status,
            threat: p.threat_encounter,
            vrate: p.vrate,
            vrate_source: p.vrate_source,
            cpr_lat: p.cpr_lat,
            cpr_lon: p.cpr_lon,
            cpr_age: [age(p.cpr_time[0]), age(p.cpr_time[1])],
            lat: p.lat.to_bits(),
            lon: p.lon.to_bits(),
            dist: p.distance_from_observer.map(f64::to_bits),
            grspeed: p.grspeed,
            tas: p.true_airspeed,
            ias: p.indicated_airspeed,
            mach: p.mach_number.map(f64::to_bits),
            ground_movement: p.ground_movement.map(f64::to_bits),
            turn: p.turn,
            track: p.track,
            track_source: p.track_source,
            heading: p.heading,
            heading_source: p.heading_source,
            roll: p.roll_angle,
            tar: p.track_angle_rate,
            bds50_age: p.bds_5_0_timestamp.map(age),
            temperature: p.temperature.map(f64::to_bits),
            wind: p.wind,
            turbulence: p.turbulence,
            humidity: p.humidity,
            pressure: p.pressure,
            age: age(p.timestamp),
            pos_age: p.position_timestamp.map(age),
            track_age: p.track_timestamp.map(age),
            heading_age: p.heading_timestamp.map(age),
            last_tc: p.last_type_code,
            last_df: p.last_df,
            adsb_version: p.adsb_version,
        }
    }

    pub fn to_plane(&self) -> Plane {
        let mut p = Plane::new();
        p.icao = self.icao;
        p.capability.0 = self.ca;
        p.capability.1.flags = self.cap_flags;
        p.capability.1.bds20 = self.cap[0];
        p.capability.1.bds40 = self.cap[1];
        p.capability.1.bds44 = self.cap[2];
        p.capability.1.bds50 = self.cap[3];
        p.capability.1.bds60 = self.cap[4];
        p.category = self.category;
        p.reg = intern(&self.reg);
        p.ais = self.ais.clone();
        p.altitude = self.altitude;
        p.altitude_gnss = self.altitude_gnss;
        p.altitude_source = self.altitude_source;
        p.selected_altitude = self.selected_altitude;
        p.barometric_pressure_setting = self.baro_setting;
        p.target_altitude_source = self.target_altitude_source;
        p.squawk = self.squawk;
        p.surveillance_status = self.surveillance_status;
        p.threat_encounter = self.threat;
        p.vrate = self.vrate;
        p.vrate_source = self.vrate_source;
        p.cpr_lat = self.cpr_lat;
        p.cpr_lon = self.cpr_lon;
        p.cpr_time = [stamp(self.cpr_age[0]), stamp(self.cpr_age[1])];
        p.lat = f64::from_bits(self.lat);
        p.lon = f64::from_bits(self.lon);
        p.distance_from_observer = self.dist.map(f64::from_bits);
        p.grspeed = self.grspeed;
        p.true_airspeed = self.tas;
        p.indicated_airspeed = self.ias;
        p.mach_number = self.mach.map(f64::from_bits);
        p.ground_movement = self.ground_movement.map(f64::from_bits);
        p.turn = self.turn;
        p.track = self.track;
        p.track_source = self.track_source;
        p.heading = self.heading;
        p.heading_source = self.heading_source;
        p.roll_angle = self.roll;
        p.track_angle_rate = self.tar;
        p.bds_5_0_timestamp = self.bds50_age.map(stamp);
        p.temperature = self.temperature.map(f64::from_bits);
        p.wind = self.wind;
        p.turbulence = self.turbulence;
        p.humidity = self.humidity;
        p.pressure = self.pressure;
        p.timestamp = stamp(self.age);
        p.position_timestamp = self.pos_age.map(stamp);
        p.track_timestamp = self.track_age.map(stamp);
        p.heading_timestamp = self.heading_age.map(stamp);
        p.last_type_code = self.last_tc;
        p.last_df = self.last_df;
        p.adsb_version = self.adsb_version;
        p
    }

    pub fn latf(&self) -> f64 {
        f64::from_bits(self.lat)
    }
    pub fn lonf(&self) -> f64 {
        f64::from_bits(self.lon)
    }
    pub fn distf(&self) -> Option<f64> {
        self.dist.map(f64::from_bits)
    }

    /// every time stamp grows older by `ms` (simulated silence)
    pub fn tick(&mut self, ms: i64) {
        self.age += ms;
        self.cpr_age[0] += ms;
        self.cpr_age[1] += ms;
        for a in [&mut self.pos_age, &mut self.track_age, &mut self.heading_age, &mut self.bds50_age] {
            if let Some(x) = a {
                *x += ms;
            }
        }
    }

    pub fn to_json(&self) -> Value {
        fn oc(c: char) -> Value {
            json!(c.to_string())
        }
        json!({
            "key": self.key, "icao": self.icao, "ca": self.ca, "cap_flags": self.cap_flags, "cap": self.cap,
            "category": [self.category.0, self.category.1], "reg": self.reg, "ais": self.ais,
            "altitude": self.altitude, "altitude_gnss": self.altitude_gnss, "altitude_source": oc(self.altitude_source),
            "selected_altitude": self.selected_altitude, "baro_setting": self.baro_setting,
            "target_altitude_source": oc(self.target_altitude_source), "squawk": self.squawk,
            "surveillance_status": oc(self.surveillance_status), "threat": self.threat.map(|c| c.to_string()),
            "vrate": self.vrate, "vrate_source": oc(self.vrate_source),
            "cpr_lat": self.cpr_lat, "cpr_lon": self.cpr_lon, "cpr_age": self.cpr_age,
            "lat": self.lat, "lon": self.lon, "dist": self.dist,
            "lat_f": self.latf(), "lon_f": self.lonf(), "dist_f": self.distf(),
            "grspeed": self.grspeed, "tas": self.tas, "ias": self.ias, "mach": self.mach,
            "ground_movement": self.ground_movement, "turn": self.turn, "track": self.track,
            "track_source": oc(self.track_source), "heading": self.heading, "heading_source": oc(self.heading_source),
            "roll": self.roll, "tar": self.tar, "bds50_age": self.bds50_age, "temperature": self.temperature,
            "wind": self.wind.map(|w| vec![w.0, w.1]), "turbulence": self.turbulence, "humidity": self.humidity,
            "pressure": self.pressure, "age": self.age, "pos_age": self.pos_age, "track_age": self.track_age,
            "heading_age": self.heading_age, "last_tc": self.last_tc, "last_df": self.last_df,
            "adsb_version": self.adsb_version
        })
    }

    pub fn from_json(v: &Value) -> Option<Snap> {
        let u = |k: &str| v.get(k).and_then(|x| x.as_u64()).map(|x| x as u32);
        let u64o = |k: &str| v.get(k).and_then(|x| x.as_u64());
        let i = |k: &str| v.get(k).and_then(|x| x.as_i64());
        let c = |k: &str| v.get(k).and_then(|x| x.as_str()).and_then(|s| s.chars().next());
        let arr2 = |k: &str| -> Option<[u32; 2]> {
            let a = v.get(k)?.as_array()?;
            Some([a.first()?.as_u64()? as u32, a.get(1)?.as_u64()? as u32])
        };
        let arr2i = |k: &str| -> Option<[i64; 2]> {
            let a = v.get(k)?.as_array()?;
            Some([a.first()?.as_i64()?, a.get(1)?.as_i64()?])
        };
        let capv = v.get("cap")?.as_array()?;
        let mut cap = [false; 5];
        for (n, b) in capv.iter().enumerate().take(5) {
            cap[n] = b.as_bool()?;
        }
        Some(Snap {
            key: u("key")?,
            icao: u("icao")?,
            ca: u("ca")?,
            cap_flags: u("cap_flags")?,
            cap,
            category: {
                let a = arr2("category")?;
                (a[0], a[1])
            },
            reg: v.get("reg")?.as_str()?.to_string(),
            ais: v.get("ais").and_then(|x| x.as_str()).map(|s| s.to_string()),
            altitude: u("altitude"),
            altitude_gnss: u("altitude_gnss"),
            altitude_source: c("altitude_source")?,
            selected_altitude: u("selected_altitude"),
            baro_setting: u("baro_setting"),
            target_altitude_source: c("target_altitude_source")?,
            squawk: u("squawk"),
            surveillance_status: c("surveillance_status")?,
            threat: c("threat"),
            vrate: i("vrate").map(|x| x as i32),
            vrate_source: c("vrate_source")?,
            cpr_lat: arr2("cpr_lat")?,
            cpr_lon: arr2("cpr_lon")?,
            cpr_age: arr2i("cpr_age")?,
            lat: u64o("lat")?,
            lon: u64o("lon")?,
            dist: u64o("dist"),
            grspeed: u("grspeed"),
            tas: u("tas"),
            ias: u("ias"),
            mach: u64o("mach"),
            ground_movement: u64o("ground_movement"),
            turn: u("turn")?,
            track: u("track"),
            track_source: c("track_source")?,
            heading: u("heading"),
            heading_source: c("heading_source")?,
            roll: i("roll").map(|x| x as i32),
            tar: i("tar").map(|x| x as i32),
            bds50_age: i("bds50_age"),
            temperature: u64o("temperature"),
            wind: arr2("wind").map(|a| (a[0], a[1])),
            turbulence: u("turbulence"),
            humidity: u("humidity"),
            pressure: u("pressure"),
            age: i("age")?,
            pos_age: i("pos_age"),
            track_age: i("track_age"),
            heading_age: i("heading_age"),
            last_tc: u("last_tc")?,
            last_df: u("last_df")?,
            adsb_version: u("adsb_version"),
        })
    }
}

/// canonical snapshot of the whole table (rows sorted by key); tolerant of a poisoned lock
pub fn snapshot(t: &Table) -> Vec<Snap> {
    let g = t.read().unwrap_or_else(|e| e.into_inner());
    let mut v: Vec<Snap> = g.iter().map(|(k, p)| Snap::of(*k, p)).collect();
    v.sort_by_key(|s| s.key);
    v
}

pub fn restore(rows: &[Snap]) -> Table {
    let mut m = HashMap::with_capacity(rows.len());
    for r in rows {
        m.insert(r.key, r.to_plane());
    }
    Arc::new(RwLock::new(m))
}

pub fn tick_all(rows: &mut [Snap], ms: i64) {
    for r in rows {
        r.tick(ms);
    }
}

pub fn hash_state<T: Hash>(x: &T) -> u64 {
    #[allow(deprecated)]
    let mut h = std::hash::SipHasher::new();
    x.hash(&mut h);
    h.finish()
}

pub fn rows_json(rows: &[Snap]) -> Value {
    Value::Array(rows.iter().map(|r| r.to_json()).collect())
}
pub fn rows_from_json(v: &Value) -> Option<Vec<Snap>> {
    v.as_array()?.iter().map(Snap::from_json).collect()
}

/// names of fields in which two row snapshots differ (for readable reports)
pub fn diff_fields(a: &Snap, b: &Snap) -> Vec<String> {
    let (ja, jb) = (a.to_json(), b.to_json());
    let mut out = vec![];
    if let (Some(ma), Some(mb)) = (ja.as_object(), jb.as_object()) {
        for (k, va) in ma {
            if k.ends_with("_f") {
                continue;
            }
            if mb.get(k) != Some(va) {
                out.push(format!("{k}: {} -> {}", va, mb.get(k).cloned().unwrap_or(Value::Null)));
            }
        }
    }
    out
}
