#![recursion_limit = "512"]
#![allow(dead_code)]
mod engine;
mod frames;
mod props;
mod refmodel;
mod report;
mod run;
mod shim;
mod snap;

use report::{Ctx, Partial, Tier};
use serde_json::Value;
use std::path::PathBuf;
use std::process::Command;
use std::time::Instant;

fn usage() -> ! {
    eprintln!("usage: sqv <ID> [--tier quick|thorough] [--replay FILE] [--jobs N] [--alt-exe PATH]");
    std::process::exit(2)
}

pub fn profile_name() -> &'static str {
    if cfg!(debug_assertions) { "checked" } else { "release-like" }
}

fn main() {
    let argv: Vec<String> = std::env::args().collect();
    if argv.len() < 2 {
        usage();
    }
    let id = argv[1].clone();
    let mut tier = match std::env::var("VERIF_TIER").as_deref() {
        Ok("thorough") => Tier::Thorough,
        _ => Tier::Quick,
    };
    let mut tier_given = false;
    let mut replay: Option<String> = None;
    let mut part: Option<(u64, u64)> = None;
    let mut out: Option<PathBuf> = None;
    let mut jobs: u64 = std::thread::available_parallelism().map(|n| n.get() as u64).unwrap_or(8).min(16);
    let mut alt_exe: Option<String> = None;
    let mut i = 2;
    while i < argv.len() {
        match argv[i].as_str() {
            "--tier" => {
                i += 1;
                tier = match argv.get(i).map(|s| s.as_str()) {
                    Some("quick") => Tier::Quick,
                    Some("thorough") => Tier::Thorough,
                    _ => usage(),
                };
                tier_given = true;
            }
            "--replay" => {
                i += 1;
                replay = Some(argv.get(i).cloned().unwrap_or_else(|| usage()));
            }
            "--part" => {
                i += 1;
                let s = argv.get(i).cloned().unwrap_or_else(|| usage());
                let (a, b) = s.split_once('/').unwrap_or_else(|| usage());
                part = Some((a.parse().unwrap_or_else(|_| usage()), b.parse().unwrap_or_else(|_| usage())));
            }
            "--out" => {
                i += 1;
                out = Some(PathBuf::from(argv.get(i).cloned().unwrap_or_else(|| usage())));
            }
            "--jobs" => {
                i += 1;
                jobs = argv.get(i).and_then(|s| s.parse().ok()).unwrap_or_else(|| usage());
            }
            "--alt-exe" => {
                i += 1;
                alt_exe = Some(argv.get(i).cloned().unwrap_or_else(|| usage()));
            }
            _ => usage(),
        }
        i += 1;
    }
    // VERIF_TIER overrides --tier (DESIGN §11)
    if tier_given {
        if let Ok(t) = std::env::var("VERIF_TIER") {
            tier = if t == "thorough" { Tier::Thorough } else if t == "quick" { Tier::Quick } else { tier };
        }
    }

    let Some(prop) = props::lookup(&id) else {
        eprintln!("unknown property id {id}");
        std::process::exit(2)
    };

    if let Err(e) = shim::self_test() {
        eprintln!("machinery: {e}");
        std::process::exit(2);
    }
    if let Err(e) = refmodel::self_test() {
        eprintln!("machinery: reference model self-validation failed: {e}");
        std::process::exit(2);
    }
    run::silence_stdout();

    // Workers and replays run with the program's own logger installed at the most verbose level, writing to
    // /dev/null: in the real binary the arguments of its log statements are only evaluated under -l, and code
    // that is never executed in the harness cannot be checked. (The CLI runs keep the default: no logger.)
    if replay.is_some() || part.is_some() {
        unsafe { std::env::set_var("RUST_LOG", "trace") };
        if let Err(e) = squitterator::initialize_logger("/dev/null") {
            eprintln!("machinery: cannot install the logger: {e:?}");
            std::process::exit(2);
        }
    }

    if let Some(file) = replay {
        std::process::exit(do_replay(prop, tier, &file));
    }

    if let Some((k, n)) = part {
        // ------------------------------------------------ worker
        let outp = out.clone().unwrap_or_else(|| usage());
        let wedge_path = outp.with_extension("wedge");
        run::init(Some(Box::new(move |what: &str| {
            let _ = std::fs::write(&wedge_path, what);
        })));
        let mut ctx = Ctx::new(prop.id, tier, k, n);
        ctx.out_path = Some(outp);
        (prop.run)(&mut ctx);
        report_crowd_findings(&mut ctx, prop.id);
        ctx.flush();
        run::cleanup_scratch();
        std::process::exit(0);
    }

    // ---------------------------------------------------- parent
    sweep_stale_scratch();
    let t_start = Instant::now();
    let exe = std::env::current_exe().expect("current_exe");
    let scratch = run::scratch_dir().clone();
    let nparts = if prop.serial { 1 } else { jobs.max(1) };
    let mut exes: Vec<(String, PathBuf)> = vec![(profile_name().to_string(), exe.clone())];
    if prop.both_profiles {
        match &alt_exe {
            Some(p) => exes.push(("alt".into(), PathBuf::from(p))),
            None => {
                eprintln!("machinery: {id} needs --alt-exe (the overflow-checked harness build)");
                std::process::exit(2);
            }
        }
    }
    let mut children = vec![];
    for (tag, e) in &exes {
        for k in 0..nparts {
            let outp = scratch.join(format!("part-{tag}-{k}.json"));
            let child = Command::new(e)
                .arg(&id)
                .arg("--tier")
                .arg(tier.name())
                .arg("--part")
                .arg(format!("{k}/{nparts}"))
                .arg("--out")
                .arg(&outp)
                .env("VERIF_TIER", tier.name())
                .spawn();
            match child {
                Ok(c) => children.push((c, outp, tag.clone(), k)),
                Err(err) => {
                    eprintln!("machinery: cannot spawn worker: {err}");
                    std::process::exit(2);
                }
            }
        }
    }
    let mut merged = Partial::default();
    merged.exhaustive = true;
    let mut machinery: Vec<String> = vec![];
    let mut all_exh = true;
    for (mut c, outp, tag, k) in children {
        let st = c.wait();
        let code = st.ok().and_then(|s| s.code());
        match code {
            Some(0) => {}
            Some(4) if id != "C01" => {
                // only C01 is about termination; anywhere else a run that exceeds the watchdog is a
                // problem of the check (e.g. a configuration that is merely slow), never a verdict
                let what = std::fs::read_to_string(outp.with_extension("wedge")).unwrap_or_default();
                machinery.push(format!("worker {tag}/{k}: a reader run exceeded the {} ms watchdog: {what}", run::WEDGE_LIMIT_MS));
                continue;
            }
            Some(4) => {
                let what = std::fs::read_to_string(outp.with_extension("wedge")).unwrap_or_default();
                merged.violations.push(report::Violation {
                    site: format!("{id}/wedge"),
                    key: what.clone(),
                    what: format!("reader thread did not terminate within {} ms on: {what}", run::WEDGE_LIMIT_MS),
                    case: serde_json::json!({"kind": "wedge", "what": what}),
                });
                *merged.viol_by_site.entry(format!("{id}/wedge")).or_insert(0) += 1;
                all_exh = false;
                continue;
            }
            other => {
                machinery.push(format!("worker {tag}/{k} exited with {other:?}"));
                continue;
            }
        }
        match std::fs::read(&outp).ok().and_then(|b| serde_json::from_slice::<Value>(&b).ok()) {
            Some(v) => {
                if v.get("exhaustive").and_then(|x| x.as_bool()) != Some(true) {
                    all_exh = false;
                }
                merged.merge_json(&v)
            }
            None => machinery.push(format!("worker {tag}/{k}: no result file")),
        }
    }
    merged.exhaustive = all_exh;
    machinery.extend(merged.machinery_errors.iter().cloned());
    run::cleanup_scratch();
    if !machinery.is_empty() {
        for m in &machinery {
            eprintln!("machinery: {m}");
        }
        std::process::exit(2);
    }

    // de-duplicate violations by signature
    let mut seen = std::collections::HashSet::new();
    merged.violations.retain(|v| seen.insert((v.site.clone(), v.key.clone())));
    merged.violations.sort_by(|a, b| (a.site.as_str(), a.key.as_str()).cmp(&(b.site.as_str(), b.key.as_str())));

    let level = (prop.level)(tier);
    // vacuity gates
    let any_new: u64 = merged.viol_by_site.values().sum();
    if any_new > 0 {
        // a violation is reported as such; coverage gates only guard a "holds" verdict
    } else if let Err(e) = (prop.gate)(&merged, tier) {
        eprintln!("machinery: vacuity gate failed for {id}: {e}");
        std::process::exit(2);
    }

    let findings = report::Findings::load(prop.id);
    let mut known: Vec<(String, u64)> = vec![];
    for (i, n) in &merged.known_hits {
        if let Some(o) = findings.open.get(*i) {
            known.push((o.text.clone(), *n));
            run::say(&format!("KNOWN-FINDING: property={} {} ({} inputs, site {})", prop.id, o.text, n, o.site));
        }
    }

    // replay files + determinism check for what is about to be reported
    let total_new: u64 = merged.viol_by_site.values().sum();
    let mut lines = vec![];
    let mut unreproduced: Vec<String> = vec![];
    let mut reported_sites = std::collections::BTreeMap::<String, usize>::new();
    // attempts are capped per site, not globally: one site whose detections depend on the batch they were
    // found in must not keep the reproducible detections of another site from being replayed
    let mut attempts = std::collections::BTreeMap::<String, usize>::new();
    for v in &merged.violations {
        let n = reported_sites.entry(v.site.clone()).or_insert(0);
        let tries = attempts.entry(v.site.clone()).or_insert(0);
        if *n >= 2 || *tries >= 4 || lines.len() >= 12 || unreproduced.len() >= 64 {
            continue;
        }
        *n += 1;
        *tries += 1;
        match report::write_replay(prop.id, v, tier) {
            Ok(p) => {
                if v.case.get("kind").and_then(|k| k.as_str()) != Some("wedge") {
                    let a = replay_child(&exe, &id, tier, &p);
                    let b = replay_child(&exe, &id, tier, &p);
                    if a != b || a.0 != 1 {
                        // found during exploration but not reproduced from its replay file (the verdict depended on
                        // something the case does not capture): never printed as a verdict
                        unreproduced.push(format!("{} / {} ({}): first replay exit {}, second exit {}, outputs {}", v.site, v.key, p.display(), a.0, b.0, if a.1 == b.1 { "identical" } else { "different" }));
                        *n -= 1;
                        continue;
                    }
                }
                lines.push(format!("VIOLATION property={} replay={}  # site={} key={} :: {}", prop.id, p.display(), v.site, v.key.replace('\n', " "), v.what.replace('\n', " / ")));
            }
            Err(e) => {
                eprintln!("machinery: cannot write replay: {e}");
                std::process::exit(2);
            }
        }
    }

    if total_new > 0 && lines.is_empty() {
        // violations were observed, but none of the replayed ones reproduces: machinery, not a verdict
        for u in &unreproduced {
            eprintln!("machinery: violation did not reproduce in replay: {u}");
        }
        std::process::exit(2);
    }
    for u in &unreproduced {
        eprintln!("note: a violation seen during exploration did not reproduce from its replay file and is not reported: {u}");
    }
    let wall = t_start.elapsed().as_secs_f64();
    match report::write_evidence(prop.id, tier, std::env::var("VERIF_SEED").ok().and_then(|s| s.parse().ok()).unwrap_or(0), &level, &merged, wall, total_new as usize, &known) {
        Ok(_) => {}
        Err(e) => {
            eprintln!("machinery: cannot write evidence: {e}");
            std::process::exit(2);
        }
    }
    run::say(&format!(
        "{} tier={} evaluations={} distinct={} states={} transitions={} new_violations={} known_hits={} wall={:.1}s",
        prop.id,
        tier.name(),
        merged.evals,
        merged.outcomes.len(),
        merged.states.len(),
        merged.transitions,
        total_new,
        merged.known_hits.values().sum::<u64>(),
        wall
    ));
    for (site, n) in &merged.viol_by_site {
        run::say(&format!("  violations at {site}: {n}"));
    }
    for l in &lines {
        run::say(l);
    }
    std::process::exit(if total_new > 0 { 1 } else { 0 });
}

fn replay_child(exe: &std::path::Path, id: &str, tier: Tier, file: &std::path::Path) -> (i32, String) {
    let o = Command::new(exe).arg(id).arg("--tier").arg(tier.name()).arg("--replay").arg(file).output();
    match o {
        Ok(o) => (o.status.code().unwrap_or(-1), without_port_numbers(&String::from_utf8_lossy(&o.stdout))),
        Err(e) => (-1, e.to_string()),
    }
}

/// The loopback port of a scripted peer is picked afresh in every process and turns up in the program's own
/// error texts; it is no part of the case, so two replays are compared with it blanked.
fn without_port_numbers(s: &str) -> String {
    let pat = "127.0.0.1:";
    let mut out = String::with_capacity(s.len());
    let mut rest = s;
    while let Some(i) = rest.find(pat) {
        out.push_str(&rest[..i + pat.len()]);
        rest = &rest[i + pat.len()..];
        let digits = rest.bytes().take_while(|b| b.is_ascii_digit()).count();
        if digits > 0 {
            out.push_str("<port>");
        }
        rest = &rest[digits..];
    }
    out.push_str(rest);
    out
}

/// what the crowded-table probe of the sweep engine found (see engine/sweep.rs)
fn report_crowd_findings(ctx: &mut Ctx, id: &str) {
    let probes = engine::sweep::CROWD_PROBES.load(std::sync::atomic::Ordering::SeqCst);
    if probes > 0 {
        ctx.count_n("crowded-table-probe", probes);
    }
    for f in engine::sweep::take_crowd_findings() {
        let label = if f.opts.is_empty() { "default".to_string() } else { f.opts.join(" ") };
        let lines: Vec<String> = f.lines.iter().map(|l| String::from_utf8_lossy(l).into_owned()).collect();
        let key = format!("{:06X} {}", f.addr, lines.last().cloned().unwrap_or_default());
        ctx.violation(
            &format!("{id}/{}/{label}", if f.n == 0 { "no-final-line-feed" } else { "crowded-table" }),
            &key,
            || format!("lines {lines:?} of {:06X}: {}", f.addr, f.what),
            || serde_json::json!({"kind": "crowd", "addr": f.addr, "lines": lines, "n": f.n, "cfg": f.opts}),
        );
    }
}

fn replay_crowd(ctx: &mut Ctx, id: &str, case: &Value) {
    let opts: Vec<String> = case.get("cfg").and_then(|c| c.as_array()).map(|a| a.iter().filter_map(|x| x.as_str().map(String::from)).collect()).unwrap_or_default();
    let o: Vec<&str> = opts.iter().map(|s| s.as_str()).collect();
    let cfg = run::Cfg::new(&o);
    let addr = case.get("addr").and_then(|x| x.as_u64()).unwrap_or(0) as u32;
    let n = case.get("n").and_then(|x| x.as_u64()).unwrap_or(1100) as usize;
    let lines: Vec<Vec<u8>> = case.get("lines").and_then(|s| s.as_array()).map(|a| a.iter().filter_map(|x| x.as_str().map(|s| s.as_bytes().to_vec())).collect()).unwrap_or_default();
    let d = run::with_wedge_limit(180_000, || engine::sweep::crowd_difference(&cfg, addr, &lines, n));
    run::say(&format!("{} line(s) of {addr:06X}, cfg [{}], {}: {}", lines.len(), cfg.label(), if n == 0 { "with and without a final line feed".to_string() } else { format!("alone and behind {n} other aircraft") }, d.clone().unwrap_or_else(|| "same row".into())));
    if let Some(what) = d {
        ctx.violation(&format!("{id}/crowded-table"), &format!("{addr:06X}"), || what, || case.clone());
    }
}

fn do_replay(prop: &props::Prop, tier: Tier, file: &str) -> i32 {
    run::init(None);
    let Some(v) = std::fs::read(file).ok().and_then(|b| serde_json::from_slice::<Value>(&b).ok()) else {
        eprintln!("cannot read replay file {file}");
        return 2;
    };
    let case = v.get("case").cloned().unwrap_or(Value::Null);
    let mut ctx = Ctx::new(prop.id, tier, 0, 1);
    ctx.replaying = true;
    ctx.findings = report::Findings::default(); // a replay shows the behaviour, listed or not
    if let Some(ep) = case.get("epoch").and_then(|e| e.as_array()) {
        if let (Some(s), Some(ns)) = (ep.first().and_then(|x| x.as_i64()), ep.get(1).and_then(|x| x.as_i64())) {
            shim::set_epoch(s, ns);
            run::say(&format!("epoch {s}.{ns:09}"));
        }
    }
    if case.get("kind").and_then(|k| k.as_str()) == Some("crowd") {
        replay_crowd(&mut ctx, prop.id, &case);
    } else {
        (prop.replay)(&mut ctx, &case);
    }
    run::cleanup_scratch();
    if !ctx.out.machinery_errors.is_empty() {
        for m in &ctx.out.machinery_errors {
            eprintln!("machinery: {m}");
        }
        return 2;
    }
    run::say(&format!("replay of {} ({} / {})", file, v.get("site").and_then(|x| x.as_str()).unwrap_or("?"), v.get("key").and_then(|x| x.as_str()).unwrap_or("?")));
    if ctx.out.violations.is_empty() {
        run::say("replay: property holds on this case");
        0
    } else {
        for vi in &ctx.out.violations {
            run::say(&format!("replay: VIOLATED site={} key={} :: {}", vi.site, vi.key, vi.what));
        }
        1
    }
}

pub fn frames_self_test() -> Result<(), String> {
    use frames::Frame;
    for h in ["8D40621D58C382D690C8AC2863A7", "8D4CA86E58B15398DA1B2834CF37", "8D406B902015A678D4D220AA4BDA", "8DC06A75990D0628B0040C8AA788", "8D71BC009901DC93C0070788AE4B", "8DA7F6429B053D0000000060D7AE", "8D4B18FE68BF033F523BF5BAAAEB"] {
        let f = Frame::from_hex(h).ok_or("hex")?;
        if f.remainder() != 0 || f.hex() != h {
            return Err(format!("CRC-24 encoder disagrees with pinned frame {h}"));
        }
    }
    for (h, a) in [("28001A1B1F0706", 0x4CA86Eu32), ("A0001838300000000000007ADA59", 7453696), ("A800120110010080F600001AFEDD", 4921598), ("A020100A10020A80F000004F24AF", 12612818), ("A425B00A580840092F81204A5821", 11188242)] {
        let f = Frame::from_hex(h).ok_or("hex")?;
        if f.remainder() != a {
            return Err(format!("address/parity of pinned frame {h}: {:06X} != {:06X}", f.remainder(), a));
        }
    }
    // linearity: crc(a^b) = crc(a)^crc(b)
    let (a, b) = (0x8D40621D58C382D690C8ACu128, 0x5D3C6714CD187A00112233u128);
    if frames::crc24(a ^ b, 88) != frames::crc24(a, 88) ^ frames::crc24(b, 88) {
        return Err("CRC-24 not linear".into());
    }
    Ok(())
}

/// scratch directories of harness processes that no longer exist (killed runs) are removed
fn sweep_stale_scratch() {
    for base in ["/dev/shm", "/tmp"] {
        let Ok(rd) = std::fs::read_dir(base) else { continue };
        for e in rd.flatten() {
            let name = e.file_name().to_string_lossy().into_owned();
            if let Some(pid) = name.strip_prefix("sqv-").and_then(|p| p.parse::<u32>().ok()) {
                if !std::path::Path::new(&format!("/proc/{pid}")).exists() {
                    let _ = std::fs::remove_dir_all(e.path());
                }
            }
        }
    }
}
