#!/bin/sh
# usage: validate_seed.sh <worktree> <seed-dir>
# confirms in the scratch worktree: patch applies, existing suite passes with it, demo fails with it, demo passes without it
WT=$1; SD=$2
export CARGO_NET_OFFLINE=true CARGO_TARGET_DIR=$WT/target
cd $WT || exit 2
git checkout -q -- . ; rm -f tests/demo.rs
git apply --check $SD/patch.diff || { echo "PATCH-DOES-NOT-APPLY"; exit 1; }
git apply $SD/patch.diff
SUITE=$(cargo test --offline 2>&1 | grep -E '^test result' | tr '\n' ' ')
mkdir -p tests; cp $SD/demo.rs tests/demo.rs
WITH=$(cargo test --offline --test demo 2>&1 | grep -E '^test result|error\[' | tr '\n' ' ')
git checkout -q -- . 
WITHOUT=$(cargo test --offline --test demo 2>&1 | grep -E '^test result|error\[' | tr '\n' ' ')
rm -f tests/demo.rs; rmdir tests 2>/dev/null
echo "suite-with-patch: $SUITE"
echo "demo-with-patch: $WITH"
echo "demo-without-patch: $WITHOUT"
