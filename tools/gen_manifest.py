#!/usr/bin/env python3
"""Writes /verif/MANIFEST.json from the table below (one entry per claimed property)."""
import json, sys

CLAIMED = {
    "C01": dict(
        category="exploration",
        technique="bounded-exhaustive enumeration of hostile inputs (complete field domains, all lines of <= 2 bytes, all digit counts), explicit-state history search to depth 3/4 and the full 1152-set option product, executed on the real reader thread in a release-like and an overflow-checked build plus the real release/dev CLI binaries",
        text="Every value of each frame field in turn (quick: low 8 bits + single bits; thorough: full domains), every DF at both lengths, every line of 0-2 arbitrary bytes, every digit count 0..64, 70 KiB lines and byte-class interleavings are fed, as first frame and as update, under {default,-U,-R,-U -R}, followed by a well-formed sentinel line; histories over a 30-line hostile/benign alphabet are explored to depth 3 (4); all 1152 option sets run on a mixed stream with stdout captured; an aircraft that keeps being heard while its position, track and heading grow 159 s .. 4 months old is drawn after every frame (timed run through a FIFO with the harness moving the clock, 16 option sets); the hostile file, the bundled recordings and a stride of the option product run on the real release and dev binaries. The verdict is join()==Ok, termination within the watchdog, and the sentinel row present, in both arithmetic profiles.",
        note="Trusted: the watchdog (20 s on the monotonic clock) as the definition of 'wedge'. Field products (two hostile fields at once) beyond the listed ones and option values outside {-u -1,0,3; -d 1,60} are not covered.",
        design="DESIGN.md §5 C01", engine="E1 sweep + E2 explorer + CLI seam"),
    "C07": dict(
        category="exploration",
        technique="bounded-exhaustive enumeration of all 64 codes in each of the 8 character positions (x10 fillings), all 64^2 adjacent pairs, all TC x CA, on both paths and four option sets through the real reader thread; BDS 2,0 under three capability states; W column via the real print",
        text="Every character position with every 6-bit code, every adjacent pair (they share nibbles), every TC 1-4 x CA 0-7, as first frame and as update of a row with a sentinel callsign, under {default,-U,-R,-U -R}; the same strings as BDS 2,0 in DF20/DF21 with the capability gate closed (row created by DF20, CA 0) and open (CA 5, -R); and the printed W/CALLSIGN columns for all TC x CA.",
        note="Trusted: the IA5 subset mapping and the wake table as stated. Random 48-bit strings are not part of the verdict (the per-position and adjacent-pair families cover every nibble boundary).",
        design="DESIGN.md §5 C07", engine="E1 sweep + E4 print"),
    "C13": dict(
        category="fault_enumeration",
        technique="deviation-bounded fault enumeration: all valid streams up to length 3/4 over 8 frames x all placements of d = 0,1,2(,3) junk lines from a 16-symbol alphabet, file source and scripted TCP peer, on the real reader thread; oracle = table equality with the clean stream",
        text="Valid streams (all sequences up to length 3, 4 in thorough, over 8 frames of two aircraft, plus three recorded excerpts) are perturbed by inserting junk lines (empty, CR, wrong digit counts, truncated frame, text, NUL, invalid UTF-8 of four kinds, 70 KiB lines, bad-parity frame) at every combination of positions with d = 0, 1, 2 deviations (3 in thorough); the table must equal the clean stream's table bit for bit and the reader must end Ok; a 26-frame stream under -d 0 (two sweeps) checks that junk does not shift the sweep cadence, junk lines of exactly / just below / just above buffer sizes (4 KiB..2 MiB, LF and CR LF) are inserted at every position, and over-long junk lines whose tail behind every 2^k boundary is itself a well-formed frame must not be read as that frame; runs of 12 .. 65,537 (thorough 300,000) identical unusable lines between accepted frames change nothing. The TCP source is exercised with a scripted loopback peer for streams up to length 2 with d <= 1.",
        note="Trusted: frozen clock (so equal tables include equal time stamps). Junk outside the 16-symbol alphabet and more than 2 (3) insertions are not covered.",
        design="DESIGN.md §5 C13", engine="E3 fault enumeration"),
    "C14": dict(
        category="exploration",
        technique="bounded-exhaustive enumeration of all 32 -i subsets (3 spellings) x ~220 row states covering every column blank/min/max/typical/negative/fractional, rendered by the real Planes::print and the real CLI, against an independent column/cell oracle",
        text="For every subset of the five column groups and every row state of a catalogue that puts each printable field through blank, minimum, largest-fitting, typical, negative and fractional values (with the other fields all blank and all filled), the real print routine is run with stdout captured; the header must list exactly the groups requested, row/header/separator must have equal display width whenever all values fit, and cutting the row at the header's column boundaries must give, per column, that parameter's value (numbers parsed back, right-aligned; text exact, left-aligned; blank when unknown). Tables reached by frames are checked the same way through the real release CLI with a frozen clock, under all three spellings of -i; the catalogue includes the emergency squawks 7500/7600/7700, and rows wider than the header (every multi-byte source marker at the cut, singly and in pairs) must print without ending the reader; position / track / heading ages at and beyond the 160 s wrap of the one-digit age markers, and the age and last-contact states under four other epochs.",
        note="Trusted: the independent column list per -i letter. One-character source markers in separator positions are not judged. Values that do not fit their column are excluded from the width rule (as stated).",
        design="DESIGN.md §5 C14", engine="E4 render + CLI seam"),
    "C15": dict(
        category="exploration",
        technique="bounded-exhaustive enumeration of all tables of 1..4(5) rows over 6 key-value classes (incl. blanks, ties, same-integer floats) x all -o strings of length <= 2(3) over 12 key letters, printed by the real Planes::print, permutation and monotonicity oracle",
        text="Every table of up to 4 rows (5 thorough) whose sort-key field takes every combination of {blank, low, mid, tie, same-integer neighbour, high} is printed under every -o string up to length 2 (3 thorough) over the twelve key letters (plus '', 'x', 'sx'; as one -o and as repeated -o): the address column must be a permutation of the table, the last recognised key must be monotone over the rows where it is known, and without a recognised key the rows must be in ascending address order; emergency squawks are part of the alphabet; the real-valued keys (latitude, longitude, distance) are also given fine-scale neighbours (same displayed tenth, seventh decimal, either side of an integer); consecutive prints use different address sets, and three 40-frame streams drawn after every frame must list, at every refresh, exactly the table of that moment.",
        note="Trusted: direction is judged only where the statement gives it (s, a ascending, A descending); v/V, N/S, W/E, d/D, c may be monotone either way.",
        design="DESIGN.md §5 C15", engine="E4 render"),
    "C18": dict(
        category="fault_enumeration",
        technique="fault-sequence enumeration: every script of length <= 4 (5) over seven TCP peer behaviours (incl. a connection that stays healthy for 6 s of virtual time and long non-UTF-8 junk), plus connections that stay open and silent beyond every socket time-out the reader sets, run against the real reader thread with a scripted loopback peer, gated sleeps, a virtual clock and compressed socket time-outs, oracle = liveness, one 5 s pause per failed attempt, final table equal to the file source's",
        text="Every sequence up to length 4 (2,801 scripts; 5 in thorough: 19,608) over {refuse, accept+close, accept+frames+close, accept+partial line+reset, accept+junk+close, accept+frames+healthy for 6 s+close, accept+long non-UTF-8 junk+close}, followed by a healthy connection, is played by a scripted loopback peer against the real TCP reader; the interposed sleep records every pause and blocks until the script releases it, so each attempt is a sequenced event. The reader must stay alive, pause exactly once for about 5 s after each failed attempt, and end with the table the file source produces from the same lines (every aircraft learned earlier still present); the partial line is varied over all 27 prefix lengths; nine scripts really pause 1.3-3.6 s in the middle of a line (also under -u 1 / -u 0); 24 scripts keep a healthy connection silent for 1.5 x the longest socket time-out the reader installed (time-outs are recorded and compressed 100:1 by the interposed setsockopt), at a line boundary and mid-line, fresh and after each kind of fault, and then continue on the same connection; every script up to length 2 is repeated under -d 0, -d 1, -U -R, with the table drawn after every frame, and under two other epochs (year end, 32-bit time_t wrap). Thorough repeats the length-1 scripts against the real CLI with real pauses and two silent-connection scripts with 35 s of real silence and uncompressed time-outs.",
        note="Trusted: clock_gettime, clock_nanosleep and setsockopt interposition (self-tested at start-up); elapsed time inside the TCP loop is virtual and the faked wall clock follows it. Waiting mechanisms other than thread::sleep and socket time-outs (poll/epoll timers, a watchdog thread on a condition variable) would only be seen by the real-time scripts. Real network timing below the granularity connect/accept/send/close/reset is not explored; a partial line may or may not reach the reader before the reset (both admitted).",
        design="DESIGN.md §5 C18", engine="E3 fault enumeration"),
    "C10": dict(
        category="model_checking",
        technique="explicit-state search of the Comm-B gating machine (40 actions, all orders to depth 4/5 x 4 option sets, each transition on the real reader thread) + exhaustive one-field-at-a-time register sweeps, against a reference gate/validity/Doc 9871 decoder",
        text="Model GATE explores every order of capability reports (DF11 CA 0/3/4/5/7, DF17), BDS 1,7 advertisements (five subsets, one with a reserved bit) and data replies (2,0; 3,0 x3; valid 4,0; 5,0 right/left turn; 6,0 climb/descent; 5,0 with a status bit clear; 4,0 with a reserved bit; a slow 5,0; a 5,0 that is also 6,0-shaped; replies with flight status 5/7), five BDS 1,0 data-link capability reports, an ADS-B velocity squitter and two DF18 squitters (CF 5 / 2; they never change the recorded capability) for one aircraft plus a bystander, to depth 4 (5 thorough) under {default,-R,-U,-U -R}; on every transition each MB-derived field group may change only if the reference gate of the pre-state and the register's validity allow it and must then equal the reference decoding; plausible registers must be decoded. Continuous-run conformance holds at the leaves. The register sweeps run every value field of 4,0/5,0/6,0 over its whole range around three baselines, a grid of registers valid in both the 5,0 and the 6,0 layout, all 32 status-bit subsets, every reserved bit, BDS 1,7 words, under open and closed gates, on rows created by a DF20 with flight status 5 and after an ADS-B velocity squitter and BDS 1,0 reports (and the full GS x TAS product in thorough); two BDS 1,0 reports differing in any single MB bit (every bit 9..56 outside 10-14, both polarities, 1,7 before or between them) must leave every baseline 4,0/5,0/6,0 register decodable; a register valid in both layouts still decodes as 5,0 after the row has seen an unambiguous 5,0 and an unambiguous 6,0 with nearly the same heading and IAS.",
        note="Trusted: refmodel/bds.rs (layouts of DESIGN App. B). Admissible sets: floor or truncation for signed scaled values; BDS 4,0 mode/source status unconstrained in the only-if direction; lenient branch when weak/strong validity of an earlier register disagree. Products of more than one field away from a baseline are not covered (except GS x TAS).",
        design="DESIGN.md §5 C10", engine="E2 explorer + E1 sweep"),
    "C19": dict(
        category="model_checking",
        technique="lock-step product exploration of model ROW under pairs of option sets (10 presentation variants x 3 bases, depth 2/3; default vs -U on the valid-value sub-alphabet, depth 3/4), every step on the real reader thread; recordings as long histories in-process and through the CLI",
        text="Each base option set {default,-U,-R} is explored over model ROW and on every transition the same action is applied to the same pre-state under each of ten presentation variants (-i x3, -o x2, -c, -u -1, -u 0, -D, -O, and two draw-every-frame combinations): the resulting tables must be bit-identical (distance excluded for -O). Default and -U are stepped in lock-step from their own states over the valid-value DF4/5/11/17 alphabet with ticks; callsign, altitude, squawk, position, speed, track, vertical rate, category and surveillance status must agree after every step. A 30-frame stream with -d 0 (two sweeps) and the five bundled recordings are run under every pair in-process, and through the release CLI for -c, -M/-l, -D, -o. -u through the real binary with a moving clock: on a timed stream (FIFO input, clock file moved by the harness) the last printed table is the same for -u {-1,0,1,3,6} under each -d {1,5,60,0} x {default,-U}, and the binary prints what the in-process reader prints.",
        note="Trusted: in-process runs apply -O as main() does. -M and -l are only exercised through the CLI seam.",
        design="DESIGN.md §5 C19", engine="E2 explorer (product)"),
    "C03": dict(
        category="exploration",
        technique="complete-domain enumeration of all 2^24 addresses x 9 formats and all weight<=2 payload families on the real get_icao/reader thread vs an independent CRC-24; explicit-state search of model ROW (3 aircraft, depth 3) for row isolation",
        text="Address recovery is executed for every one of the 2^24 addresses in each of the nine formats (three payloads in thorough) and for every payload of Hamming weight <= 2 (which exercises every bit of the polynomial and shift schedule) and compared with an independent bit-serial CRC-24; a stride of the same families goes through get_message and the reader thread (row key). Row isolation is decided by explicit-state search: every sequence of 80 frames/ticks for three colliding aircraft to depth 3 is executed on the real reader thread and every transition must leave all rows other than the frame's own bit-identical. Back-to-back 'region pair' families (frames equal except in one region) run on fresh threads to expose decoder state that survives between frames. XOR-neighbour isolation: while aircraft A is tracked, a frame of each of 14 formats/registers from A xor d - d every one-byte value in each byte position and the CRC syndrome of every single data bit of a 56- and a 112-bit frame - must create its own row and leave A's row bit-identical (default, -U, -R). Address-in-payload: a DF16/17/18/20/21 frame of a third aircraft whose 56-bit payload carries a tracked aircraft's address at every bit offset (10 leading bytes, ACAS ARA/TTI bits, zero/one fill) leaves the other rows bit-identical. Crowded tables: n = 1000 .. 65537 tracked aircraft (around 4096 and 65536), then one frame of a new one - all n rows are still there, bit-identical.",
        note="Trusted: reference CRC-24 and address rule. Interleavings deeper than 3 over the 80-action alphabet are not covered.",
        design="DESIGN.md §5 C03", engine="E1 sweep + E2 explorer"),
    "C08": dict(
        category="model_checking",
        technique="explicit-state search of the even/odd pairing machine (13 actions, depth 5/7, every transition a run of the real reader thread) + bounded-exhaustive lattice of true positions x orders x delays, against a reference CPR decoder and pairing machine",
        text="A lattice of true positions built to hit every NL transition (+-2e-5..3e-2 deg), zone midpoints, the equator, the antimeridian and both hemispheres is encoded with an independent CPR encoder and fed in both parity orders with every delay around the 10 s limit (9.999/10.000/10.001 s), under default and -U: a decodable pair must show the reference global decode, within 20 m of the truth and with the haversine distance; every other pair must leave the position untouched. The pairing logic over histories (re-pairing old slots, zero fields, zone changes, silences) is explored exhaustively to depth 5 (7 thorough) as model PAIR with the reference slots as history variable. The midpoint lattice x 13 delays and model PAIR (depth 4/5) are repeated under four other epochs (just after midnight at the end of a year, just after the 32-bit time_t wrap, late on a leap day with a sub-second part, T0 + 0.999999999 s), so that the two frames of a pair lie on different sides of those boundaries.",
        note="Trusted: reference CPR encoder/decoder (round-trip self-test, textbook vector), NL closed formula; latitudes within 1e-6 deg of an NL transition are skipped and counted. Elapsed time is simulated by shifting the public time stamps under a frozen clock.",
        design="DESIGN.md §5 C08", engine="E1 lattice + E2 explorer"),
    "C11": dict(
        category="model_checking",
        technique="explicit-state breadth-first search over model ROW (28 frames of every supported format per aircraft + ticks; 2 aircraft depth 3/4, 3 aircraft depth 3) and model AGED (one aircraft, silences of 1/31/59 s, a sweep-forcing burst; from the empty table and from a warm row), each transition executed on the real reader thread, one-step refinement against a reference fold; conformance of the simulated-time transitions with continuous runs of the real reader under a moving virtual clock",
        text="All sequences to depth 3 (quick) / 4 (thorough) over 54 actions for two address-colliding aircraft (and 80 actions for three, thorough) under {default,-U,-R,-U -R} are executed from the empty table, de-duplicated on the canonical table state; on every transition the reference model is applied to the implementation's own pre-state: carried parameters must take the reference value, non-carried ones and all other rows must stay bit-identical, re-feeding the frame must change nothing (probe on every transition), and every tick-free history at the depth bound fed as ONE continuous stream must reach the table the step-by-step exploration reached. Model AGED (32 actions depth 3/4; reduced 14-action alphabet depth 4/5 behind a warm prefix) adds silences of 1 s / 31 s / 59 s and a burst of twelve frames of a bystander; rows at least delete_after old may be swept, everything else is judged as in ROW, and every history that contains a silence is also fed as ONE stream through a FIFO while the harness moves the virtual wall clock between the lines (timed conformance: time stamps the snapshot does not know age too). REPEAT: for every ordered pair (a, b) of the 28 frames, a x k then b (k = 11, 70, 300) in one run must give the table of a, a, b step by step.",
        note="Trusted: reference semantics refmodel/sem.rs + bds.rs (admissible sets of DESIGN §4); for timed runs, that a reader blocked in read() on an empty pipe has processed everything written so far (observed through /proc/self/task/*/syscall and FIONREAD). Sequences longer than the depth bound are only covered by the REPEAT family.",
        design="DESIGN.md §5 C11", engine="E2 explorer"),
    "C12": dict(
        category="model_checking",
        technique="explicit-state search of model EXPIRY (160 parameter sets x 7-8 actions incl. burst and ticks at delete_after +-1 ms, depth 6/8) on the real reader thread with the true last-heard ages as history variable",
        text="For delete_after in {1,5,60,600}, default/-U, ten refreshing formats and with/without -f, every sequence of {frame of A, burst of 12 frames of B (forces the sweep), one frame of B, filtered-out frame, silences of 1 s / d-1 ms / d / d+1 ms} to depth 6 (8 thorough) is executed; after every step: an accepted frame puts its aircraft in the table with age 0, an aircraft heard < d s ago is present, after a burst no aircraft silent >= d s remains, a frame from a swept aircraft yields exactly the row it yields in an empty table, and the size bound holds; twelve parameter sets run with the table drawn after every frame, and the sweep cadence is re-checked in crowded tables (100+ bystander rows) and for rows that carry nothing but an address. Parameter sets with d = 1, 5 are repeated under four other epochs (year end, 32-bit time_t wrap, leap day, sub-second). Through the real binary: a timed stream (FIFO input, clock file moved by the harness) under -d {1,5,60,0} x -u {-1,0,1,3,6} x {default,-U} must print exactly what the in-process reader prints when it is given the same options directly, and the last table must not depend on -u.",
        note="Trusted: time is simulated by shifting every public time stamp under the frozen clock (exact millisecond ages). The per-run sweep counter starts at 0, so 'at most 12 further frames' is checked as a 12-frame burst.",
        design="DESIGN.md §5 C12", engine="E2 explorer"),
    "C05": dict(
        category="exploration",
        technique="complete-domain enumeration: all 2^13 AC13 codes (DF4, DF20) and all 2^12 AC12 codes x TC 9..18 x paths x option sets through the real reader thread vs an independent Q-bit/Gillham decoder",
        text="Every altitude code of every format that carries one is executed through the real reader thread, as first frame and as update of a row holding a sentinel altitude, under {default,-U,-R,-U -R} and two/three settings of the other payload bits, with rows of six provenances (DF11 CA5 / CA0, sentinel only, DF21, after a surface squitter), and compared with an independent decoder (Q=1 formula; Gillham validated by round trip against a separately written encoder). The domain is finite, so enumeration decides it. Q=0 (Gillham) is a recorded known finding keyed by the explicit set of failing AC13 codes / the closed predicate Q=0 for AC12.",
        note="Trusted: reference decoder refmodel/fields.rs (self-validated at start-up). M=1 codes are skipped (unconstrained); a DF20 creating the row may contribute the address only.",
        design="DESIGN.md §5 C05, §6 D12", engine="E1 sweep"),
    "C09": dict(
        category="exploration",
        technique="bounded-exhaustive (quick) / complete-domain (thorough: all 2x1024x2x1024 x 2 subtypes) enumeration of TC19 codes through the real reader thread on both update paths and four option sets vs an independent velocity decoder",
        text="Velocity codes (quick: the cross of all E/W values x 10 N/S magnitudes x both signs and vice versa; thorough: the full 2x1024x2x1024 product, both subtypes) and all 2x512 vertical-rate codes are executed as first and as n-th frame under {default,-U,-R,-U -R}; every observation is compared with the reference and the eight observations of a code with each other; a context family varies the squitter's CA field 0..7, the GNSS/baro difference and a low barometric altitude already in the row.",
        note="Trusted: reference velocity/vertical-rate decoder; admissible set for floor(atan2) at exact integer angles (1e-9 deg) and 4-kt band for the supersonic subtype.",
        design="DESIGN.md §5 C09", engine="E1 sweep"),
    "C02": dict(
        category="exploration",
        technique="bounded-exhaustive input enumeration on the real reader thread: all digit counts 0..64, all 32 DF x both lengths, all single decoration insertions, against an independent acceptance rule",
        text="Every digit count 0..64, every DF value at both frame lengths (with and without the 12-digit prefix) and every single insertion of each decoration symbol at every position are executed as one-line runs of the real reader thread on an empty and a populated table; acceptance is compared with an independently written rule, decorated lines with their bare digit strings (bit-identical tables); every non-hex ASCII character is used as decoration and as leading framing symbol in front of every digit count; a table holding a long-silent aircraft that is redrawn after every line must survive 80 non-frame lines untouched. This enumerates exactly the finite families the property quantifies over; longer decorations are covered pairwise in the thorough tier.",
        note="Trusted: reference acceptance rule (refmodel/accept.rs) and CRC-24 encoder (validated against the repository's pinned frames). DFs outside the nine supported formats are only judged for no-crash, invariance and length agreement.",
        design="DESIGN.md §5 C02", engine="E1 sweep"),
    "C04": dict(
        category="exploration",
        technique="bounded-exhaustive error-pattern enumeration (all 1-/2-bit errors, all bursts up to 12/24 bits with every interior pattern) executed on the real get_message and reader thread, verdict from an independent CRC-24",
        text="For eight valid base squitters every 1-bit, every 2-bit and every burst error pattern (<=12 bits quick, <=24 thorough, all interior patterns) confined to bits 6..112 is applied, alone and directly after the valid frame on the same thread / in the same stream; the expected verdict is computed with an independent bit-serial CRC-24 (DF11: upper 17 bits), and the real code must agree through get_message and, at table level, leave an empty and a populated table bit-identical - under default and -U and under the options that must not matter for acceptance (-M for the formats under test, -c, -D, -R, a -f list that lets them through). Exhaustive over the stated pattern families.",
        note="Trusted: reference CRC-24 (frames.rs; checked against pinned frames and linearity). Heavier random patterns are not part of the verdict.",
        design="DESIGN.md §5 C04", engine="E1 sweep"),
    "C06": dict(
        category="exploration",
        technique="complete-domain enumeration: all 2^13 identity codes x DF5/DF21 x paths x option sets through the real reader thread vs an independent octal decoder",
        text="All 8192 identity-field values in DF5 and DF21, under two/three settings of the remaining bits, as first frame and as update of a row holding a sentinel squawk (rows created by DF11 CA5, DF11 CA0, the DF5 alone or a DF20), under {default,-U,-R,-U -R}: each executed through the real reader thread and compared with an independent A/B/C/D decoder; plus every other supported format applied to a row with a squawk (must not change it).",
        note="Trusted: the reference bit order C1 A1 C2 A2 C4 A4 X B1 D1 B2 D2 B4 D4. A DF21 that creates the row may contribute the address only (stated).",
        design="DESIGN.md §5 C06", engine="E1 sweep"),
    "C16": dict(
        category="model_checking",
        technique="explicit enumeration of all input sequences up to depth 4/5 over a 15-symbol alphabet x 15 filter sets, every prefix observed on the real reader's stdout, against a reference counter fold; CLI trace conformance",
        text="All sequences of length 4 (5 in thorough) over a 15-symbol alphabet (one accepted frame of each DF, a second aircraft, zero address, bad parity, junk) under 15 filter sets (multi-format lists given in non-ascending order) are run through the real reader thread with --update=-1 -c, so every prefix prints its counter line; each line is compared with a reference fold, refresh counts with accepted filter-passing frames, and the -f table with the table of the filtered sub-stream. A wide alphabet - one accepted frame for EVERY five-bit format value 0..31 and accepted frames in the decorated line forms (12-digit time stamp with and without '@', '*...;', leading blank) - is run as all sequences of length 1 and 2 under every one-format filter. On a 30 s old table every rejected or filtered-out line must leave the table bit-identical. All sequences up to length 3 are also run through the real release CLI and compared byte for byte.",
        note="Trusted: which alphabet symbols are accepted frames is known by construction (frames built with the reference CRC). DF24 counts under its own DF; its address reading is not judged.",
        design="DESIGN.md §5 C16", engine="E2-style sequence enumeration"),
    "C17": dict(
        category="exploration",
        technique="bounded-exhaustive enumeration: complete 2^24 address domain executed on the real constructor and reader thread, compared with an independent allocation table",
        text="Complete-domain enumeration: every one of the 16,777,216 addresses is pushed through the real Plane constructor, and every block boundary +-1 plus a stride (thorough: every address) through the real reader thread; the registration must also stay put under -U/-R and after frames of every format (DF18 with every CF) for both ends of every block and of every unallocated gap, including identification squitters and BDS 2,0 replies whose callsign looks like a registration mark (G-, D-, EI-, N..., ...) in every category class; the verdict is a comparison with an independently transcribed Annex 10 block table. The domain is finite and small, so exhaustive execution decides the property outright.",
        note="Trusted: the transcription of the Annex 10 blocks in DESIGN App. A (self-checked for disjointness and alignment at start-up).",
        design="DESIGN.md §5 C17, §9",
        engine="E1 sweep",
    ),
}

NOT_YET = {}

def main():
    checks = []
    for pid in sorted(CLAIMED):
        c = CLAIMED[pid]
        checks.append({
            "property_id": pid,
            "quick_cmd": f"./check {pid} --tier quick",
            "thorough_cmd": f"./check {pid} --tier thorough",
            "evidence_file": f"/verif/evidence/{pid}.json",
            "replay_cmd_template": f"./check {pid} --replay {{path}}",
            "engine": c["engine"],
            "level_claimed": {"category": c["category"], "text": c["text"], "design_ref": c["design"]},
            "level_note": c["note"],
            "technique": c["technique"],
        })
    props = [json.loads(l)["id"] for l in open("/verif/properties.jsonl")]
    na = [{"property_id": p, "reason": NOT_YET.get(p, "check under construction in this session (see DESIGN.md §5); not claimed until its command exists and passes on the unchanged tree")} for p in props if p not in CLAIMED]
    m = {
        "version": 1,
        "setup_cmd": "./setup.sh",
        "hooks": {
            "guard": "meslab_squitterator_verif",
            "enable": "none needed: every seam used (spawn_reader_thread, Planes.aircrafts, Plane fields, Args, get_message/get_icao, Planes::print) is already public; the guard name is reserved for future additive hooks",
            "baseline_off_cmd": "cd /repo && cargo test --workspace --no-fail-fast --offline",
            "source_commits": [],
            "add_only": True,
        },
        "engines": [
            {"name": "sqv", "path": "/verif/harness", "serves_properties": sorted(CLAIMED), "kind_free_text": "Rust harness linking the real crate: E1 field-space sweeps, E2 explicit-state history search (each transition = one run of the real reader thread), E3 fault/deviation enumeration, E4 renderer check; frozen clock and gated sleep by libc interposition; N worker processes"},
        ],
        "checks": checks,
        "not_applicable": na,
        "notes": "exit 0 = held on everything explored, exit 1 + VIOLATION line = violation, exit 2 = machinery error (never a verdict). Known findings: /verif/KNOWN_FINDINGS.txt (read-only at run time).",
    }
    json.dump(m, open("/verif/MANIFEST.json", "w"), indent=1)
    print(f"claimed {len(checks)}, not claimed {len(na)}")

main()
