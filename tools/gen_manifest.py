#!/usr/bin/env python3
"""Writes /verif/MANIFEST.json from the table below (one entry per claimed property)."""
import json, sys

CLAIMED = {
    "C17": dict(
        category="exploration",
        technique="bounded-exhaustive enumeration: complete 2^24 address domain executed on the real constructor and reader thread, compared with an independent allocation table",
        text="Complete-domain enumeration: every one of the 16,777,216 addresses is pushed through the real Plane constructor, and every block boundary +-1 plus a stride through the real reader thread and CLI; the verdict is a comparison with an independently transcribed Annex 10 block table. The domain is finite and small, so exhaustive execution decides the property outright.",
        note="Trusted: the transcription of the Annex 10 blocks in DESIGN App. A (self-checked for disjointness and alignment at start-up).",
        design="DESIGN.md §5 C17, §9",
        engine="E1 sweep",
    ),
}

NOT_YET = {}

def main():
    checks = []
    for pid in sorted(CLAIMED):
        c = CLAIMED[pid]
        checks.append({
            "property_id": pid,
            "quick_cmd": f"./check {pid} --tier quick",
            "thorough_cmd": f"./check {pid} --tier thorough",
            "evidence_file": f"/verif/evidence/{pid}.json",
            "replay_cmd_template": f"./check {pid} --replay {{path}}",
            "engine": c["engine"],
            "level_claimed": {"category": c["category"], "text": c["text"], "design_ref": c["design"]},
            "level_note": c["note"],
            "technique": c["technique"],
        })
    props = [json.loads(l)["id"] for l in open("/verif/properties.jsonl")]
    na = [{"property_id": p, "reason": NOT_YET.get(p, "check under construction in this session (see DESIGN.md §5); not claimed until its command exists and passes on the unchanged tree")} for p in props if p not in CLAIMED]
    m = {
        "version": 1,
        "setup_cmd": "./setup.sh",
        "hooks": {
            "guard": "meslab_squitterator_verif",
            "enable": "none needed: every seam used (spawn_reader_thread, Planes.aircrafts, Plane fields, Args, get_message/get_icao, Planes::print) is already public; the guard name is reserved for future additive hooks",
            "baseline_off_cmd": "cd /repo && cargo test --workspace --no-fail-fast --offline",
            "source_commits": [],
            "add_only": True,
        },
        "engines": [
            {"name": "sqv", "path": "/verif/harness", "serves_properties": sorted(CLAIMED), "kind_free_text": "Rust harness linking the real crate: E1 field-space sweeps, E2 explicit-state history search (each transition = one run of the real reader thread), E3 fault/deviation enumeration, E4 renderer check; frozen clock and gated sleep by libc interposition; N worker processes"},
        ],
        "checks": checks,
        "not_applicable": na,
        "notes": "exit 0 = held on everything explored, exit 1 + VIOLATION line = violation, exit 2 = machinery error (never a verdict). Known findings: /verif/KNOWN_FINDINGS.txt (read-only at run time).",
    }
    json.dump(m, open("/verif/MANIFEST.json", "w"), indent=1)
    print(f"claimed {len(checks)}, not claimed {len(na)}")

main()
