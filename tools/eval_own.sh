#!/bin/sh
# usage: eval_own.sh <worktree-root> <log> <ID...> : validates seeded/1,2 of each id and runs only the owning quick check
ROOT=$1; LOG=$2; shift 2
for id in "$@"; do
  for n in 1 2; do
    D=$ROOT/$id/seeded/$n
    [ -f $D/patch.diff ] || { echo "=== $id/$n MISSING" >> $LOG; continue; }
    echo "=== $id/$n" >> $LOG
    /verif/tools/validate_seed.sh $ROOT/$id $D 2>&1 | tail -3 | cut -c1-120 >> $LOG
    /verif/tools/run_seed.sh $D/patch.diff $id 2>&1 | cut -c1-330 | tail -3 >> $LOG
  done
done
echo "DONE $*" >> $LOG
