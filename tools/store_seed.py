#!/usr/bin/env python3
"""store_seed.py <ID> <n> <caught_by (comma list or '-')> <note>  : copies a validated seeded change from /tmp/wtN/<ID>/seeded/<n> into /verif/seeded/<ID>-<n>/"""
import json, os, shutil, subprocess, sys
pid, n, caught, note = sys.argv[1:5]
dst_n = sys.argv[5] if len(sys.argv) > 5 else n
src = f"/tmp/wtN/{pid}/seeded/{n}"
dst = f"/verif/seeded/{pid}-{dst_n}"
os.makedirs(dst, exist_ok=True)
shutil.copy(f"{src}/patch.diff", f"{dst}/patch.diff")
shutil.copy(f"{src}/demo.rs", f"{dst}/demo.rs")
try:
    meta = json.load(open(f"{src}/meta.json"))
except Exception as e:
    meta = {"property": pid, "summary": "(agent meta.json unreadable)", "needs": "", "ran": ""}
val = subprocess.run(["/verif/tools/validate_seed.sh", f"/tmp/wtN/{pid}", src], capture_output=True, text=True).stdout.strip().splitlines()
meta["property"] = pid
meta["confirmed_in_scratch_worktree"] = val
meta["base_commit"] = subprocess.run(["git", "-C", "/repo", "rev-parse", "--short", "HEAD"], capture_output=True, text=True).stdout.strip()
meta["caught_by_quick_checks"] = [] if caught == "-" else caught.split(",")
meta["verifier_note"] = note
meta["how_checked"] = "git -C /repo apply seeded/<id>/patch.diff; ./check <ID> --tier quick; git -C /repo checkout -- .   (tools/run_seed.sh)"
json.dump(meta, open(f"{dst}/meta.json", "w"), indent=1)
print(dst, val[-2:] if val else val)
