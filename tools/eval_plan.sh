#!/bin/sh
# usage: eval_plan.sh <worktree-root> <plan-file> <log>: each plan line "<ID>/<n> <check>..." - apply the seed, run those quick checks, revert
ROOT=$1; PLAN=$2; LOG=$3
while read -r seed checks; do
  [ -n "$seed" ] || continue
  id=${seed%/*}; n=${seed#*/}
  echo "=== $seed" >> $LOG
  /verif/tools/run_seed.sh $ROOT/$id/seeded/$n/patch.diff $checks 2>&1 | cut -c1-260 >> $LOG
done < $PLAN
echo "DONE" >> $LOG
