/* LD_PRELOAD shim: freezes CLOCK_REALTIME at VERIF_FAKE_EPOCH (seconds; nanoseconds from VERIF_FAKE_EPOCH_NS) for the real CLI binary. */
#define _GNU_SOURCE
#include <stdlib.h>
#include <time.h>
#include <unistd.h>
#include <sys/syscall.h>

int clock_gettime(clockid_t clk, struct timespec *ts) {
    const char *e = getenv("VERIF_FAKE_EPOCH");
    if (clk == CLOCK_REALTIME && e) {
        ts->tv_sec = (time_t)atoll(e);
        const char *n = getenv("VERIF_FAKE_EPOCH_NS");
        ts->tv_nsec = n ? atol(n) : 0;
        return 0;
    }
    return (int)syscall(SYS_clock_gettime, clk, ts);
}
