/* LD_PRELOAD shim for the real CLI binary: CLOCK_REALTIME shows VERIF_FAKE_EPOCH (seconds; nanoseconds from
   VERIF_FAKE_EPOCH_NS). With VERIF_FAKE_CLOCK_FILE the current instant is read from that file on every call
   (two little-endian int64: seconds, nanoseconds; mapped once), so the harness can move the clock while the
   program is blocked reading its input. */
#define _GNU_SOURCE
#include <fcntl.h>
#include <stdint.h>
#include <stdlib.h>
#include <sys/mman.h>
#include <sys/syscall.h>
#include <time.h>
#include <unistd.h>

static volatile int64_t *shared = 0;
static int tried = 0;

int clock_gettime(clockid_t clk, struct timespec *ts) {
    if (clk == CLOCK_REALTIME) {
        if (!tried) {
            tried = 1;
            const char *f = getenv("VERIF_FAKE_CLOCK_FILE");
            if (f) {
                int fd = (int)syscall(SYS_open, f, O_RDONLY);
                if (fd >= 0) {
                    void *p = mmap(0, 16, PROT_READ, MAP_SHARED, fd, 0);
                    if (p != MAP_FAILED) shared = (volatile int64_t *)p;
                    syscall(SYS_close, fd);
                }
            }
        }
        if (shared) {
            ts->tv_sec = (time_t)shared[0];
            ts->tv_nsec = (long)shared[1];
            return 0;
        }
        const char *e = getenv("VERIF_FAKE_EPOCH");
        if (e) {
            ts->tv_sec = (time_t)atoll(e);
            const char *n = getenv("VERIF_FAKE_EPOCH_NS");
            ts->tv_nsec = n ? atol(n) : 0;
            return 0;
        }
    }
    return (int)syscall(SYS_clock_gettime, clk, ts);
}
