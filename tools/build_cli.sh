#!/bin/sh
# Builds the real CLI (release: LTO, panic=abort; dev: overflow checks) from /repo's
# current working tree into /verif/target/cli, and the frozen-clock LD_PRELOAD shim.
set -e
export CARGO_NET_OFFLINE=true
cd /repo
cargo build --release --offline -q --target-dir /verif/target/cli
cargo build --offline -q --target-dir /verif/target/cli
SHIM=/verif/target/fakeclock.so
if [ ! -f "$SHIM" ] || [ /verif/tools/fakeclock.c -nt "$SHIM" ]; then
  gcc -O2 -shared -fPIC -o "$SHIM" /verif/tools/fakeclock.c -ldl
fi
