#!/bin/sh
# usage: run_seed_all.sh <patch.diff>  - applies the patch to /repo, runs every quick check, reverts; prints which checks flag it
P=$1
cd /repo || exit 2
[ -z "$(git status --porcelain --untracked-files=no)" ] || { echo "/repo not clean"; exit 2; }
git apply "$P" || { echo "patch does not apply"; exit 2; }
CAUGHT=""; BROKEN=""
for id in C01 C02 C03 C04 C05 C06 C07 C08 C09 C10 C11 C12 C13 C14 C15 C16 C17 C18 C19; do
  OUT=$(cd /verif && ./check $id --tier quick 2>&1); RC=$?
  if [ $RC -eq 1 ]; then CAUGHT="$CAUGHT $id"; echo "$id: $(echo "$OUT" | grep -E '^VIOLATION' | head -1 | cut -c1-240)"; fi
  if [ $RC -ge 2 ]; then BROKEN="$BROKEN $id"; echo "$id: machinery exit $RC: $(echo "$OUT" | tail -2 | cut -c1-200)"; fi
done
git -C /repo checkout -- .
echo "CAUGHT-BY:$CAUGHT"
echo "MACHINERY:$BROKEN"
