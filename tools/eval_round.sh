#!/bin/sh
# usage: eval_round.sh <worktree-root> <log> <ID...> : validates and runs every quick check against seeded/1 and seeded/2 of each id
ROOT=$1; LOG=$2; shift 2
for id in "$@"; do
  for n in 1 2; do
    D=$ROOT/$id/seeded/$n
    [ -f $D/patch.diff ] || { echo "=== $id/$n MISSING" >> $LOG; continue; }
    echo "=== $id/$n" >> $LOG
    /verif/tools/validate_seed.sh $ROOT/$id $D 2>&1 | tail -3 | cut -c1-160 >> $LOG
    /verif/tools/run_seed_all.sh $D/patch.diff >> $LOG 2>&1
  done
done
echo "DONE $*" >> $LOG
