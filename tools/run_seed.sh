#!/bin/sh
# usage: run_seed.sh <patch.diff> <ID> [<ID>...]   - applies the patch to /repo, runs the quick checks, reverts
P=$1; shift
cd /repo || exit 2
[ -z "$(git status --porcelain --untracked-files=no)" ] || { echo "/repo not clean"; exit 2; }
git apply "$P" || { echo "patch does not apply"; exit 2; }
for id in "$@"; do
  OUT=$(cd /verif && ./check $id --tier ${TIER:-quick} 2>&1); RC=$?
  NV=$(echo "$OUT" | grep -c '^VIOLATION')
  echo "$id rc=$RC violations_lines=$NV :: $(echo "$OUT" | grep -E '^VIOLATION' | head -1 | cut -c1-260)"
  [ $RC -ge 2 ] && echo "$OUT" | tail -5 | cut -c1-300
done
git -C /repo checkout -- .
